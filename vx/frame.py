"""Frame obligations: 'only these sites write / construct X', generated from and discharged
on the real token stream of the current /repo tree (same tokenizer as the extractor).
Each obligation function returns
  {name, obligations:int, failed:[{obligation, site, file, line, fn, ...}], samples:[...]}"""
import os
import re

from extract import load, LostAnchor
from rusttok import IDENT, PUNCT, WS, COMMENT

REGISTRY = {}   # prop -> [functions]


def frame(*props):
    def deco(f):
        for p in props:
            REGISTRY.setdefault(p, []).append(f)
        return f
    return deco


def obligations_for(P):
    return REGISTRY.get(P, [])


def enclosing_fn(src, p):
    """name of the innermost `fn` item whose body contains significant position p"""
    best = None
    for q in range(p, -1, -1):
        t = src.t(q)
        if t.kind == IDENT and t.text == "fn" and q + 1 < src.n() and src.t(q + 1).kind == IDENT:
            try:
                p_open, p_close, _ = src.item_end(q)
            except LostAnchor:
                continue
            if p_open is not None and p_open < p <= p_close:
                return src.t(q + 1).text, q
    return best, None


# =====================================================================================
# F-number (C06): every construction site of a number value is discharged by a rule
# =====================================================================================
import glob
import hashlib
import json
import shutil
import subprocess

VERIF_ROOT = os.path.dirname(os.path.dirname(os.path.abspath(__file__)))
NUM_FILES_GLOB = "rsjsonnet-lang/src/program/**/*.rs"
KW_NOT_CALL = {"if", "match", "in", "while", "return", "for", "let", "else", "move"}


def _enclosing_opens(src, p):
    """positions of the '{' tokens enclosing significant position p, innermost last"""
    out = []
    stack = []
    for q in range(0, p):
        t = src.t(q)
        if t.kind == PUNCT and t.text in "([{":
            stack.append(q)
        elif t.kind == PUNCT and t.text in ")]}":
            stack.pop()
    return [q for q in stack if src.t(q).text == "{"], stack


def _is_pattern_site(src, p, p_close):
    """p = position of `ValueData`, p_close = position of the ')' closing Number(...)"""
    # path may be prefixed (crate::...::ValueData) - walk back over `ident ::`
    q = p
    while q >= 2 and src.t(q - 1).text == ":" and src.t(q - 2).text == ":":
        q -= 3
        if q < 0 or src.t(q).kind != IDENT:
            break
    prev = src.t(q - 1) if q > 0 else None
    nxt = src.t(p_close + 1) if p_close + 1 < src.n() else None

    def after_is_pattern_end(pos):
        t1 = src.t(pos)
        if t1.kind == PUNCT and t1.text == "=" and pos + 1 < src.n():
            t2 = src.t(pos + 1)
            if t2.text == ">":
                return True
            if t2.text != "=":
                return True          # `let PAT = ...`
        if t1.kind == IDENT and t1.text in ("if", "else"):
            return True              # match guard / let-else handled by `=` above
        if t1.kind == PUNCT and t1.text == "|" :
            return True
        return False

    if prev is None:
        return False
    if prev.kind == IDENT and prev.text == "let":
        return True
    if prev.kind == PUNCT and prev.text == ">" and q >= 2 and src.t(q - 2).text == "=":
        return False                 # `=> ValueData::Number(..)`
    if prev.kind == PUNCT and prev.text == "=":
        return False
    if prev.kind == IDENT and prev.text == "return":
        return False
    # enclosing bracket
    _, stack = _enclosing_opens(src, p)
    if not stack:
        return False
    o = stack[-1]
    ot = src.t(o).text
    if ot == "(":
        before = src.t(o - 1) if o > 0 else None
        if before is not None and ((before.kind == IDENT and before.text not in KW_NOT_CALL) or before.text in (">",)):
            # call argument `f(...)` - but also tuple-struct PATTERN `Some(ValueData::Number(x)) =>`
            c = src.match[o]
            return after_is_pattern_end(c + 1) and _simple_binding(src, p_close)
        # tuple: pattern iff followed by `=>` / `=` / `|`
        c = src.match[o]
        return after_is_pattern_end(c + 1)
    if ot == "{":
        return nxt is not None and after_is_pattern_end(p_close + 1)
    if ot == "[":
        return False
    return False


def _simple_binding(src, p_close):
    o = src.match[p_close]
    inner = [src.t(k) for k in range(o + 1, p_close)]
    return all(t.kind == IDENT or t.text == "_" for t in inner) and len(inner) <= 3


def number_sites(repo):
    """every expression-position `ValueData::Number(<arg>)` plus `State::PushU32AsValue(<arg>)`"""
    sites = []
    for path in sorted(glob.glob(os.path.join(repo, NUM_FILES_GLOB), recursive=True)):
        rel = os.path.relpath(path, repo)
        src = load(repo, rel)
        n = src.n()
        for p in range(n - 4):
            t = src.t(p)
            if t.kind != IDENT:
                continue
            ctor = None
            if (t.text in ("ValueData", "Self") and src.t(p + 1).text == ":" and src.t(p + 2).text == ":"
                    and src.t(p + 3).text == "Number" and src.t(p + 4).text == "("):
                ctor = "ValueData::Number"
            elif (t.text == "State" and src.t(p + 1).text == ":" and src.t(p + 2).text == ":"
                  and src.t(p + 3).text == "PushU32AsValue" and src.t(p + 4).text == "("):
                ctor = "State::PushU32AsValue"
            if not ctor:
                continue
            if t.text == "Self" and "data.rs" not in rel:
                continue
            p_open = p + 4
            p_close = src.match[p_open]
            if _is_pattern_site(src, p, p_close):
                continue
            inner = [src.t(k).text for k in range(p_open + 1, p_close)]
            if inner == ["_"] or (inner and inner[0] in ("ref", "mut")) or inner == [".", "."]:
                continue   # `_` / `ref x` can only be a pattern (e.g. inside matches!(..))
            fn_name, p_fn = enclosing_fn(src, p)
            a = src.toks[src.sig[p_open + 1]].start
            b = src.toks[src.sig[p_close - 1]].end if p_close - 1 > p_open else a
            sites.append({"file": rel, "line": t.line, "fn": fn_name, "p_fn": p_fn, "p": p, "p_open": p_open,
                          "p_close": p_close, "ctor": ctor, "arg": " ".join(src.text[a:b].split()), "a": a, "b": b})
    return sites


def _assigns_between(src, ident, lo, hi):
    for q in range(lo, hi):
        t = src.t(q)
        if t.kind == IDENT and t.text == ident:
            nx = src.t(q + 1)
            pv = src.t(q - 1)
            if pv.kind == IDENT and pv.text in ("let", "mut") :
                return True
            if nx.kind == PUNCT and nx.text == "=" and src.t(q + 2).text != "=" and pv.text not in ("=", "!", "<", ">"):
                return True
            if nx.kind == PUNCT and nx.text in "+-*/%" and src.t(q + 2).text == "=":
                return True
    return False


def finiteness_gate(src, p_fn, site_p, ident):
    """a dominating finiteness gate on `ident` before site_p inside the fn at p_fn -> description or None"""
    p_open, p_close, _ = src.item_end(p_fn)
    site_chain, _ = _enclosing_opens(src, site_p)
    best = None
    for q in range(p_open + 1, site_p):
        t = src.t(q)
        # (a) self.check_number_value(ident, ...)?
        if (t.kind == IDENT and t.text == "check_number_value" and src.t(q + 1).text == "("
                and src.t(q + 2).text == ident and src.t(q + 3).text == ","):
            c = src.match[q + 1]
            if src.t(c + 1).text == "?" and c < site_p:
                chain, _ = _enclosing_opens(src, q)
                if chain and chain[-1] in site_chain and not _assigns_between(src, ident, c, site_p):
                    best = "G:check_number_value(%s)? at line %d" % (ident, t.line)
        # (b)/(c)/(d)  [!] ident . is_finite ( )
        if (t.kind == IDENT and t.text == ident and src.t(q + 1).text == "." and src.t(q + 2).text == "is_finite"
                and src.t(q + 3).text == "(" and src.t(q + 4).text == ")"):
            neg = src.t(q - 1).text == "!"
            kw = src.t(q - 2 if neg else q - 1)
            after = q + 5
            if kw.kind == IDENT and kw.text == "if" and src.t(after).text == "{":
                blk_o = after
                blk_c = src.match[blk_o]
                if neg:
                    # if !x.is_finite() { return ... }   then falls through
                    first = src.t(blk_o + 1)
                    if first.kind == IDENT and first.text == "return" and blk_c < site_p:
                        chain, _ = _enclosing_opens(src, q)
                        if chain and chain[-1] in site_chain and not _assigns_between(src, ident, blk_c, site_p):
                            best = "G:if !%s.is_finite() { return Err } at line %d" % (ident, t.line)
                else:
                    if blk_o < site_p < blk_c and not _assigns_between(src, ident, blk_o, site_p):
                        best = "G:inside if %s.is_finite() at line %d" % (ident, t.line)
            elif kw.kind == IDENT and kw.text == "if" and not neg and src.t(after).text == "=" and src.t(after + 1).text == ">":
                # match guard: site must be inside this arm (no other `=>` between at the arm depth)
                arm_chain, _ = _enclosing_opens(src, q)
                ok = True
                for r in range(after + 2, site_p):
                    if src.t(r).text == "=" and src.t(r + 1).text == ">":
                        ch, _ = _enclosing_opens(src, r)
                        if ch == arm_chain:
                            ok = False
                if ok:
                    best = "G:match guard %s.is_finite() at line %d" % (ident, t.line)
    return best


def _int_shape(arg):
    """(operand text span relative to arg, kind) for integer-conversion shapes"""
    m = re.match(r"^f64 :: from \( (.+) \)$", arg) or re.match(r"^f64::from\((.+)\)$", arg)
    if m:
        return "from", m.group(1)
    m = re.match(r"^(.+) as f64$", arg)
    if m:
        return "as", m.group(1)
    m = re.match(r"^(.+)\.into\(\)$", arg)
    if m:
        return "into", m.group(1)
    return None


def numgate_fragments(repo):
    import extract
    ub = extract.build_unit(os.path.join(VERIF_ROOT, "units", "numgate", "unit.rs"), repo)
    out = []
    for f in ub.fragments:
        m = re.match(r"(.*):(\d+)-(\d+)$", f["origin"])
        out.append((m.group(1), int(m.group(2)), int(m.group(3)), f["what"]))
    return out


CALLEE_RULES = {
    # site (file suffix, fn, arg) -> callee whose every Ok(..) result is gated
    ("eval/parse_json.rs", "parse_json", "number"): ("rsjsonnet-lang/src/program/eval/parse_json.rs", "impl:Lexer/fn:lex_number", "Some"),
    ("eval/stdlib.rs", "do_std_parse_octal", "number"): ("rsjsonnet-lang/src/program/eval/mod.rs", "fn:parse_num_radix", None),
    ("eval/stdlib.rs", "do_std_parse_hex", "number"): ("rsjsonnet-lang/src/program/eval/mod.rs", "fn:parse_num_radix", None),
}
EXTERNAL_API = {("program/mod.rs", "number", "value")}   # pub fn Value::number(f64): embedder input (assumption)


def callee_returns_finite(repo, file_, path, wrap):
    src = load(repo, file_)
    p_kw, p_open, p_close, _ = src.resolve(path)
    n_ok = 0
    for q in range(p_open + 1, p_close):
        if src.t(q).kind == IDENT and src.t(q).text == "Ok" and src.t(q + 1).text == "(":
            inner = q + 2
            if wrap:
                if src.t(inner).text == "None":
                    continue
                if not (src.t(inner).text == wrap and src.t(inner + 1).text == "("):
                    return None
                inner += 2
            if src.t(inner).kind != IDENT:
                return None
            g = finiteness_gate(src, p_kw, q, src.t(inner).text)
            if not g:
                return None
            n_ok += 1
    return n_ok if n_ok else None


def int_type_check(repo, cache, sites):
    """rustc discharges `operand is of an integer type` for every rule-I site: the operand is
    wrapped in crate::vx_int(..) (identity, bounded by a trait implemented for the integer
    types only) in a scratch copy of the crate, which must still type-check."""
    scratch = os.path.join(cache, "intcheck-src")
    shutil.rmtree(scratch, ignore_errors=True)
    os.makedirs(scratch)
    for item in ("Cargo.toml", "Cargo.lock", "rsjsonnet", "rsjsonnet-front", "rsjsonnet-lang"):
        s = os.path.join(repo, item)
        if os.path.isdir(s):
            shutil.copytree(s, os.path.join(scratch, item), ignore=shutil.ignore_patterns("target", "ui-tests"))
        else:
            shutil.copy(s, os.path.join(scratch, item))
    by_file = {}
    for s in sites:
        by_file.setdefault(s["file"], []).append(s)
    for rel, ss in by_file.items():
        src = load(repo, rel)
        text = src.text
        edits = []
        for s in ss:
            kind, operand = s["int_shape"]
            arg_text = text[s["a"]:s["b"]]
            if kind == "from":
                i0 = arg_text.index("(") + 1
                i1 = arg_text.rindex(")")
            elif kind == "as":
                i0 = 0
                i1 = arg_text.rindex(" as ")
            else:
                i0 = 0
                i1 = arg_text.rindex(".into")
            edits.append((s["a"] + i0, s["a"] + i1))
        for a, b in sorted(edits, reverse=True):
            text = text[:a] + "crate::vx_int(" + text[a:b] + ")" + text[b:]
        open(os.path.join(scratch, rel), "w").write(text)
    lib = os.path.join(scratch, "rsjsonnet-lang/src/lib.rs")
    open(lib, "a").write("""
#[doc(hidden)] pub(crate) trait VxInt {}
macro_rules! vx_int_impl { ($($t:ty),*) => { $(impl VxInt for $t {})* } }
vx_int_impl!(u8, u16, u32, u64, u128, usize, i8, i16, i32, i64, i128, isize);
#[doc(hidden)] #[inline] pub(crate) fn vx_int<T: VxInt>(x: T) -> T { x }
""")
    env = dict(os.environ, CARGO_NET_OFFLINE="true", CARGO_TARGET_DIR=os.path.join(cache, "target-intcheck"))
    p = subprocess.run(["cargo", "check", "--offline", "-q", "-p", "rsjsonnet-lang", "--manifest-path", os.path.join(scratch, "Cargo.toml")],
                       env=env, stdout=subprocess.PIPE, stderr=subprocess.STDOUT, text=True)
    shutil.rmtree(scratch, ignore_errors=True)
    return p.returncode, p.stdout


@frame("C06")
def f_number(repo):
    cache = os.environ.get("VERIF_CACHE", "/var/tmp/verif-cache")
    os.makedirs(cache, exist_ok=True)
    sites = number_sites(repo)
    frags = numgate_fragments(repo)
    baseline = set(tuple(x) for x in json.load(open(os.path.join(VERIF_ROOT, "units", "numgate", "frame_baseline.json")))["fns"])
    failed, samples, rules, undecided = [], [], {}, []
    int_sites = []
    # State::PushU32AsValue is typed u32 by the enum definition
    st = load(repo, "rsjsonnet-lang/src/program/eval/state.rs")
    pk, po, pc, _ = st.resolve("enum:State")
    u32_typed = any(st.t(q).text == "PushU32AsValue" and st.t(q + 1).text == "(" and st.t(q + 2).text == "u32" and st.t(q + 3).text == ")"
                    for q in range(po, pc))
    for s in sites:
        src = load(repo, s["file"])
        rule = None
        arg = s["arg"]
        key = "%s:%s:%s" % (s["file"].replace("rsjsonnet-lang/src/", ""), s["fn"], arg)
        if s["ctor"] == "State::PushU32AsValue":
            rule = "T:variant field declared u32" if u32_typed else None
        elif re.fullmatch(r"-?[0-9][0-9_]*(\.[0-9_]+)?([eE][+-]?[0-9_]+)?(f64)?", arg) or arg in ("std::f64::consts::PI", "std :: f64 :: consts :: PI"):
            rule = "L:literal constant"
        else:
            for (f, l0, l1, what) in frags:
                if f == s["file"] and l0 <= s["line"] <= l1 and what.split("::")[-1] not in ("check_number_value", "safe_f64_to_i64", "expect_std_func_arg_number"):
                    rule = "K:inside numgate fragment `%s` (Kani: pushed => finite)" % what
                    break
            if not rule and re.fullmatch(r"[A-Za-z_][A-Za-z0-9_]*", arg):
                g = finiteness_gate(src, s["p_fn"], s["p"], arg) if s["p_fn"] is not None else None
                if g:
                    rule = g
                else:
                    for (fs, fn, a), (cf, cpath, wrap) in CALLEE_RULES.items():
                        if s["file"].endswith(fs) and s["fn"] == fn and arg == a:
                            # the site's operand must be bound from that callee in this fn
                            n_ok = callee_returns_finite(repo, cf, cpath, wrap)
                            callee_name = cpath.split(":")[-1]
                            p_open, p_close, _ = src.item_end(s["p_fn"])
                            bound = any(src.t(q).text == callee_name for q in range(p_open, s["p"]))
                            if n_ok and bound:
                                rule = "E:callee %s returns only gated-finite values (%d Ok sites)" % (cpath, n_ok)
                    if not rule and any(s["file"].endswith(f) and s["fn"] == fn and arg == a for (f, fn, a) in EXTERNAL_API):
                        rule = "X:public embedder API input (assumption, not a language-level producer)"
            if not rule:
                sh = _int_shape(arg)
                if sh:
                    s["int_shape"] = sh
                    int_sites.append(s)
                    rule = "I:integer conversion `%s` (operand type discharged by rustc)" % arg
        if rule:
            rules[key] = rule
            if len(samples) < 6 or rule[0] in "EXT" and len(samples) < 12:
                samples.append("C06:F-number:%s  <= %s" % (key, rule))
        else:
            ob = "C06:F-number:%s at %s:%d matches no finiteness rule (G gate / I integer / K kani / L literal / E callee)" % (key, s["file"], s["line"])
            rec = {"obligation": ob, "site": key, "file": s["file"], "line": s["line"], "fn": s["fn"], "arg": arg,
                   "probe": NUMBER_PROBES.get(s["fn"])}
            if (s["file"], s["fn"]) in baseline:
                failed.append(rec)
            else:
                undecided.append(rec)
    n_ob = len(sites)
    if int_sites:
        rc, out = int_type_check(repo, cache, int_sites)
        n_ob += 1
        if rc != 0:
            lines = set(int(m) for m in re.findall(r"-->\s*\S+?:(\d+):\d+", out))
            hit = [s for s in int_sites if s["line"] in lines]
            if not hit:
                raise LostAnchor("rule-I type check did not compile and no site could be blamed: " + out[-600:])
            for s in hit:
                key = "%s:%s:%s" % (s["file"].replace("rsjsonnet-lang/src/", ""), s["fn"], s["arg"])
                failed.append({"obligation": "C06:F-number:%s operand of integer conversion is not an integer type (rustc)" % key,
                               "site": key, "file": s["file"], "line": s["line"], "fn": s["fn"], "arg": s["arg"],
                               "rustc": out[-800:], "probe": NUMBER_PROBES.get(s["fn"])})
    if undecided:
        raise LostAnchor("new number construction site(s) outside the baseline functions need a contract: "
                         + "; ".join(u["site"] for u in undecided))
    return {"name": "F-number", "obligations": n_ob, "failed": failed, "samples": samples,
            "rules": rules, "sites": len(sites), "rule_I_sites_typechecked": len(int_sites)}


def _probe(expr):
    return [{"source": expr, "oracle": {"oracle": "no_inf_nan"}}]


NUMBER_PROBES = {
    "do_std_sum_item": _probe("std.sum([1e308, 1e308])") + _probe("std.sum([1e308, 1e308, -1e308, -1e308])"),
    "do_std_avg_item": _probe("std.avg([1e308, 1e308])") + _probe("std.avg([1e308, 1e308, -1e308, -1e308])"),
    "do_binary_op": _probe("1e308 + 1e308") + _probe("1e308 * 10") + _probe("-1e308 - 1e308") + _probe("1e308 / 1e-10") + _probe("1 << 62 << 1"),
    "do_std_pow": _probe("std.pow(1e308, 2)") + _probe("std.pow(-1, 0.5)"),
    "do_std_exp": _probe("std.exp(1000)"),
    "do_std_log": _probe("std.log(0)") + _probe("std.log(-1)"),
    "do_std_log2": _probe("std.log2(0)") + _probe("std.log2(-1)"),
    "do_std_log10": _probe("std.log10(0)") + _probe("std.log10(-1)"),
    "do_std_sqrt": _probe("std.sqrt(-1)"),
    "do_std_asin": _probe("std.asin(2)"),
    "do_std_acos": _probe("std.acos(2)"),
    "do_std_modulo": _probe("std.modulo(1, 0)"),
    "do_std_mod": _probe("std.mod(1, 0)") + _probe("1 % 0"),
    "do_std_hypot": _probe("std.hypot(1e308, 1e308)"),
    "do_std_rad2deg": _probe("std.rad2deg(1e308)"),
    "do_std_parse_int": _probe("std.parseInt(std.repeat('9', 400))"),
    "do_std_parse_hex": _probe("std.parseHex(std.repeat('f', 400))"),
    "do_std_parse_octal": _probe("std.parseOctal(std.repeat('7', 400))"),
    "parse_json": _probe("std.parseJson('1e999')"),
    "scalar_to_value": _probe("std.parseYaml('1e999')") + _probe("std.parseYaml('.inf')") + _probe("std.parseYaml('.nan')"),
    "run": _probe("-(1e308) - 1e308"),
    "do_expr": _probe("1e999"),
    # added AFTER seeded change C06-literal-guard was run (its first run had no probe and ended in
    # no-failing-input-found): constant-folded literals that become already-evaluated thunks
    "try_value_from_expr": _probe("[1e400]") + _probe("local x = 1e400; x") + _probe("{ a: 1e400 }") + _probe("std.toString(1e400)"),
}


def rebaseline(repo):
    sites = number_sites(repo)
    fns = sorted(set((s["file"], s["fn"]) for s in sites))
    json.dump({"_comment": "functions that contained number construction sites, all discharged, when the baseline was taken (maintenance command: python3 vx/frame.py --rebaseline); an undischarged site inside one of these is a VIOLATION, a site in a new function is `needs contract` (exit 2)",
               "fns": fns}, open(os.path.join(VERIF_ROOT, "units", "numgate", "frame_baseline.json"), "w"), indent=1)
    return fns


if __name__ == "__main__":
    import sys
    repo = "/repo"
    if "--rebaseline" in sys.argv:
        print(len(rebaseline(repo)), "functions in baseline")
    else:
        r = f_number(repo)
        print(json.dumps({k: v for k, v in r.items()}, indent=1))
