"""Frame obligations: 'only these sites write / construct X', generated from and discharged
on the real token stream of the current /repo tree (same tokenizer as the extractor).
Each obligation function returns
  {name, obligations:int, failed:[{obligation, site, file, line, fn, ...}], samples:[...]}"""
import os
import re

from extract import load, LostAnchor
from rusttok import IDENT, PUNCT, WS, COMMENT

REGISTRY = {}   # prop -> [functions]


def frame(*props):
    def deco(f):
        for p in props:
            REGISTRY.setdefault(p, []).append(f)
        return f
    return deco


def obligations_for(P):
    return REGISTRY.get(P, [])


def enclosing_fn(src, p):
    """name of the innermost `fn` item whose body contains significant position p"""
    best = None
    for q in range(p, -1, -1):
        t = src.t(q)
        if t.kind == IDENT and t.text == "fn" and q + 1 < src.n() and src.t(q + 1).kind == IDENT:
            try:
                p_open, p_close, _ = src.item_end(q)
            except LostAnchor:
                continue
            if p_open is not None and p_open < p <= p_close:
                return src.t(q + 1).text, q
    return best, None
