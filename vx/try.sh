#!/bin/bash
# try.sh <template.rs> <harness> <timeout-s> [extra kani args]  : build the unit from the current /repo and run ONE harness
# in the background-friendly way (log: /var/tmp/try/<harness>.log).  Development helper, not a check.
T=$1; H=$2; TO=${3:-300}; shift 3
mkdir -p /var/tmp/try/$H
python3 - "$T" "$H" <<'PY'
import sys; sys.path.insert(0,'/verif/vx')
import extract
ub=extract.build_unit(sys.argv[1],'/repo')
open('/var/tmp/try/%s/unit.rs'%sys.argv[2],'w').write(ub.text)
PY
cd /var/tmp/try/$H
PFX=$(grep -m1 '^//@harness-prefix' unit.rs | awk '{print $2}'); PFX=${PFX:-u::vharness::}
ulimit -v 20000000
( time RUSTFLAGS="--edition 2024" timeout $TO kani unit.rs --harness ${PFX}$H --exact "$@" ) > /var/tmp/try/$H.log 2>&1
echo "exit=$?" >> /var/tmp/try/$H.log
grep -a -E "^VERIFICATION|^Verification Time|^exit=|^real|Status: FAILURE|^error" /var/tmp/try/$H.log | head -20
