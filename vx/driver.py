"""./check <Cxx> [--tier quick|thorough] [--replay file] [--only harness] [--keep]

Decides one property by discharging every obligation tagged with it:
  * Kani/CBMC harness contracts over text extracted verbatim from the current /repo tree,
  * Verus composition lemmas,
  * frame obligations (syntactic, own generator).
Exit 0: all discharged (KNOWN-FINDING lines possible). Exit 1: VIOLATION. Exit 2: undecided.
"""
import argparse
import concurrent.futures as cf
import glob
import hashlib
import json
import os
import re
import shutil
import subprocess
import sys
import time

HERE = os.path.dirname(os.path.abspath(__file__))
ROOT = os.path.dirname(HERE)
sys.path.insert(0, HERE)

import extract  # noqa: E402
import kani_run  # noqa: E402
import frame  # noqa: E402
import frame2  # noqa: E402,F401  (registers F-thunk, F-tracelen)
import replay as replay_mod  # noqa: E402

REPO = os.environ.get("VERIF_REPO", "/repo")
CACHE = os.environ.get("VERIF_CACHE", "/var/tmp/verif-cache")


def log(*a):
    print(*a, flush=True)


def load_known():
    p = os.path.join(ROOT, "known_findings.json")
    if not os.path.exists(p):
        return []
    return json.load(open(p)).get("findings", [])


def discover_units(repo):
    """returns {unit: (template_path)}"""
    return {os.path.basename(os.path.dirname(p)): p
            for p in sorted(glob.glob(os.path.join(ROOT, "units", "*", "unit.rs")))}


def apply_known_variants(text, active_exclusions):
    """`//@known Dn <rust stmt>` lines: emitted as the statement when Dn is in
    active_exclusions (the known witness class is assumed away), blank otherwise."""
    out = []
    for ln in text.split("\n"):
        m = re.match(r"\s*//@known\s+(\S+)\s+(.*)$", ln)
        if m:
            out.append(m.group(2) if m.group(1) in active_exclusions else "")
        else:
            out.append(ln)
    return "\n".join(out)


def classify_failure(c, ub, unit_file):
    """-> ('contract', label) | ('safety', desc) | ('shim', desc) | ('std', desc)"""
    m = kani_run.LABEL_RE.match(c["desc"])
    if m and m.group(1) != "canary":
        return "contract", c["desc"]
    if m and m.group(1) == "canary":
        return "canary", c["desc"]
    f = c.get("file")
    if f and os.path.basename(f) == os.path.basename(unit_file):
        for fr in ub.fragments:
            a, b = fr["unit_lines"]
            if a <= c["line"] <= b:
                return "safety", "%s @ %s (%s)" % (c["desc"], fr["what"], fr["origin"])
        return "shim", "%s @ unit line %s" % (c["desc"], c["line"])
    return "std", "%s @ %s" % (c["desc"], c["loc"])


def label_props(desc):
    """property tags of a labelled assertion ("C14,C01:unit:clause" -> {"C14","C01"}); None if unlabelled"""
    m = kani_run.LABEL_RE.match(desc or "")
    if not m or m.group(1) == "canary":
        return None
    return set(m.group(1).split(","))


def in_extracted(c, ub, unit_file):
    f = c.get("file")
    if f and os.path.basename(f) == os.path.basename(unit_file) and c.get("line"):
        for fr in ub.fragments:
            a, b = fr["unit_lines"]
            if a <= c["line"] <= b:
                return True
    return False


def main():
    ap = argparse.ArgumentParser()
    ap.add_argument("prop")
    ap.add_argument("--tier", default=os.environ.get("VERIF_TIER", "quick"))
    ap.add_argument("--replay")
    ap.add_argument("--only", help="run only harnesses whose name contains this")
    ap.add_argument("--unit", help="run only this unit")
    ap.add_argument("--keep", action="store_true")
    ap.add_argument("--jobs", type=int, default=int(os.environ.get("VERIF_JOBS", "12")))
    ap.add_argument("--no-evidence", action="store_true")
    args = ap.parse_args()
    P = args.prop
    tier = args.tier
    seed = int(os.environ.get("VERIF_SEED", "0") or 0)
    t0 = time.time()

    if args.replay:
        return replay_mod.rerun(args.replay, REPO, CACHE)

    scratch = os.environ.get("VERIF_SCRATCH") or "/var/tmp/verif-%d" % os.getpid()
    os.makedirs(scratch, exist_ok=True)
    try:
        rc = run_property(P, tier, seed, scratch, args, t0)
    finally:
        if not args.keep:
            shutil.rmtree(scratch, ignore_errors=True)
    return rc


def run_property(P, tier, seed, scratch, args, t0):
    known = load_known()
    known_active = {k["id"]: k for k in known if k.get("status") == "known"}
    undecided = []      # (what, reason)
    violations = []     # dict(obligation, detail, harness, unit, playback, kind)
    known_hits = []
    jobs = []           # (unit, ub, unit_file, harness, variant)
    unit_info = {}
    units = discover_units(REPO)
    for uname, tpl in units.items():
        if args.unit and uname != args.unit:
            continue
        try:
            ub = extract.build_unit(tpl, REPO)
        except extract.LostAnchor as e:
            # only matters if the unit serves this property: look at the raw directives
            raw = open(tpl).read()
            if re.search(r"//@harness[^\n]*props=[^\n ]*\b%s\b" % P, raw):
                undecided.append(("unit " + uname, "lost anchor: %s" % e))
            continue
        except Exception as e:  # tokenizer errors etc.
            raw = open(tpl).read()
            if re.search(r"//@harness[^\n]*props=[^\n ]*\b%s\b" % P, raw):
                undecided.append(("unit " + uname, "extraction failed: %r" % e))
            continue
        # `quickfor=Cxx,Cyy`: in the quick tier the harness runs only for the named properties (it still
        # serves every property of its props list in the thorough tier).  Used to keep C01's quick check -
        # whose obligations are by-products of every harness - from re-running every unit.
        hs = [h for h in ub.harnesses if P in h["props"]
              and (tier == "thorough" or h.get("tier", "quick") != "thorough")
              and (tier == "thorough" or not h.get("quickfor") or P in h["quickfor"].split(","))
              and (not args.only or args.only in h["name"])]
        if not hs:
            continue
        udir = os.path.join(scratch, uname)
        os.makedirs(udir, exist_ok=True)
        # variant "full": no known-finding exclusions
        ufile = os.path.join(udir, uname + ".rs")
        open(ufile, "w").write(apply_known_variants(ub.text, set()))
        unit_info[uname] = (ub, ufile)
        for h in hs:
            jobs.append((uname, ub, ufile, h, "full"))
            kn = [k for k in h.get("known", "").split(",") if k and k in known_active]
            if kn:
                xfile = os.path.join(udir, uname + "_x.rs")
                if not os.path.exists(xfile):
                    open(xfile, "w").write(apply_known_variants(ub.text, set(known_active)))
                jobs.append((uname, ub, xfile, h, "excl"))

    results = []
    log("== %s tier=%s: %d kani harness runs in %d units; scratch %s" % (P, tier, len(jobs), len(unit_info), scratch))

    def work(job):
        uname, ub, ufile, h, variant = job
        wd = os.path.join(os.path.dirname(ufile), "w_%s_%s" % (h["name"], variant))
        os.makedirs(wd, exist_ok=True)
        # kani writes artefacts next to --target-dir; unit file is read from its directory
        res, out = kani_run.run_harness(ufile, h, wd)
        shutil.rmtree(wd, ignore_errors=True)
        return job, res, out

    with cf.ThreadPoolExecutor(max_workers=max(1, args.jobs)) as ex:
        for job, res, out in ex.map(work, jobs):
            uname, ub, ufile, h, variant = job
            res["unit"] = uname
            res["variant"] = variant
            res["strength"] = h.get("strength", "bounded")
            res["clause"] = h.get("clause", "")
            res["bound"] = h.get("bound", "")
            results.append((job, res, out))
            log("   [%s] %-44s %-9s %6.1fs %s" % (uname, h["name"] + ("/excl" if variant == "excl" else ""),
                                                 res["outcome"], res["wall_s"], res.get("reason", "")))

    # ---- decide kani results -----------------------------------------------------------
    ob_proof = ob_proof_ok = ob_bounded = ob_bounded_ok = 0
    reached_fns = set()      # (unit, function) with >= 1 reachable CBMC check located in extracted text
    other_prop_failures = []  # failed labelled assertions whose tags do not include P
    samples = []
    per_harness = []
    for job, res, out in results:
        uname, ub, ufile, h, variant = job
        expect_fail = h.get("expect") == "fail"
        checks = res.get("checks", [])
        labelled = [c for c in checks if kani_run.LABEL_RE.match(c["desc"])]
        safety = [c for c in checks if not kani_run.LABEL_RE.match(c["desc"]) and in_extracted(c, ub, ufile)]
        covers = [c for c in checks if c["status"] in ("SATISFIED", "UNSATISFIABLE")]
        if not expect_fail:
            for c in safety:
                if c["status"] not in ("UNREACHABLE",) and c.get("func"):
                    reached_fns.add((uname, c["func"]))
        ph = {k: res.get(k) for k in ("unit", "harness", "variant", "outcome", "strength", "clause", "bound",
                                      "wall_s", "solver_s", "peak_rss_mb", "reason", "stubs")}
        ph["contract_assertions"] = len(labelled)
        ph["safety_checks_in_extracted_text"] = len(safety)
        ph["cbmc_checks_total"] = len(checks)
        per_harness.append(ph)
        if res["outcome"] == "undecided":
            undecided.append(("%s/%s" % (uname, h["name"]), res.get("reason", "?")))
            continue
        if expect_fail:
            if res["outcome"] != "fail":
                undecided.append(("%s/%s" % (uname, h["name"]), "canary did not fail: extraction/solver not alive"))
            continue
        if variant == "full" and any(k in known_active for k in h.get("known", "").split(",")):
            # the full variant of a harness with a listed known finding only tells whether
            # the known finding still reproduces; the verdict comes from the excl variant.
            if res["outcome"] == "fail":
                for k in h.get("known", "").split(","):
                    if k in known_active:
                        labels = [c["desc"] for c in res["failed"]]
                        kf = known_active[k]
                        if any(kf.get("obligation", "") in l for l in labels) or not kf.get("obligation"):
                            known_hits.append((kf, h["name"]))
            continue
        if res["outcome"] == "fail":
            for c in res["failed"]:
                kind, what = classify_failure(c, ub, ufile)
                if kind == "canary":
                    continue
                if kind == "contract":
                    tags = label_props(c["desc"]) or set()
                    if P not in tags:
                        # belongs to another property (e.g. a decoded-value obligation of C14 seen
                        # while checking C01): not a violation of P, but never dropped silently
                        other_prop_failures.append((uname, h["name"], c["desc"]))
                        continue
                if kind == "shim":
                    # an assertion of the hand-written environment itself (e.g. BStr capacity):
                    # a bound overrun of the harness, not a statement about /repo
                    undecided.append(("%s/%s" % (uname, h["name"]),
                                      "failure inside a shim (bound overrun or harness bug): %s" % what))
                    continue
                if kind == "std":
                    # Rust's unwrap / expect / indexing / str slicing / RefCell panic INSIDE std
                    # (unwrap_failed, slice_index_fail, ...), so CBMC always locates them there, never
                    # at the call site.  Harness and shim code is written so that it cannot panic in
                    # std (every index / unwrap of its own is guarded by an assume), hence a
                    # std-located failure is a panic reached from the code under test.  It is a
                    # violation with its own witness; replay on the real binary is the backstop (a
                    # harness-caused one does not reproduce and ends in no-failing-input-found).
                    kind = "safety-std"
                    what = "panic/safety failure in std reached from the unit: " + what
                violations.append({"unit": uname, "harness": h["name"], "kind": kind, "obligation": what,
                                   "playback": kani_run.playback_for(res.get("playback"), c["desc"]),
                                   "replay_adapter": h.get("replay"),
                                   "raw_tail": res["raw_tail"], "cmd": res["cmd"]})
            continue
        # pass: vacuity guards
        unreach = [c for c in labelled if c["status"] == "UNREACHABLE"]
        unsat = [c for c in covers if c["status"] == "UNSATISFIABLE"]
        # `assert!(false, ..)` in an impossible branch is legitimately UNREACHABLE; what must
        # not happen is that *no* contract assertion is reached (contradictory requires).
        if len(unreach) == len(labelled):
            undecided.append(("%s/%s" % (uname, h["name"]), "vacuous: every contract assertion unreachable"))
            continue
        if unsat:
            undecided.append(("%s/%s" % (uname, h["name"]), "vacuous: cover unsatisfiable: " + unsat[0]["desc"]))
            continue
        if not labelled:
            undecided.append(("%s/%s" % (uname, h["name"]), "vacuous: zero labelled contract assertions"))
            continue
        labelled = [c for c in labelled if c["status"] != "UNREACHABLE"]
        # obligations OF P: labelled assertions whose own tag list contains P (the vacuity guards
        # above deliberately look at all labels: they are about the harness being alive)
        n_all_labels = len(labelled)
        labelled = [c for c in labelled if P in (label_props(c["desc"]) or set())]
        ph["contract_assertions_of_this_property"] = len(labelled)
        ph["contract_assertions_of_other_properties_in_harness"] = n_all_labels - len(labelled)
        # A check this harness cannot reach is not an obligation of this harness (a concrete
        # interned-span harness never reaches the inline-encoding arithmetic).  It is reported
        # separately, never counted as discharged and never counted as an obligation.
        ph["safety_checks_unreachable_in_this_harness"] = len([c for c in safety if c["status"] == "UNREACHABLE"])
        safety = [c for c in safety if c["status"] != "UNREACHABLE"]
        ph["safety_checks_in_extracted_text"] = len(safety)
        n_ob = len([c for c in labelled if c["status"] == "SUCCESS"]) + len([c for c in safety if c["status"] == "SUCCESS"])
        # hard guard: a passing harness has every reachable obligation discharged; anything else
        # (e.g. an UNDETERMINED safety check) is undecided and names the check - never OK.
        odd = [c for c in labelled + safety if c["status"] != "SUCCESS"]
        if odd:
            undecided.append(("%s/%s" % (uname, h["name"]),
                              "obligation neither discharged nor failed: %s [%s] at %s" % (odd[0]["desc"], odd[0]["status"], odd[0]["loc"])))
            continue
        if res["strength"] == "proof":
            ob_proof += len(labelled) + len(safety)
            ob_proof_ok += n_ob
        else:
            ob_bounded += len(labelled) + len(safety)
            ob_bounded_ok += n_ob
        if len(samples) < 12:
            for c in labelled[:2]:
                samples.append({"harness": h["name"], "obligation": c["desc"], "status": c["status"],
                                "backend": "kani 0.68 / cbmc 6.11", "strength": res["strength"]})

    # ---- verus lemmas ---------------------------------------------------------------------
    lemma_res = []
    for lf in sorted(glob.glob(os.path.join(ROOT, "lemmas", "*.rs"))):
        head = open(lf).read(2000)
        m = re.search(r"//@lemma\s+props=(\S+)", head)
        if not m or P not in m.group(1).split(","):
            continue
        if args.only or args.unit:
            continue
        r = run_verus(lf, scratch)
        lemma_res.append(r)
        log("   [verus] %-44s %-9s %6.1fs %s" % (os.path.basename(lf), r["outcome"], r["wall_s"], r.get("summary", "")))
        if r["outcome"] == "pass":
            ob_proof += r["verified"]
            ob_proof_ok += r["verified"]
            samples.append({"lemma_file": os.path.basename(lf), "verified": r["verified"], "backend": "verus/z3"})
        elif r["outcome"] == "fail":
            # a lemma file contains no repo code: a failing lemma is a defect of the machinery
            undecided.append(("lemma " + os.path.basename(lf), "verus reported errors: " + r.get("summary", "")))
        else:
            undecided.append(("lemma " + os.path.basename(lf), r.get("reason", "?")))

    # ---- frame obligations ------------------------------------------------------------------
    frame_res = []
    os.environ["VERIF_TIER_EFFECTIVE"] = tier
    if not (args.only or args.unit):
        for fo in frame.obligations_for(P):
            try:
                r = fo(REPO)
            except extract.LostAnchor as e:
                undecided.append(("frame " + fo.__name__, "lost anchor: %s" % e))
                continue
            frame_res.append(r)
            log("   [frame] %-44s %s (%d obligations, %d failed)" % (r["name"], "ok" if not r["failed"] else "FAILED",
                                                                    r["obligations"], len(r["failed"])))
            if r.get("strength") == "bounded":
                # a bounded stand-in registered as a frame-style obligation (gcnative): never counted as proof
                ob_bounded += r["obligations"]
                ob_bounded_ok += r["obligations"] - r.get("obligations_failed_count", len(r["failed"]))
            else:
                ob_proof += r["obligations"]
                ob_proof_ok += r["obligations"] - len(r["failed"])
            for f in r["failed"]:
                kf = match_known_frame(f, known_active, P)
                if kf:
                    known_hits.append((kf, r["name"]))
                    ob_proof_ok += 0
                    continue
                violations.append({"unit": "frame", "harness": r["name"], "kind": "frame", "obligation": f["obligation"],
                                   "detail": f, "playback": None, "replay_adapter": f.get("replay"),
                                   "probe": f.get("probe"), "raw_tail": json.dumps(f, indent=1), "cmd": "frame.py " + r["name"]})
            for s in r.get("samples", [])[:3]:
                samples.append({"frame": r["name"], "obligation": s, "backend": "frame.py (token scan of the real sources)"})

    wall = time.time() - t0
    # ---- replay of violations -----------------------------------------------------------------
    os.makedirs(os.path.join(ROOT, "evidence", "replay"), exist_ok=True)
    # replay files of earlier runs of this property must not be mistaken for this run's
    for old_rp in glob.glob(os.path.join(ROOT, "evidence", "replay", "%s-*.json" % P)):
        os.remove(old_rp)
    vio_lines = []
    for i, v in enumerate(violations):
        rp = os.path.join(ROOT, "evidence", "replay", "%s-%s-%d.json" % (P, v["unit"], i))
        rec = {"property": P, "failed_obligation": v["obligation"], "unit": v["unit"], "harness": v["harness"],
               "kind": v["kind"], "verifier_cmd": v["cmd"], "kani_concrete_values": v["playback"],
               "verifier_output_tail": v["raw_tail"], "detail": v.get("detail")}
        verdict = "no-adapter"
        try:
            rr = replay_mod.replay(v, REPO, CACHE)
        except Exception as e:  # replay must never turn a violation into a crash
            rr = {"verdict": "replay-error", "error": repr(e)}
        nw = (v.get("detail") or {}).get("native_witness")
        if nw and rr.get("verdict") != "reproduced":
            # the failing case WAS an execution of the real functions (extracted verbatim, compiled natively)
            rr = {"verdict": "reproduced", "how": "native execution of the verbatim-extracted functions (%s) on the enumerated case" % v["harness"], "witness": nw, "cli_probe": rr}
        rec["replay"] = rr
        verdict = rr.get("verdict")
        json.dump(rec, open(rp, "w"), indent=1)
        line = "VIOLATION property=%s replay=%s" % (P, rp)
        if verdict != "reproduced":
            line += " obligation=%s no-failing-input-found" % json.dumps(v["obligation"])
        else:
            line += " obligation=%s %s" % (json.dumps(v["obligation"]), "reproduced-on-real-code-natively" if rr.get("how") else "reproduced-on-real-binary")
        vio_lines.append(line)

    seen = set()
    for kf, where in known_hits:
        if kf["id"] in seen:
            continue
        seen.add(kf["id"])
        log("KNOWN-FINDING: property=%s %s: %s [%s]" % (P, kf["id"], kf["what"], where))

    for (un, hn, d) in other_prop_failures:
        log("NOTE: harness %s/%s also failed %r, an obligation of another property (not counted for %s; run that property's check)" % (un, hn, d, P))

    total_checked = ob_proof + ob_bounded
    if not violations and not undecided and total_checked == 0:
        undecided.append((P, "vacuous: zero obligations generated"))

    # Level rule (stated in the evidence): "proof" only when proof-strength obligations are the
    # majority of what decided the property in this run; a property decided mostly by bounded
    # harnesses is reported as "other" even if some of its obligations are proofs.
    level_by_rule = "proof" if ob_proof > 0 and ob_proof > ob_bounded else "other"
    # The evidence level is the category claimed in MANIFEST.json (so the two can never disagree on a run);
    # the level the count rule gives for THIS run is recorded next to it, and vx/consistency.py refuses a commit
    # in which the claimed category is `proof` while the rule says `other`.
    level = level_by_rule
    try:
        for c in json.load(open(os.path.join(ROOT, "MANIFEST.json"))).get("checks", []):
            if c.get("property_id") == P:
                claimed = c["level_claimed"]["category"]
                if claimed == "other" or (claimed == "proof" and ob_proof > 0):
                    level = claimed
    except (OSError, ValueError, KeyError):
        pass
    trusted = trusted_base(P, per_harness, unit_info)
    fuc = []
    for uname, (ub, ufile) in unit_info.items():
        for fr in ub.fragments:
            fuc.append({"unit": uname, "what": fr["what"], "origin": fr["origin"], "kind": fr["kind"], "sha256_16": fr["sha256"]})
    code_kinds = {}
    for f in fuc:
        code_kinds[f["kind"]] = code_kinds.get(f["kind"], 0) + 1
    n_code_units = sum(1 for f in fuc if f["kind"] in ("method", "match-arm", "stmt-slice", "nested-item")
                       or (f["kind"] == "item" and f["what"].split("/")[-1].startswith("fn:")))
    # whole-file fragments: count the `fn` items of the extracted file (measured with the tokenizer)
    import rusttok
    for f in fuc:
        if f["kind"] == "whole-file":
            rel = f["origin"].rsplit(":", 1)[0]
            try:
                toks = [t for t in rusttok.tokenize(open(os.path.join(REPO, rel), encoding="utf-8").read())
                        if t.kind not in (rusttok.WS, rusttok.COMMENT)]
                k = sum(1 for i in range(len(toks) - 1) if toks[i].kind == rusttok.IDENT and toks[i].text == "fn"
                        and toks[i + 1].kind == rusttok.IDENT)
            except OSError:
                k = 0
            f["fn_items_in_file"] = k
            n_code_units += k
    bounded_list = [{"harness": p["harness"], "unit": p["unit"], "bound": p["bound"], "clause": p["clause"], "outcome": p["outcome"]}
                    for p in per_harness if p["strength"] != "proof" and p["variant"] == "full"]
    bounded_list += [{"harness": r["name"], "unit": "native enumeration", "bound": r.get("bound", ""), "clause": "see frame entry", "outcome": "pass" if not r["failed"] else "fail"}
                     for r in frame_res if r.get("strength") == "bounded"]
    cov = {
        "obligations": ob_proof, "discharged": ob_proof_ok,
        "checker_cmd": "./check %s --tier %s  (kani <unit>.rs --harness <h> per harness; verus <lemma>.rs; vx/frame.py)" % (P, tier),
        "trusted_base": trusted,
        "samples": samples[:16] if samples else [{"note": "no obligation discharged in this run"}],
        "explanation": ("LEVEL RULE: level is `proof` only if proof-strength obligations outnumber bounded ones in this run "
                        "(here %d proof vs %d bounded), otherwise `other`. " % (ob_proof, ob_bounded) +
                        "Obligations counted in `obligations/discharged` come only from proof-strength harnesses "
                        "(loop-free or complete unwinding over the full stated machine domain), Verus lemmas and frame "
                        "obligations. Bounded harnesses are listed under `bounded` with their bound and are NOT counted as proved."),
        "level_by_count_rule_this_run": level_by_rule,
        "bounded_obligations": ob_bounded, "bounded_discharged": ob_bounded_ok, "bounded": bounded_list,
        "functions_under_contract": fuc,
        "code_units_under_contract": n_code_units,
        "extracted_functions_reached_by_harnesses": len(reached_fns),
        "extracted_functions_reached_list": sorted("%s: %s" % x for x in reached_fns)[:80],
        "reached_note": "distinct functions of the extracted text in which CBMC located at least one REACHABLE check in a non-canary harness of this run (measured; functions whose bodies generate no implicit check are not counted, so this undercounts)",
        "fragment_kinds": code_kinds,
        "code_units_note": "code_units_under_contract = functions + methods + match arms + statement slices extracted individually, plus the number of `fn` items inside each whole-file fragment (incl. test fns of a dropped tests module if the drop was by cfg only); type items are not counted. It is the size of the extracted text, not the number of functions a harness actually calls.",
        "harnesses": per_harness,
        "lemmas": lemma_res, "frame": [{k: v for k, v in r.items() if k not in ("samples", "fragments")} for r in frame_res],
        "backends": {"kani": "0.68.0 (cbmc 6.11.0, cadical)", "verus": "0.2026.09.13 (z3)", "frame": "vx/frame.py"},
        "solver_time_s": round(sum((p.get("solver_s") or 0) for p in per_harness) + sum(l.get("wall_s", 0) for l in lemma_res), 2),
        "undecided": [{"what": w, "reason": r} for w, r in undecided],
        "known_findings_reproduced": sorted(seen),
        "failed_obligations_of_other_properties_seen": [{"unit": a, "harness": b, "obligation": c} for a, b, c in other_prop_failures],
    }
    ev = {"property_id": P, "tier": tier if tier in ("quick", "thorough") else "quick", "seed": seed, "level": level,
          "coverage": cov,
          "assumptions": assumptions(P, per_harness),
          "wall_s": round(wall, 2), "violations": len(violations)}
    if not (args.no_evidence or args.only or args.unit):
        os.makedirs(os.path.join(ROOT, "evidence"), exist_ok=True)
        json.dump(ev, open(os.path.join(ROOT, "evidence", P + ".json"), "w"), indent=1)

    for l in vio_lines:
        log(l)
    if violations:
        # undecided items are never dropped: they are printed even when the verdict is a violation
        for w, r in undecided:
            log("UNDECIDED property=%s what=%s reason=%s" % (P, w, r))
        log("== %s: %d violation(s)%s; %d/%d proof obligations discharged" % (
            P, len(violations), (", %d undecided" % len(undecided)) if undecided else "", ob_proof_ok, ob_proof))
        return 1
    if undecided:
        for w, r in undecided:
            log("UNDECIDED property=%s what=%s reason=%s" % (P, w, r))
        return 2
    log("== %s: OK  proof obligations %d/%d, bounded %d/%d, %.0fs" % (P, ob_proof_ok, ob_proof, ob_bounded_ok, ob_bounded, wall))
    return 0


def match_known_frame(f, known_active, P):
    for k in known_active.values():
        if k.get("frame_site") and k["frame_site"] == f.get("site"):
            return k
    return None


def run_verus(path, scratch):
    t0 = time.time()
    rc, out, wall, reason, _ = kani_run.run_cmd(["verus", path, "--time"], scratch, 600, None, None)
    r = {"file": os.path.basename(path), "wall_s": round(wall, 2)}
    if reason:
        r["outcome"] = "undecided"
        r["reason"] = reason
        return r
    m = re.search(r"verification results:: (\d+) verified, (\d+) errors", out)
    if not m:
        r["outcome"] = "undecided"
        r["reason"] = "no verus result: " + out[-400:]
        return r
    r["verified"] = int(m.group(1))
    r["errors"] = int(m.group(2))
    r["summary"] = m.group(0)
    r["outcome"] = "pass" if r["errors"] == 0 and r["verified"] > 0 and rc == 0 else ("fail" if r["errors"] else "undecided")
    if r["outcome"] == "undecided":
        r["reason"] = "verus rc=%s, %s" % (rc, m.group(0))
    return r


def trusted_base(P, per_harness, unit_info):
    tb = ["Kani 0.68.0 / CBMC 6.11.0 / CaDiCaL (soundness of the verifier, its IEEE-754 f64 model, its model of the Rust std library as compiled by Kani)",
          "vx/extract.py + vx/rusttok.py (extractor; round-trip self-test over every .rs file of /repo)",
          "everything outside the extracted fragments (dispatch in Evaluator::run, Program, arena, interner, dependencies, CLI) is NOT verified"]
    stubs = sorted({s for p in per_harness for s in (p.get("stubs") or [])})
    for s in stubs:
        tb.append("kani stub (assumed contract): " + s)
    for uname, (ub, ufile) in unit_info.items():
        tb.append("shim/prelude of unit %s (hand-written environment, see units/%s/unit.rs)" % (uname, uname))
    return tb


def assumptions(P, per_harness):
    a = ["machine arithmetic is bit-precise as modelled by CBMC (not treated as mathematical)",
         "extracted functions are verified against their own text; callers reach them only through the unverified evaluator dispatch",
         "no unsafe code in /repo (#![forbid(unsafe_code)])",
         "termination is not verified by Kani"]
    p = os.path.join(ROOT, "units")
    notes = os.path.join(ROOT, "assumptions", P + ".txt")
    if os.path.exists(notes):
        a += [l.strip() for l in open(notes) if l.strip()]
    return a


if __name__ == "__main__":
    sys.exit(main())
