"""Rust tokenizer sufficient for item/slice extraction.

Handles: line/block comments (nested), string / raw string / byte string / C string
literals, char literals vs lifetimes, numbers, identifiers (incl. raw r#id),
punctuation (single chars; multi-char operators are left as single chars, which is all
the extractor needs: brace/paren/bracket matching and token-text anchors).

Round-trip property: ''.join(t.text for t in tokenize(src)) == src   (checked by selftest)
"""
from dataclasses import dataclass

WS, COMMENT, IDENT, LIFETIME, CHAR, STRING, NUMBER, PUNCT = (
    "ws", "comment", "ident", "lifetime", "char", "string", "number", "punct")


@dataclass
class Tok:
    kind: str
    text: str
    start: int
    end: int
    line: int


class TokError(Exception):
    pass


def _is_id_start(c):
    return c == "_" or c.isalpha()


def _is_id_cont(c):
    return c == "_" or c.isalnum()


def tokenize(src):
    toks = []
    i = 0
    n = len(src)
    line = 1

    def emit(kind, j):
        nonlocal i, line
        toks.append(Tok(kind, src[i:j], i, j, line))
        line += src.count("\n", i, j)
        i = j

    while i < n:
        c = src[i]
        if c in " \t\r\n":
            j = i
            while j < n and src[j] in " \t\r\n":
                j += 1
            emit(WS, j)
        elif src.startswith("//", i):
            j = src.find("\n", i)
            if j < 0:
                j = n
            emit(COMMENT, j)
        elif src.startswith("/*", i):
            depth = 1
            j = i + 2
            while j < n and depth:
                if src.startswith("/*", j):
                    depth += 1
                    j += 2
                elif src.startswith("*/", j):
                    depth -= 1
                    j += 2
                else:
                    j += 1
            if depth:
                raise TokError("unterminated block comment at line %d" % line)
            emit(COMMENT, j)
        elif c == '"':
            emit(STRING, _scan_str(src, i, line))
        elif c == "'":
            # char literal or lifetime
            j = _scan_char_or_lifetime(src, i)
            emit(CHAR if src[j - 1] == "'" and j - i >= 3 else LIFETIME, j)
        elif _is_id_start(c):
            # prefixes: r"..", r#".."#, b"..", b'..', br"..", c"..", cr"..", r#ident
            j = i
            while j < n and _is_id_cont(src[j]):
                j += 1
            word = src[i:j]
            if word in ("r", "br", "cr") and j < n and src[j] in '#"':
                k = j
                hashes = 0
                while k < n and src[k] == "#":
                    hashes += 1
                    k += 1
                if k < n and src[k] == '"':
                    close = '"' + "#" * hashes
                    e = src.find(close, k + 1)
                    if e < 0:
                        raise TokError("unterminated raw string at line %d" % line)
                    emit(STRING, e + len(close))
                    continue
                if word == "r" and hashes == 1 and k < n and _is_id_start(src[k]):
                    while k < n and _is_id_cont(src[k]):
                        k += 1
                    emit(IDENT, k)
                    continue
                emit(IDENT, j)
            elif word in ("b", "c") and j < n and src[j] == '"':
                emit(STRING, _scan_str(src, j, line))
            elif word == "b" and j < n and src[j] == "'":
                k = _scan_char_or_lifetime(src, j)
                emit(CHAR, k)
            else:
                emit(IDENT, j)
        elif c.isdigit():
            j = i
            while j < n and (_is_id_cont(src[j])):
                j += 1
            # fractional part: digit '.' digit  (not '..' and not method call)
            if j + 1 < n and src[j] == "." and src[j + 1].isdigit():
                j += 1
                while j < n and _is_id_cont(src[j]):
                    j += 1
            elif (j < n and src[j] == "." and not src.startswith("..", j)
                  and not (j + 1 < n and _is_id_start(src[j + 1]))):
                j += 1
            # exponent sign
            if j < n and src[j] in "+-" and src[j - 1] in "eE" and not src[i:j].startswith("0x"):
                j += 1
                while j < n and _is_id_cont(src[j]):
                    j += 1
            emit(NUMBER, j)
        else:
            emit(PUNCT, i + 1)
    return toks


def _scan_str(src, i, line):
    j = i + 1
    n = len(src)
    while j < n:
        if src[j] == "\\":
            j += 2
        elif src[j] == '"':
            return j + 1
        else:
            j += 1
    raise TokError("unterminated string at line %d" % line)


def _scan_char_or_lifetime(src, i):
    # src[i] == "'"
    n = len(src)
    if i + 1 < n and src[i + 1] == "\\":
        j = i + 3
        # escape: the char after the backslash is consumed, then up to the closing quote
        while j < n and src[j] != "'":
            j += 1
        return j + 1
    # 'x' (any single char followed by ')
    if i + 2 < n and src[i + 2] == "'":
        return i + 3
    # lifetime / label
    j = i + 1
    while j < n and _is_id_cont(src[j]):
        j += 1
    return j


def significant(toks):
    """Indices of non-whitespace, non-comment tokens."""
    return [k for k, t in enumerate(toks) if t.kind not in (WS, COMMENT)]


if __name__ == "__main__":
    import sys
    bad = 0
    for p in sys.argv[1:]:
        s = open(p, encoding="utf-8").read()
        t = tokenize(s)
        if "".join(x.text for x in t) != s:
            print("ROUNDTRIP FAIL", p)
            bad = 1
    sys.exit(bad)
