"""Generic frame obligations of the form 'token sequence S occurs (as an expression, not as a
pattern) only inside functions F1..Fn', discharged on the real token stream of the current tree.
Registered into frame.REGISTRY.  No solver, no counterexample: a failure names the offending
occurrence; replay probes (if any) are attached per obligation."""
import glob
import os

import frame
from extract import load, LostAnchor
from rusttok import tokenize, IDENT, PUNCT, WS, COMMENT

LANG = "rsjsonnet-lang/src"


def _files(repo, pat):
    return sorted(os.path.relpath(p, repo) for p in glob.glob(os.path.join(repo, pat), recursive=True))


def _seq(anchor):
    return [t.text for t in tokenize(anchor) if t.kind not in (WS, COMMENT)]


def occurrences(src, want):
    n = src.n()
    for p in range(0, n - len(want) + 1):
        if all(src.t(p + i).text == want[i] for i in range(len(want))):
            yield p


def _after_is_pattern_end(src, pos):
    if pos >= src.n():
        return False
    t1 = src.t(pos)
    if t1.kind == PUNCT and t1.text == "=" and pos + 1 < src.n():
        t2 = src.t(pos + 1)
        return t2.text == ">" or t2.text != "="
    if t1.kind == IDENT and t1.text == "if":
        return True
    if t1.kind == PUNCT and t1.text == "|":
        return True
    return False


def is_pattern(src, p, p_end):
    """is the path expression src[p..p_end] (p_end = last token, e.g. the ')' of `X::Y(..)`) a
    PATTERN (match arm, let, if let, matches!) rather than a constructed value?"""
    # walk back over a `a :: b ::` prefix
    q = p
    while q >= 3 and src.t(q - 1).text == ":" and src.t(q - 2).text == ":" and src.t(q - 3).kind == IDENT:
        q -= 3
    end = p_end
    for _ in range(6):
        prev = src.t(q - 1) if q > 0 else None
        if prev is not None and prev.kind == IDENT and prev.text == "let":
            return True
        if prev is not None and prev.kind == PUNCT and prev.text == "&":
            q -= 1
            continue
        if _after_is_pattern_end(src, end + 1):
            # `X(..) =>`, `X(..) |`, `X(..) if`, `X(..) = expr` (let / if let / while let)
            # exclude `lhs = X(..)`: then X is preceded by `=`
            return not (prev is not None and prev.kind == PUNCT and prev.text == "=" )
        # enclosing bracket?
        o = None
        depth = 0
        k = q - 1
        while k >= 0:
            t = src.t(k)
            if t.kind == PUNCT and t.text in ")]}":
                k = src.match[k] - 1
                continue
            if t.kind == PUNCT and t.text in "([{":
                o = k
                break
            k -= 1
        if o is None:
            return False
        c = src.match[o]
        ot = src.t(o).text
        if ot == "(":
            before = src.t(o - 1) if o > 0 else None
            # matches!(expr, PATTERN ...)
            if before is not None and before.text == "!" and o >= 2 and src.t(o - 2).text in ("matches", "assert_matches"):
                # pattern iff a top-level comma precedes us inside the macro parens
                k = o + 1
                while k < q:
                    t = src.t(k)
                    if t.kind == PUNCT and t.text in "([{":
                        k = src.match[k] + 1
                        continue
                    if t.kind == PUNCT and t.text == ",":
                        return True
                    k += 1
                return False
            # tuple / tuple-struct: look at what follows the closing paren, one level up
            q2 = o
            if before is not None and before.kind == IDENT and before.text not in frame.KW_NOT_CALL:
                q2 = o - 1
                while q2 >= 3 and src.t(q2 - 1).text == ":" and src.t(q2 - 2).text == ":" and src.t(q2 - 3).kind == IDENT:
                    q2 -= 3
            q, end = q2, c
            continue
        if ot == "{":
            # struct pattern field `Foo { state: X(..) }` or a block: only a struct pattern if the
            # brace group itself is followed by a pattern end
            before = src.t(o - 1) if o > 0 else None
            if before is not None and before.kind == IDENT and _after_is_pattern_end(src, c + 1):
                return True
            return False
        return False
    return False


def only_in(repo, name, prop, what, anchor, allowed, files_glob=LANG + "/**/*.rs", call_like=True, probe=None, skip_test_files=True, patterns=True):
    """every non-pattern occurrence of `anchor` lies in a function of `allowed` (set of (file suffix, fn))"""
    want = _seq(anchor)
    failed, samples, n = [], [], 0
    for rel in _files(repo, files_glob):
        if skip_test_files and (rel.endswith("tests.rs") or "/tests/" in rel):
            continue
        src = load(repo, rel)
        for p in occurrences(src, want):
            # not part of a longer identifier path segment, e.g. `Foo::TraceItemX`
            last = p + len(want) - 1
            if last + 1 < src.n() and src.t(last).kind == IDENT and False:
                pass
            p_end = last
            if call_like and last + 1 < src.n() and src.t(last + 1).text in "({" and src.t(last + 1).kind == PUNCT:
                p_end = src.match[last + 1]
            if patterns and is_pattern(src, p, p_end):
                continue
            fn, _ = frame.enclosing_fn(src, p)
            if fn is None and last + 1 < src.n() and src.t(last + 1).text == ":" and (p == 0 or src.t(p - 1).text not in (".", ":")):
                continue     # a declaration (struct field / fn parameter `name: Type`), not a use
            n += 1
            ok = any(rel.endswith(fs) and fn == f for (fs, f) in allowed)
            line = src.t(p).line
            if ok:
                if len(samples) < 4:
                    samples.append("%s:%s: `%s` at %s:%d in fn %s (allowed)" % (prop, name, anchor, rel, line, fn))
            else:
                failed.append({"obligation": "%s:%s: %s - found `%s` at %s:%d in fn %s, allowed only in %s" % (
                    prop, name, what, anchor, rel, line, fn, sorted(f for _, f in allowed)),
                    "site": "%s:%s:%s" % (rel, fn, anchor), "file": rel, "line": line, "fn": fn, "probe": probe})
    if n == 0:
        raise LostAnchor("%s: `%s` does not occur at all (anchor lost)" % (name, anchor))
    return n, failed, samples


def _combine(name, parts):
    n = sum(p[0] for p in parts)
    failed = [f for p in parts for f in p[1]]
    samples = [s for p in parts for s in p[2]][:8]
    return {"name": name, "obligations": n, "failed": failed, "samples": samples}


DATA = "program/data.rs"
EVAL = "program/eval/mod.rs"


@frame.frame("C04")
def f_thunk(repo):
    """C04: the thunk state machine has no other writers: Pending is created only by the three
    new_pending_* constructors, InProgress only by switch_state, Done only by new_done / set_done (and
    switch_state's returned copy), and the `state` cell of ThunkData is borrowed mutably only in
    switch_state / set_done."""
    P = "C04"
    parts = [
        only_in(repo, "F-thunk", P, "a pending computation is created only by the new_pending_* constructors", "ThunkState::Pending",
                {(DATA, "new_pending_expr"), (DATA, "new_pending_field_plus"), (DATA, "new_pending_call")}),
        only_in(repo, "F-thunk", P, "a thunk is marked in-progress only by switch_state", "ThunkState::InProgress",
                {(DATA, "switch_state")}, call_like=False),
        only_in(repo, "F-thunk", P, "a thunk becomes Done only in new_done / set_done (switch_state returns a copy)", "ThunkState::Done",
                {(DATA, "new_done"), (DATA, "set_done"), (DATA, "switch_state")}),
        only_in(repo, "F-thunk", P, "the state cell is written only by switch_state / set_done", "state.borrow_mut",
                {(DATA, "switch_state"), (DATA, "set_done")}, files_glob=LANG + "/program/data.rs", call_like=False, patterns=False),
        only_in(repo, "F-thunk", P, "set_done is called only by the GotThunk arm of Evaluator::run", ".set_done(",
                {(EVAL, "run")}, call_like=False, patterns=False),
    ]
    # ThunkData's field is private to data.rs and named `state`: confirm the struct still has exactly that field
    src = load(repo, LANG + "/" + DATA)
    pk, po, pc, _ = src.resolve("struct:ThunkData")
    body = [src.t(q).text for q in range(po + 1, pc)]
    r = _combine("F-thunk", parts)
    r["obligations"] += 1
    if body[:3] != ["state", ":", "RefCell"]:
        r["failed"].append({"obligation": "C04:F-thunk: ThunkData has the single private field `state: RefCell<..>` (found %r)" % " ".join(body[:8]),
                            "site": "data.rs:ThunkData", "file": LANG + "/" + DATA, "line": src.t(pk).line, "fn": None})
    return r


@frame.frame("C10")
def f_tracelen(repo):
    """C10: nothing else touches either side of invariant T: stack_trace_len is written only by
    inc_trace_len / dec_trace_len (and initialised to 0 in eval); TraceItem / DelayedTraceItem states
    are pushed only by push_trace_item / delay_trace_item; max_stack is read only by the limit test in
    run (and written only by set_max_stack / Program::new)."""
    P = "C10"
    overflow_probe = [{"source": "local f(x) = f(x + 1) + 1; f(0)", "oracle": {"oracle": "error_expected"}},
                      {"source": "local a = { x: self.x }; a.x", "oracle": {"oracle": "error_expected"}}]
    parts = [
        only_in(repo, "F-tracelen", P, "the trace-length counter is written only by inc/dec_trace_len", "stack_trace_len",
                {(EVAL, "inc_trace_len"), (EVAL, "dec_trace_len"), (EVAL, "eval"), (EVAL, "run")},
                files_glob=LANG + "/program/**/*.rs", call_like=False, patterns=False, probe=overflow_probe),
        only_in(repo, "F-tracelen", P, "a TraceItem state is pushed only by push_trace_item", "State::TraceItem",
                {(EVAL, "push_trace_item")}, files_glob=LANG + "/program/**/*.rs", probe=overflow_probe),
        only_in(repo, "F-tracelen", P, "a DelayedTraceItem state is pushed only by delay_trace_item", "State::DelayedTraceItem",
                {(EVAL, "delay_trace_item")}, files_glob=LANG + "/program/**/*.rs", call_like=False, probe=overflow_probe),
        only_in(repo, "F-tracelen", P, "the frame limit is read only by the limit test in run", "max_stack",
                {(EVAL, "run"), ("program/mod.rs", "set_max_stack"), ("program/mod.rs", "new")},
                files_glob=LANG + "/program/**/*.rs", call_like=False, patterns=False, probe=overflow_probe),
    ]
    r = _combine("F-tracelen", parts)
    # inside `eval` the counter may only be initialised to 0 and compared with 0; inside `run` only read in the limit test
    src = load(repo, LANG + "/" + EVAL)
    want = ["stack_trace_len"]
    for p in occurrences(src, want):
        fn, _ = frame.enclosing_fn(src, p)
        nxt = src.t(p + 1).text
        nxt2 = src.t(p + 2).text if p + 2 < src.n() else ""
        assigns = (nxt == "=" and nxt2 != "=") or (nxt in "+-*" and nxt2 == "=")
        if fn in ("run",) and assigns:
            r["failed"].append({"obligation": "C10:F-tracelen: run only READS the counter (found an assignment at %s:%d)" % (EVAL, src.t(p).line),
                                "site": "%s:run:stack_trace_len=" % EVAL, "file": LANG + "/" + EVAL, "line": src.t(p).line, "fn": fn, "probe": overflow_probe})
        if fn == "eval" and nxt == ":" and not (src.t(p + 2).text == "0" and src.t(p + 3).text == ","):
            r["failed"].append({"obligation": "C10:F-tracelen: the counter starts at 0 (found another initialiser at %s:%d)" % (EVAL, src.t(p).line),
                                "site": "%s:eval:stack_trace_len-init" % EVAL, "file": LANG + "/" + EVAL, "line": src.t(p).line, "fn": fn, "probe": overflow_probe})
    r["obligations"] += 2
    return r
