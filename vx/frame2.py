"""Generic frame obligations of the form 'token sequence S occurs (as an expression, not as a
pattern) only inside functions F1..Fn', discharged on the real token stream of the current tree.
Registered into frame.REGISTRY.  No solver, no counterexample: a failure names the offending
occurrence; replay probes (if any) are attached per obligation."""
import glob
import os

import frame
from extract import load, LostAnchor
from rusttok import tokenize, IDENT, PUNCT, WS, COMMENT

LANG = "rsjsonnet-lang/src"


def _files(repo, pat):
    return sorted(os.path.relpath(p, repo) for p in glob.glob(os.path.join(repo, pat), recursive=True))


def _seq(anchor):
    return [t.text for t in tokenize(anchor) if t.kind not in (WS, COMMENT)]


def occurrences(src, want):
    n = src.n()
    for p in range(0, n - len(want) + 1):
        if all(src.t(p + i).text == want[i] for i in range(len(want))):
            yield p


def _after_is_pattern_end(src, pos):
    if pos >= src.n():
        return False
    t1 = src.t(pos)
    if t1.kind == PUNCT and t1.text == "=" and pos + 1 < src.n():
        t2 = src.t(pos + 1)
        return t2.text == ">" or t2.text != "="
    if t1.kind == IDENT and t1.text == "if":
        return True
    if t1.kind == PUNCT and t1.text == "|":
        return True
    return False


def is_pattern(src, p, p_end):
    """is the path expression src[p..p_end] (p_end = last token, e.g. the ')' of `X::Y(..)`) a
    PATTERN (match arm, let, if let, matches!) rather than a constructed value?"""
    # walk back over a `a :: b ::` prefix
    q = p
    while q >= 3 and src.t(q - 1).text == ":" and src.t(q - 2).text == ":" and src.t(q - 3).kind == IDENT:
        q -= 3
    end = p_end
    for _ in range(6):
        prev = src.t(q - 1) if q > 0 else None
        if prev is not None and prev.kind == IDENT and prev.text == "let":
            return True
        if prev is not None and prev.kind == PUNCT and prev.text == "&":
            q -= 1
            continue
        if _after_is_pattern_end(src, end + 1):
            # `X(..) =>`, `X(..) |`, `X(..) if`, `X(..) = expr` (let / if let / while let)
            # exclude `lhs = X(..)`: then X is preceded by `=`
            return not (prev is not None and prev.kind == PUNCT and prev.text == "=" )
        # enclosing bracket?
        o = None
        depth = 0
        k = q - 1
        while k >= 0:
            t = src.t(k)
            if t.kind == PUNCT and t.text in ")]}":
                k = src.match[k] - 1
                continue
            if t.kind == PUNCT and t.text in "([{":
                o = k
                break
            k -= 1
        if o is None:
            return False
        c = src.match[o]
        ot = src.t(o).text
        if ot == "(":
            before = src.t(o - 1) if o > 0 else None
            # matches!(expr, PATTERN ...)
            if before is not None and before.text == "!" and o >= 2 and src.t(o - 2).text in ("matches", "assert_matches"):
                # pattern iff a top-level comma precedes us inside the macro parens
                k = o + 1
                while k < q:
                    t = src.t(k)
                    if t.kind == PUNCT and t.text in "([{":
                        k = src.match[k] + 1
                        continue
                    if t.kind == PUNCT and t.text == ",":
                        return True
                    k += 1
                return False
            # tuple / tuple-struct: look at what follows the closing paren, one level up
            q2 = o
            if before is not None and before.kind == IDENT and before.text not in frame.KW_NOT_CALL:
                q2 = o - 1
                while q2 >= 3 and src.t(q2 - 1).text == ":" and src.t(q2 - 2).text == ":" and src.t(q2 - 3).kind == IDENT:
                    q2 -= 3
            q, end = q2, c
            continue
        if ot == "{":
            # struct pattern field `Foo { state: X(..) }` or a block: only a struct pattern if the
            # brace group itself is followed by a pattern end
            before = src.t(o - 1) if o > 0 else None
            if before is not None and before.kind == IDENT and _after_is_pattern_end(src, c + 1):
                return True
            return False
        return False
    return False


def only_in(repo, name, prop, what, anchor, allowed, files_glob=LANG + "/**/*.rs", call_like=True, probe=None, skip_test_files=True, patterns=True):
    """every non-pattern occurrence of `anchor` lies in a function of `allowed` (set of (file suffix, fn))"""
    want = _seq(anchor)
    failed, samples, n = [], [], 0
    for rel in _files(repo, files_glob):
        if skip_test_files and (rel.endswith("tests.rs") or "/tests/" in rel):
            continue
        src = load(repo, rel)
        for p in occurrences(src, want):
            # not part of a longer identifier path segment, e.g. `Foo::TraceItemX`
            last = p + len(want) - 1
            if last + 1 < src.n() and src.t(last).kind == IDENT and False:
                pass
            p_end = last
            if call_like and last + 1 < src.n() and src.t(last + 1).text in "({" and src.t(last + 1).kind == PUNCT:
                p_end = src.match[last + 1]
            if patterns and is_pattern(src, p, p_end):
                continue
            fn, _ = frame.enclosing_fn(src, p)
            if fn is None and last + 1 < src.n() and src.t(last + 1).text == ":" and (p == 0 or src.t(p - 1).text not in (".", ":")):
                continue     # a declaration (struct field / fn parameter `name: Type`), not a use
            n += 1
            ok = any(rel.endswith(fs) and fn == f for (fs, f) in allowed)
            line = src.t(p).line
            if ok:
                if len(samples) < 4:
                    samples.append("%s:%s: `%s` at %s:%d in fn %s (allowed)" % (prop, name, anchor, rel, line, fn))
            else:
                failed.append({"obligation": "%s:%s: %s - found `%s` at %s:%d in fn %s, allowed only in %s" % (
                    prop, name, what, anchor, rel, line, fn, sorted(f for _, f in allowed)),
                    "site": "%s:%s:%s" % (rel, fn, anchor), "file": rel, "line": line, "fn": fn, "probe": probe})
    if n == 0:
        raise LostAnchor("%s: `%s` does not occur at all (anchor lost)" % (name, anchor))
    return n, failed, samples


def _combine(name, parts):
    n = sum(p[0] for p in parts)
    failed = [f for p in parts for f in p[1]]
    samples = [s for p in parts for s in p[2]][:8]
    return {"name": name, "obligations": n, "failed": failed, "samples": samples}


DATA = "program/data.rs"
EVAL = "program/eval/mod.rs"


@frame.frame("C04")
def f_thunk(repo):
    """C04: the thunk state machine has no other writers: Pending is created only by the three
    new_pending_* constructors, InProgress only by switch_state, Done only by new_done / set_done (and
    switch_state's returned copy), and the `state` cell of ThunkData is borrowed mutably only in
    switch_state / set_done."""
    P = "C04"
    parts = [
        only_in(repo, "F-thunk", P, "a pending computation is created only by the new_pending_* constructors", "ThunkState::Pending",
                {(DATA, "new_pending_expr"), (DATA, "new_pending_field_plus"), (DATA, "new_pending_call")}),
        only_in(repo, "F-thunk", P, "a thunk is marked in-progress only by switch_state", "ThunkState::InProgress",
                {(DATA, "switch_state")}, call_like=False),
        only_in(repo, "F-thunk", P, "a thunk becomes Done only in new_done / set_done (switch_state returns a copy)", "ThunkState::Done",
                {(DATA, "new_done"), (DATA, "set_done"), (DATA, "switch_state")}),
        only_in(repo, "F-thunk", P, "the state cell is written only by switch_state / set_done", "state.borrow_mut",
                {(DATA, "switch_state"), (DATA, "set_done")}, files_glob=LANG + "/program/data.rs", call_like=False, patterns=False),
        only_in(repo, "F-thunk", P, "set_done is called only by the GotThunk arm of Evaluator::run", ".set_done(",
                {(EVAL, "run")}, call_like=False, patterns=False),
    ]
    # ThunkData's field is private to data.rs and named `state`: confirm the struct still has exactly that field
    src = load(repo, LANG + "/" + DATA)
    pk, po, pc, _ = src.resolve("struct:ThunkData")
    body = [src.t(q).text for q in range(po + 1, pc)]
    r = _combine("F-thunk", parts)
    r["obligations"] += 1
    if body[:3] != ["state", ":", "RefCell"]:
        r["failed"].append({"obligation": "C04:F-thunk: ThunkData has the single private field `state: RefCell<..>` (found %r)" % " ".join(body[:8]),
                            "site": "data.rs:ThunkData", "file": LANG + "/" + DATA, "line": src.t(pk).line, "fn": None})
    return r


@frame.frame("C10")
def f_tracelen(repo):
    """C10: nothing else touches either side of invariant T: stack_trace_len is written only by
    inc_trace_len / dec_trace_len (and initialised to 0 in eval); TraceItem / DelayedTraceItem states
    are pushed only by push_trace_item / delay_trace_item; max_stack is read only by the limit test in
    run (and written only by set_max_stack / Program::new)."""
    P = "C10"
    overflow_probe = [{"source": "local f(x) = f(x + 1) + 1; f(0)", "oracle": {"oracle": "error_expected"}},
                      {"source": "local a = { x: self.x }; a.x", "oracle": {"oracle": "error_expected"}}]
    parts = [
        only_in(repo, "F-tracelen", P, "the trace-length counter is written only by inc/dec_trace_len", "stack_trace_len",
                {(EVAL, "inc_trace_len"), (EVAL, "dec_trace_len"), (EVAL, "eval"), (EVAL, "run")},
                files_glob=LANG + "/program/**/*.rs", call_like=False, patterns=False, probe=overflow_probe),
        only_in(repo, "F-tracelen", P, "a TraceItem state is pushed only by push_trace_item", "State::TraceItem",
                {(EVAL, "push_trace_item")}, files_glob=LANG + "/program/**/*.rs", probe=overflow_probe),
        only_in(repo, "F-tracelen", P, "a DelayedTraceItem state is pushed only by delay_trace_item", "State::DelayedTraceItem",
                {(EVAL, "delay_trace_item")}, files_glob=LANG + "/program/**/*.rs", call_like=False, probe=overflow_probe),
        only_in(repo, "F-tracelen", P, "the frame limit is read only by the limit test in run", "max_stack",
                {(EVAL, "run"), ("program/mod.rs", "set_max_stack"), ("program/mod.rs", "new")},
                files_glob=LANG + "/program/**/*.rs", call_like=False, patterns=False, probe=overflow_probe),
    ]
    r = _combine("F-tracelen", parts)
    # inside `eval` the counter may only be initialised to 0 and compared with 0; inside `run` only read in the limit test
    src = load(repo, LANG + "/" + EVAL)
    want = ["stack_trace_len"]
    for p in occurrences(src, want):
        fn, _ = frame.enclosing_fn(src, p)
        nxt = src.t(p + 1).text
        nxt2 = src.t(p + 2).text if p + 2 < src.n() else ""
        assigns = (nxt == "=" and nxt2 != "=") or (nxt in "+-*" and nxt2 == "=")
        if fn in ("run",) and assigns:
            r["failed"].append({"obligation": "C10:F-tracelen: run only READS the counter (found an assignment at %s:%d)" % (EVAL, src.t(p).line),
                                "site": "%s:run:stack_trace_len=" % EVAL, "file": LANG + "/" + EVAL, "line": src.t(p).line, "fn": fn, "probe": overflow_probe})
        if fn == "eval" and nxt == ":" and not (src.t(p + 2).text == "0" and src.t(p + 3).text == ","):
            r["failed"].append({"obligation": "C10:F-tracelen: the counter starts at 0 (found another initialiser at %s:%d)" % (EVAL, src.t(p).line),
                                "site": "%s:eval:stack_trace_len-init" % EVAL, "file": LANG + "/" + EVAL, "line": src.t(p).line, "fn": fn, "probe": overflow_probe})
    r["obligations"] += 2
    return r


# =====================================================================================
# F-gctrace (C03): every GcTrace impl of program/data.rs visits each Gc-bearing field /
# variant payload exactly once, on the single control path of its `trace` function.
# =====================================================================================
GCT_PROBE = [
    {"source": "local o = { a: [1, 2, { b: self }], f(x):: x + 1 }; std.length(std.makeArray(3000, function(i) o { c: i })) + o.f(1)",
     "oracle": {"oracle": "stdout_equals", "value": "3002\n"}},
]


def _split_top(src, a, b, sep=","):
    """split significant range [a, b) at top-level separators (brackets and <> nested)"""
    parts, cur, depth, k = [], [], 0, a
    while k < b:
        t = src.t(k)
        if t.kind == PUNCT and t.text in "([{":
            c = src.match[k]
            cur.extend(range(k, c + 1))
            k = c + 1
            continue
        if t.kind == PUNCT and t.text == "<":
            depth += 1
        elif t.kind == PUNCT and t.text == ">" and src.t(k - 1).text != "-":
            depth -= 1
        if t.kind == PUNCT and t.text == sep and depth == 0:
            parts.append(cur)
            cur = []
        else:
            cur.append(k)
        k += 1
    if cur:
        parts.append(cur)
    return parts


def _strip_field_prefix(src, ks):
    """drop attributes and visibility from a field declaration token list"""
    i = 0
    while i < len(ks):
        t = src.t(ks[i])
        if t.text == "#":
            c = src.match[ks[i + 1]]
            while i < len(ks) and ks[i] <= c:
                i += 1
            continue
        if t.text == "pub":
            i += 1
            if i < len(ks) and src.t(ks[i]).text == "(":
                c = src.match[ks[i]]
                while i < len(ks) and ks[i] <= c:
                    i += 1
            continue
        break
    return ks[i:]


def _bearing(src, type_ks, traceable):
    """does this type (token positions) hold a Gc handle, directly or through a traceable type?
    A `&'p T` reference to arena data is not traversed (ir / ast data holds no Gc)."""
    texts = [src.t(k).text for k in type_ks]
    if texts and texts[0] == "&":
        return False
    for i, tx in enumerate(texts):
        if tx == "Gc" or tx in traceable:
            return True
    return False


def f_gctrace_impl(repo):
    P = "C03"
    rel = LANG + "/" + DATA
    src = load(repo, rel)
    # all `impl GcTrace for T` blocks
    impls = {}
    for p in range(src.n()):
        t = src.t(p)
        if t.kind == IDENT and t.text == "impl" and src._is_item_position(p):
            hdr = src.impl_header(p)
            if hdr and hdr[0] == "GcTrace":
                impls[hdr[1]] = (p, hdr[2])
    if len(impls) < 5:
        raise LostAnchor("F-gctrace: fewer than 5 `impl GcTrace for` blocks found in data.rs (anchor lost)")
    traceable = set(impls)
    # type aliases whose target is Gc-bearing (ArrayData = Box<[Gc<ThunkData>]>)
    for p in range(src.n() - 1):
        if src.t(p).kind == IDENT and src.t(p).text == "type" and src._is_item_position(p):
            _, _, pe = src.item_end(p)
            ks = list(range(p + 2, pe))
            if any(src.t(k).text == "Gc" for k in ks):
                traceable.add(src.t(p + 1).text)
    n_ob, failed, samples = 0, [], []

    def fail(tname, msg, line):
        failed.append({"obligation": "C03:F-gctrace:%s: %s" % (tname, msg), "site": "%s:%s" % (DATA, tname),
                       "file": rel, "line": line, "fn": "trace", "probe": GCT_PROBE})

    for tname, (p_impl, p_open) in sorted(impls.items()):
        p_close = src.match[p_open]
        # the trace fn body
        fpos = [q for q in range(p_open, p_close) if src.t(q).text == "fn" and src.t(q + 1).text == "trace"]
        if len(fpos) != 1:
            raise LostAnchor("F-gctrace: impl GcTrace for %s has no single fn trace" % tname)
        b_open, b_close, _ = src.item_end(fpos[0])
        body = list(range(b_open + 1, b_close))
        btx = [src.t(k).text for k in body]
        line0 = src.t(fpos[0]).line
        # single control path: no early exit, no conditional other than `if let Self::` / `match self`
        n_ob += 1
        bad = [x for x in btx if x in ("return", "break", "continue", "?", "while", "loop")]
        ifs = [i for i, x in enumerate(btx) if x == "if"]
        bad_if = [i for i in ifs if not (btx[i + 1] == "let" and btx[i + 2] == "Self")]
        if bad or bad_if:
            fail(tname, "trace() has one unconditional control path (found %s)" % (bad or "a plain `if`"), line0)
        # the type definition
        kind = None
        for kw in ("struct", "enum"):
            c = src.find_items(kw, tname)
            if c:
                kind, p_def = kw, c[0]
        if kind is None:
            raise LostAnchor("F-gctrace: definition of %s not found" % tname)
        d_open, d_close, _ = src.item_end(p_def)
        if kind == "struct":
            for ks in _split_top(src, d_open + 1, d_close):
                ks = _strip_field_prefix(src, ks)
                if len(ks) < 3 or src.t(ks[1]).text != ":":
                    continue
                fname = src.t(ks[0]).text
                if not _bearing(src, ks[2:], traceable):
                    continue
                n_ob += 1
                occ = [i for i in range(len(btx) - 2) if btx[i] == "self" and btx[i + 1] == "." and btx[i + 2] == fname
                       and (i + 3 >= len(btx) or btx[i + 3] != "(")]
                if len(occ) != 1:
                    fail(tname, "field `%s` (holds Gc handles) is visited exactly once by trace() - found %d uses of self.%s" % (fname, len(occ), fname), line0)
                    continue
                i = occ[0] + 3
                rest = btx[i:]
                ok = False
                if rest[:6] == [".", "trace", "(", "ctx", ")", ";"]:
                    ok = True
                elif rest[:10] == [".", "borrow", "(", ")", ".", "trace", "(", "ctx", ")", ";"]:
                    ok = True
                elif rest[:4] in ([".", "values", "(", ")"], [".", "iter", "(", ")"]) and rest[4] == "{":
                    # for <v> in self.f.values() { <v>.trace(ctx); }
                    j = occ[0]
                    if j >= 3 and btx[j - 1] == "in" and btx[j - 3] == "for":
                        v = btx[j - 2]
                        blk_open = body[i + 4]
                        blk = [src.t(k).text for k in range(blk_open + 1, src.match[blk_open])]
                        ok = blk == [v, ".", "trace", "(", "ctx", ")", ";"]
                if not ok:
                    fail(tname, "field `%s` is traced unconditionally (self.%s.trace(ctx), .borrow().trace(ctx) or a for-loop over its values) - found `self.%s %s`"
                         % (fname, fname, fname, " ".join(rest[:8])), line0)
                elif len(samples) < 6:
                    samples.append("C03:F-gctrace:%s.%s visited exactly once" % (tname, fname))
        else:
            for ks in _split_top(src, d_open + 1, d_close):
                ks = _strip_field_prefix(src, ks)
                if not ks:
                    continue
                vname = src.t(ks[0]).text
                binds = []      # (binding description, kind 'pos'|'named', key)
                if len(ks) > 1 and src.t(ks[1]).text == "(":
                    c = src.match[ks[1]]
                    for i, sub in enumerate(_split_top(src, ks[1] + 1, c)):
                        if _bearing(src, sub, traceable):
                            binds.append(("pos", i))
                elif len(ks) > 1 and src.t(ks[1]).text == "{":
                    c = src.match[ks[1]]
                    for sub in _split_top(src, ks[1] + 1, c):
                        sub = _strip_field_prefix(src, sub)
                        if len(sub) >= 3 and src.t(sub[1]).text == ":" and _bearing(src, sub[2:], traceable):
                            binds.append(("named", src.t(sub[0]).text))
                if not binds:
                    continue
                # the pattern `Self::V` in the body
                pats = [i for i in range(len(btx) - 3) if btx[i] == "Self" and btx[i + 1] == ":" and btx[i + 2] == ":" and btx[i + 3] == vname]
                for b in binds:
                    n_ob += 1
                    what = "payload %s of variant %s" % (b[1], vname)
                    if len(pats) != 1:
                        fail(tname, "%s (holds Gc handles) is visited exactly once - variant matched %d times in trace()" % (what, len(pats)), line0)
                        continue
                    i = pats[0] + 4
                    grp_open = body[i]
                    if src.t(grp_open).text not in "({":
                        fail(tname, "%s is bound by the pattern" % what, line0)
                        continue
                    grp_close = src.match[grp_open]
                    subs = _split_top(src, grp_open + 1, grp_close)
                    var = None
                    if b[0] == "pos":
                        if b[1] < len(subs) and len(subs[b[1]]) == 1 and src.t(subs[b[1]][0]).kind == IDENT:
                            var = src.t(subs[b[1]][0]).text
                    else:
                        for sub in subs:
                            tx = [src.t(k).text for k in sub]
                            if tx == [b[1]]:
                                var = b[1]
                            elif len(tx) == 3 and tx[0] == b[1] and tx[1] == ":":
                                var = tx[2]
                    if var is None or var == "_":
                        fail(tname, "%s is bound by the pattern (not ignored by `_` / `..`)" % what, line0)
                        continue
                    # arm body: `=> expr ,` | `=> { .. }` | `= self { .. }` (if let)
                    k = grp_close + 1
                    if src.t(k).text == "=" and src.t(k + 1).text == ">":
                        k += 2
                        if src.t(k).text == "{":
                            arm = list(range(k + 1, src.match[k]))
                        else:
                            e = k
                            while e < b_close and not (src.t(e).text == "," ):
                                if src.t(e).text in "([{":
                                    e = src.match[e]
                                e += 1
                            arm = list(range(k, e))
                    elif src.t(k).text == "=" and src.t(k + 1).text == "self" and src.t(k + 2).text == "{":
                        arm = list(range(k + 3, src.match[k + 2]))
                    else:
                        fail(tname, "%s: unrecognised arm shape" % what, line0)
                        continue
                    atx = [src.t(q).text for q in arm]
                    uses = [j for j in range(len(atx)) if atx[j] == var and (j == 0 or atx[j - 1] != ".")]
                    good = [j for j in uses if atx[j + 1:j + 6] == [".", "trace", "(", "ctx", ")"]]
                    if len(uses) != 1 or len(good) != 1:
                        fail(tname, "%s is traced exactly once in its arm (`%s.trace(ctx)`) - found %d uses, %d trace calls" % (what, var, len(uses), len(good)), line0)
                    elif len(samples) < 6:
                        samples.append("C03:F-gctrace:%s::%s %s visited exactly once" % (tname, vname, b[1]))
    # every Gc<X> stored in data.rs names a type with a GcTrace impl: enforced by rustc (`Gc<T: GcTrace>`)
    return {"name": "F-gctrace", "obligations": n_ob, "failed": failed, "samples": samples}


@frame.frame("C03")
def f_gctrace(repo):
    """C03: each `impl GcTrace for T` in program/data.rs visits every field / variant payload of T
    that can hold a Gc handle exactly once, unconditionally."""
    return f_gctrace_impl(repo)


# =====================================================================================
# F-envonce (C04): object-level locals are created once per (object, layer): the function that
# creates a layer's environment (and with it one pending thunk per object local) is only ever
# called from inside a OnceCell initialiser.
# =====================================================================================
ENV_PROBE = [
    {"source": 'local o = { local x = std.trace("eval-x", 20), assert x > 0, assert x < 100, a: x + 1, b: x + 2 }; o.a + o.b',
     "oracle": {"oracle": "stderr_count_equals", "needle": "eval-x", "count": 1}},
    {"source": 'local o = { local x = std.trace("eval-x", 20), a: x + 1, b: x + 2, c: [x, x] }; std.length(std.manifestJson(o))',
     "oracle": {"oracle": "stderr_count_equals", "needle": "eval-x", "count": 1}},
]


@frame.frame("C04")
def f_envonce(repo):
    """C04: every call of Program::init_object_env (which allocates a fresh pending thunk for each object
    local of the layer) is the initialiser of a OnceCell (`<cell>.get_or_init(|| ... init_object_env(..) ...)`),
    so a layer environment - and each object local in it - exists at most once per cell."""
    rel = LANG + "/" + DATA
    n, failed, samples = 0, [], []
    for relf in _files(repo, LANG + "/program/**/*.rs"):
        src = load(repo, relf)
        for p in occurrences(src, ["init_object_env", "("]):
            if p > 0 and src.t(p - 1).text == "fn":
                continue
            n += 1
            fn, _ = frame.enclosing_fn(src, p)
            # enclosing paren groups, innermost first
            ok = False
            stack = []
            for q in range(0, p):
                t = src.t(q)
                if t.kind == PUNCT and t.text in "([{":
                    stack.append(q)
                elif t.kind == PUNCT and t.text in ")]}":
                    stack.pop()
            for o in reversed(stack):
                if src.t(o).text == "(" and o >= 2 and src.t(o - 1).text == "get_or_init" and src.t(o - 2).text == ".":
                    ok = True
                    break
                if src.t(o).text == "{" and o >= 1 and src.t(o - 1).text == ")" :
                    # reached the enclosing fn body without meeting a get_or_init( group
                    po = src.match[o - 1]
                    if po >= 2 and src.t(po - 2).text == "fn":
                        break
            line = src.t(p).line
            if ok:
                if len(samples) < 3:
                    samples.append("C04:F-envonce: init_object_env called at %s:%d in fn %s inside a OnceCell initialiser" % (relf, line, fn))
            else:
                failed.append({"obligation": "C04:F-envonce: a layer environment (one fresh pending thunk per object local) is created only as the initialiser of a OnceCell - found a bare call of init_object_env at %s:%d in fn %s" % (relf, line, fn),
                               "site": "%s:%s:init_object_env" % (relf, fn), "file": relf, "line": line, "fn": fn, "probe": ENV_PROBE})
    if n == 0:
        raise LostAnchor("F-envonce: init_object_env is never called (anchor lost)")
    return {"name": "F-envonce", "obligations": n, "failed": failed, "samples": samples}


# =====================================================================================
# F-objfresh (C07): an object built from other objects starts with its assertions unchecked,
# so that the object-level asserts of EVERY inherited layer run against the combined object
# (late-bound self), and with no cached field list.
# =====================================================================================
ASSERT_PROBE = [
    {"source": "({ assert self.a > 0, a: 1 } + { b: 2 }) + { a: -1 }", "oracle": {"oracle": "error_expected"}},
    {"source": "{ assert self.a > 0, a: 1 } + ({ b: 2 } + { a: -1 })", "oracle": {"oracle": "error_expected"}},
    {"source": "std.objectRemoveKey({ assert self.a > 0, a: 1, b: 2 } + { a: -1 }, 'b')", "oracle": {"oracle": "error_expected"}},
]


@frame.frame("C07")
def f_objfresh(repo):
    """C07: every ObjectData literal inside Program::extend_object / object_with_field_removed sets
    `asserts_checked: Cell::new(false)` and `fields_order: OnceCell::new()` (nothing about the operands'
    checked state or cached field list is inherited by the combined object)."""
    rel = LANG + "/" + DATA
    src = load(repo, rel)
    n, failed, samples = 0, [], []
    for fn in ("extend_object", "object_with_field_removed"):
        pk, po, pc, _ = src.resolve("impl:Program/fn:" + fn)
        lits = [p for p in range(po, pc) if src.t(p).text == "ObjectData" and src.t(p + 1).text == "{"]
        if not lits:
            raise LostAnchor("F-objfresh: no ObjectData literal in %s" % fn)
        for p in lits:
            c = src.match[p + 1]
            fields = {}
            for ks in _split_top(src, p + 2, c):
                if len(ks) >= 3 and src.t(ks[1]).text == ":":
                    fields[src.t(ks[0]).text] = [src.t(k).text for k in ks[2:]]
                elif len(ks) == 1:
                    fields[src.t(ks[0]).text] = None      # shorthand
            for fname, want in (("asserts_checked", ["Cell", ":", ":", "new", "(", "false", ")"]), ("fields_order", ["OnceCell", ":", ":", "new", "(", ")"])):
                n += 1
                got = fields.get(fname, "missing")
                if got == want:
                    if len(samples) < 4:
                        samples.append("C07:F-objfresh: %s builds its result with %s: %s" % (fn, fname, "".join(want)))
                else:
                    failed.append({"obligation": "C07:F-objfresh: %s builds the combined object with `%s: %s` (found `%s`) - asserts of inherited layers must run against the combined object / the field list must be recomputed"
                                   % (fn, fname, "".join(want), "".join(got) if isinstance(got, list) else got),
                                   "site": "%s:%s:%s" % (DATA, fn, fname), "file": rel, "line": src.t(p).line, "fn": fn, "probe": ASSERT_PROBE})
    return {"name": "F-objfresh", "obligations": n, "failed": failed, "samples": samples}


# =====================================================================================
# F-lexpos (C14): the lexer's positions are moved, and tokens are built, only by the position
# primitives whose contracts unit lexprim discharges; next_token begins by consuming a byte.
# =====================================================================================
LEX = "lexer/mod.rs"
TILING_PROBE = [
    {"source": "{ a: [1, 2.5e3, 'x\\u00e9', @'v''v', |||\n  t\n|||], /* c */ b:: self.a, # d\n c+: 3 }", "oracle": {"oracle": "no_crash"}},
]


@frame.frame("C14")
def f_lexpos(repo):
    """C14: in lexer/mod.rs, `end_pos` is assigned only inside the position primitives (eat_byte, eat_byte_if,
    eat_get_byte_if, eat_map_byte, eat_slice, eat_any_byte, eat_cont_any_char, lex_operator) and initialised in
    `new`; `start_pos` is assigned only in commit_token (and initialised in `new`); a `Token { .. }` value is built
    only in commit_token; the EndOfFile kind is produced only by the `None` arm of next_token's first match, which
    is on `self.eat_any_byte()`."""
    rel = LANG + "/" + LEX
    src = load(repo, rel)
    n, failed, samples = 0, [], []
    END_OK = {"eat_byte", "eat_byte_if", "eat_get_byte_if", "eat_map_byte", "eat_slice", "eat_any_byte", "eat_cont_any_char", "lex_operator"}

    def add_fail(what, p, fn):
        failed.append({"obligation": "C14:F-lexpos: %s (found at %s:%d in fn %s)" % (what, rel, src.t(p).line, fn),
                       "site": "%s:%s:%s" % (LEX, fn, what[:30]), "file": rel, "line": src.t(p).line, "fn": fn, "probe": TILING_PROBE})

    # impl Lexer only (the tests module also names these)
    pk, po, pc, _ = src.resolve("impl:Lexer")
    impl_ranges = []
    for p in src.find_impls("Lexer", None):
        o = src.impl_header(p)[2]
        impl_ranges.append((o, src.match[o]))
    def in_impl(p):
        return any(a < p < b for a, b in impl_ranges)
    seen_end = seen_start = 0
    for p in range(src.n() - 3):
        if not in_impl(p):
            continue
        if src.t(p).text == "self" and src.t(p + 1).text == "." and src.t(p + 2).text in ("end_pos", "start_pos"):
            nxt, nxt2 = src.t(p + 3).text, src.t(p + 4).text
            assigns = (nxt == "=" and nxt2 != "=") or (nxt in "+-*/" and nxt2 == "=")
            if not assigns:
                continue
            fn, _ = frame.enclosing_fn(src, p)
            n += 1
            if src.t(p + 2).text == "end_pos":
                seen_end += 1
                if fn not in END_OK:
                    add_fail("end_pos is moved only by the position primitives %s" % sorted(END_OK), p, fn)
                elif nxt == "-" :
                    add_fail("end_pos is never decremented", p, fn)
                elif len(samples) < 3:
                    samples.append("C14:F-lexpos: end_pos assigned in %s (a position primitive under contract)" % fn)
            else:
                seen_start += 1
                if fn != "commit_token":
                    add_fail("start_pos is moved only by commit_token", p, fn)
        if src.t(p).text == "Token" and src.t(p + 1).text == "{" and src.t(p - 1).text not in ("struct", "enum", ">", "::"):
            fn, _ = frame.enclosing_fn(src, p)
            if fn is not None:
                n += 1
                if fn != "commit_token":
                    add_fail("a Token value is built only by commit_token", p, fn)
        if src.t(p).text == "EndOfFile" and src.t(p - 1).text == ":" and src.t(p - 3).text == "TokenKind" and src.t(p - 4).text == "(" and src.t(p - 5).text == "commit_token":
            fn, _ = frame.enclosing_fn(src, p)
            n += 1
            if fn != "next_token":
                add_fail("the end-of-file token is produced only by next_token", p, fn)
    if seen_end < 5 or seen_start < 1:
        raise LostAnchor("F-lexpos: position assignments not found (anchor lost)")
    # next_token starts with `match self.eat_any_byte() { None => Ok(self.commit_token(TokenKind::EndOfFile)),`
    pk, po, pc, _ = src.resolve("impl:Lexer/fn:next_token")
    head = [src.t(q).text for q in range(po + 1, min(po + 24, pc))]
    want = ["match", "self", ".", "eat_any_byte", "(", ")", "{", "None", "=", ">", "Ok", "(", "self", ".", "commit_token", "(", "TokenKind", ":", ":", "EndOfFile", ")", ")", ","]
    n += 1
    if head[:len(want)] != want:
        failed.append({"obligation": "C14:F-lexpos: next_token begins by consuming one byte and yields the end-of-file token exactly when there is none (found `%s`)" % " ".join(head[:12]),
                       "site": "%s:next_token:head" % LEX, "file": rel, "line": src.t(po).line, "fn": "next_token", "probe": TILING_PROBE})
    return {"name": "F-lexpos", "obligations": n, "failed": failed, "samples": samples}


# =====================================================================================
# gcnative (C03): BOUNDED stand-in for the collector - exhaustive enumeration of small heaps on the
# real gc/mod.rs + gc/trace.rs (extracted verbatim, compiled natively).  Registered here because it
# is neither a Kani harness nor a Verus lemma; the driver counts it as BOUNDED, never as proof.
# =====================================================================================
import subprocess
import tempfile
import shutil
import re as _re
import extract as _extract


@frame.frame("C03")
def g_gcnative(repo):
    tier = os.environ.get("VERIF_TIER_EFFECTIVE", "quick")
    maxn = 4 if tier == "thorough" else 3
    tpl = os.path.join(os.path.dirname(os.path.dirname(os.path.abspath(__file__))), "units", "gcnative", "unit.rs")
    ub = _extract.build_unit(tpl, repo)          # LostAnchor propagates: exit 2
    d = tempfile.mkdtemp(prefix="gcnative", dir=os.environ.get("VERIF_SCRATCH") or "/var/tmp")
    try:
        src = os.path.join(d, "gcn.rs")
        open(src, "w").write(ub.text)
        p = subprocess.run(["rustc", "-O", "--edition", "2024", "gcn.rs", "-o", "gcn"], cwd=d, stdout=subprocess.PIPE, stderr=subprocess.STDOUT, text=True, timeout=600)
        if p.returncode != 0:
            raise LostAnchor("gcnative: the extracted collector does not compile with the harness (%s)" % p.stdout[-300:].replace("\n", " "))
        try:
            r = subprocess.run([os.path.join(d, "gcn"), str(maxn)], stdout=subprocess.PIPE, stderr=subprocess.STDOUT, text=True, timeout=3600)
        except subprocess.TimeoutExpired:
            raise LostAnchor("gcnative: enumeration did not finish in 3600 s")
        m = _re.search(r"GCNATIVE heaps=(\d+) failures=(\d+) maxn=(\d+)", r.stdout)
        if not m:
            raise LostAnchor("gcnative: no result line (exit %s): %s" % (r.returncode, r.stdout[-300:].replace("\n", " ")))
        heaps, fails = int(m.group(1)), int(m.group(2))
        res = {"name": "gcnative", "obligations": heaps, "failed": [], "samples": [], "strength": "bounded",
               "bound": "every heap of 0..%d nodes: each node allocated by alloc or alloc_view, two edge slots each empty or pointing to any node, each external handle kept as Gc / kept as GcView / dropped; per heap: collect, collect again, then drop the kept handles one at a time collecting after each" % maxn,
               "fragments": ub.fragments}
        if fails:
            fm = _re.search(r"GCNATIVE first-failure (.*)", r.stdout)
            w = fm.group(1) if fm else "?"
            res["failed"].append({"obligation": "C03:gcnative: after a collection exactly the objects reachable from the kept handles survive and all of them can still be visited - %d of %d enumerated heaps fail; first: %s" % (fails, heaps, w),
                                  "site": "gc/mod.rs:gc", "file": LANG + "/gc/mod.rs", "line": 0, "fn": "gc", "probe": GCT_PROBE,
                                  "native_witness": w, "failed_count": fails})
            res["obligations_failed_count"] = fails
        else:
            res["samples"].append("C03:gcnative: %d heaps of <= %d nodes: survivors == reachable set, every survivor can be visited, second collection idempotent, everything reclaimed once all handles are dropped" % (heaps, maxn))
        return res
    finally:
        shutil.rmtree(d, ignore_errors=True)


# =====================================================================================
# objnative (C07): BOUNDED stand-in for the parts of the layered object representation that CBMC cannot
# execute - get_fields_order (real BTreeMap), extend_object / object_with_field_removed (layer cloning):
# exhaustive enumeration of small objects on the real functions (extracted verbatim, compiled natively).
# Counted as BOUNDED, never as proof.
# =====================================================================================
OBJ_PROBE = [
    {"source": "std.objectFields(std.objectRemoveKey(std.objectRemoveKey({ a: 1 }, 'a') + { a: 2 }, 'a') + { a: 3 })", "oracle": {"oracle": "stdout_equals", "value": '[\n   "a"\n]\n'}},
    {"source": "std.objectRemoveKey({ a: 1 }, 'a') + { a: 2 }", "oracle": {"oracle": "stdout_equals", "value": '{\n   "a": 2\n}\n'}},
    {"source": "std.objectFields(({ a:: 1 } + { b: 2 }) + { a: 3 }) == std.objectFields({ a:: 1 } + ({ b: 2 } + { a: 3 }))", "oracle": {"oracle": "stdout_equals", "value": "true\n"}},
    {"source": "std.objectFieldsAll(std.objectRemoveKey({ a: 1, b:: 2 }, 'a'))", "oracle": {"oracle": "stdout_equals", "value": '[\n   "b"\n]\n'}},
]


@frame.frame("C07")
def g_objnative(repo):
    tier = os.environ.get("VERIF_TIER_EFFECTIVE", "quick")
    maxl = 6 if tier == "thorough" else 5
    tpl = os.path.join(os.path.dirname(os.path.dirname(os.path.abspath(__file__))), "units", "objnative", "unit.rs")
    ub = _extract.build_unit(tpl, repo)          # LostAnchor propagates: exit 2
    d = tempfile.mkdtemp(prefix="objnative", dir=os.environ.get("VERIF_SCRATCH") or "/var/tmp")
    try:
        open(os.path.join(d, "objn.rs"), "w").write(ub.text)
        p = subprocess.run(["rustc", "-O", "--edition", "2024", "objn.rs", "-o", "objn"], cwd=d, stdout=subprocess.PIPE, stderr=subprocess.STDOUT, text=True, timeout=600)
        if p.returncode != 0:
            raise LostAnchor("objnative: the extracted object functions do not compile with the harness (%s)" % p.stdout[-300:].replace("\n", " "))
        try:
            r = subprocess.run([os.path.join(d, "objn"), str(maxl)], stdout=subprocess.PIPE, stderr=subprocess.STDOUT, text=True, timeout=1800)
        except subprocess.TimeoutExpired:
            raise LostAnchor("objnative: enumeration did not finish in 1800 s")
        m = _re.search(r"OBJNATIVE cases=(\d+) failures=(\d+) maxl=(\d+)", r.stdout)
        if not m:
            # a panic inside the extracted code (index out of range, unwrap) on an enumerated object is a failure of
            # the real code on that object, but without the result line there is no witness: undecided
            raise LostAnchor("objnative: no result line (exit %s): %s" % (r.returncode, r.stdout[-300:].replace("\n", " ")))
        cases, fails = int(m.group(1)), int(m.group(2))
        res = {"name": "objnative", "obligations": cases, "failed": [], "samples": [], "strength": "bounded",
               "bound": "every REACHABLE object (sequence of blocks: a literal layer over two field names with entries {absent, :, ::, :::}, or a removal marker {x: Removed(d)} over a reachable object of d layers) of 1..%d layers for the field list; every pair of such objects of 1..2 layers, and every triple with a one-layer third operand, for extension; every reachable object of 1..%d layers for objectRemoveKey, followed by one more extension for 1..3 layers" % (maxl, min(maxl - 1, 4)),
               "fragments": ub.fragments}
        if fails:
            fm = _re.search(r"OBJNATIVE first-failure ((C\d\d:objnative:[a-z0-9-]+): .*)", r.stdout)
            w = fm.group(1) if fm else "?"
            lab = fm.group(2) if fm else "C07:objnative"
            probe = list(OBJ_PROBE)
            cm = _re.search(r"OBJNATIVE cli-witness (.*)", r.stdout)
            if cm:
                # the first failing object that a Jsonnet program can build, as a self-checking program for the real binary
                probe.insert(0, {"source": cm.group(1).strip(), "oracle": {"oracle": "stdout_equals", "value": "true\n"}})
            res["failed"].append({"obligation": "%s - %d of %d enumerated checks fail; first: %s" % (lab, fails, cases, w),
                                  "site": "program/data.rs:objects", "file": LANG + "/program/data.rs", "line": 0, "fn": "get_fields_order", "probe": probe,
                                  "native_witness": w, "failed_count": fails})
            res["obligations_failed_count"] = fails
        else:
            res["samples"].append("C07:objnative: %d checks over objects of <= %d layers: field list == visibility rule over the effective definitions and agrees with has_field / has_visible_field; extension concatenates layers, is associative, {} is an identity; objectRemoveKey removes exactly the named field" % (cases, maxl))
        return res
    finally:
        shutil.rmtree(d, ignore_errors=True)
