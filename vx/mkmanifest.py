#!/usr/bin/env python3
"""Regenerates MANIFEST.json from the table below (kept valid at all times)."""
import json, os
ROOT = os.path.dirname(os.path.dirname(os.path.abspath(__file__)))
CLAIMS = json.load(open(os.path.join(ROOT, "claims.json")))
checks = []
na = []
for pid in ["C%02d" % i for i in range(1, 21)]:
    c = CLAIMS.get(pid)
    if not c or c.get("not_applicable"):
        na.append({"property_id": pid, "reason": (c or {}).get("not_applicable", "check not built yet")})
        continue
    checks.append({
        "property_id": pid,
        "quick_cmd": "./check %s --tier quick" % pid,
        "thorough_cmd": "./check %s --tier thorough" % pid,
        "evidence_file": "/verif/evidence/%s.json" % pid,
        "replay_cmd_template": "./check %s --replay {path}" % pid,
        "engine": "contracts",
        "level_claimed": {"category": c["category"], "text": c["text"], "design_ref": c.get("design_ref", "DESIGN.md §4 " + pid)},
        "level_note": c["note"],
        "technique": c["technique"],
    })
m = {
    "version": 1,
    "setup_cmd": "python3 vx/selftest.py",
    "hooks": {"guard": "none (no hooks: every check extracts the functions under contract verbatim from /repo's working tree)",
              "enable": "n/a - /repo is built unmodified; units are generated into a scratch dir by vx/extract.py",
              "baseline_off_cmd": "cd /repo && cargo nextest run --workspace --no-fail-fast --offline || cargo test --workspace --no-fail-fast --offline",
              "source_commits": [], "add_only": True},
    "engines": [{"name": "contracts", "path": "/verif/check", "serves_properties": [c["property_id"] for c in checks],
                 "kind_free_text": "contract-based deductive verification: Kani/CBMC harness contracts (requires=assume, ensures=assert, automatic safety obligations) on functions extracted verbatim from /repo on every run; Verus composition lemmas; syntactic frame obligations"}],
    "checks": checks,
    "notes": "Exit codes: 0 all obligations discharged, 1 VIOLATION (counterexample or failed frame obligation), 2 undecided (lost anchor, timeout, tool limit) - never an alarm. fix: commits in /repo are listed in known_findings.json.",
    "not_applicable": na,
}
json.dump(m, open(os.path.join(ROOT, "MANIFEST.json"), "w"), indent=1)
print("claimed:", [c["property_id"] for c in checks])
