#!/usr/bin/env python3
"""setup_cmd: nothing to build (python + pre-installed kani/verus); verify the tools answer and
the tokenizer round-trips every .rs file of /repo."""
import glob, os, subprocess, sys
sys.path.insert(0, os.path.dirname(os.path.abspath(__file__)))
import rusttok
bad = 0
for p in glob.glob("/repo/**/*.rs", recursive=True):
    if "/target/" in p:
        continue
    s = open(p, encoding="utf-8").read()
    if "".join(t.text for t in rusttok.tokenize(s)) != s:
        print("tokenizer round-trip failed:", p); bad = 1
for tool in (["kani", "--version"], ["verus", "--version"], ["cbmc", "--version"]):
    try:
        subprocess.run(tool, stdout=subprocess.DEVNULL, stderr=subprocess.DEVNULL, check=True)
    except Exception as e:
        print("tool missing:", tool, e); bad = 1
print("selftest", "FAILED" if bad else "ok")
sys.exit(bad)
