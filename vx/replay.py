"""Replay of verifier counterexamples against the real binary built from the current tree.

An adapter turns Kani's concrete values (one byte list per kani::any(), in call order) into
an input of the public system (a Jsonnet source file) plus an *observable* oracle that is
computed here, independently of the repository's code.  verdict = reproduced | not-reproduced
| no-adapter | build-failed."""
import json
import os
import struct
import subprocess
import sys
import tempfile

ADAPTERS = {}


def adapter(name):
    def deco(f):
        ADAPTERS[name] = f
        return f
    return deco


def build_binary(repo, cache):
    tdir = os.path.join(cache, "target")
    os.makedirs(tdir, exist_ok=True)
    env = dict(os.environ, CARGO_NET_OFFLINE="true", CARGO_TARGET_DIR=tdir)
    p = subprocess.run(["cargo", "build", "--offline", "-q", "-p", "rsjsonnet", "--manifest-path", os.path.join(repo, "Cargo.toml")],
                       env=env, stdout=subprocess.PIPE, stderr=subprocess.STDOUT, text=True)
    b = os.path.join(tdir, "debug", "rsjsonnet")
    if p.returncode != 0 or not os.path.exists(b):
        return None, p.stdout[-2000:]
    return b, ""


def run_source(binary, source, extra_args=(), timeout=60):
    with tempfile.TemporaryDirectory(prefix="vxreplay") as d:
        f = os.path.join(d, "in.jsonnet")
        open(f, "wb").write(source)
        try:
            p = subprocess.run([binary, *extra_args, f], stdout=subprocess.PIPE, stderr=subprocess.PIPE, timeout=timeout)
            return p.returncode, p.stdout, p.stderr
        except subprocess.TimeoutExpired:
            return -9, b"", b"timeout"


# ---- oracles (named, so that a replay file can be re-run) -----------------------------------
def oracle_eval(o, rc, out, err):
    """-> (violated: bool, detail)"""
    kind = o["oracle"]
    if kind == "no_crash":
        bad = rc not in (0, 1, 2) or b"panicked at" in err
        return bad, "exit=%d%s" % (rc, " panic: " + err.decode("utf-8", "replace")[:300] if bad else "")
    if kind == "stdout_json_equals":
        if rc not in (0, 1, 2) or b"panicked at" in err:
            return True, "crash exit=%d" % rc
        if rc != 0:
            return (o.get("must_succeed", True)), "exit=%d stderr=%s" % (rc, err.decode("utf-8", "replace")[:300])
        try:
            got = json.loads(out.decode("utf-8"))
        except Exception as e:
            return True, "stdout is not JSON/UTF-8: %r (%r)" % (out[:80], e)
        return got != o["expected"], "got %r expected %r" % (got, o["expected"])
    if kind == "stdout_is_valid_json":
        if rc != 0:
            return False, "exit=%d" % rc
        try:
            json.loads(out.decode("utf-8"), strict=True)
            return False, "valid"
        except Exception as e:
            return True, "stdout is not strict RFC 8259 JSON: %r (%s)" % (out[:80], e)
    if kind == "no_inf_nan":
        if rc not in (0, 1, 2) or b"panicked at" in err:
            return True, "crash exit=%d" % rc
        s = out.decode("utf-8", "replace")
        bad = rc == 0 and any(w in s for w in ("inf", "NaN", "nan"))
        return bad, "stdout=%r exit=%d" % (s[:80], rc)
    if kind in ("python_literal_equals", "toml_value_equals"):
        if rc not in (0, 1, 2) or b"panicked at" in err:
            return True, "crash exit=%d" % rc
        if rc != 0:
            return True, "exit=%d stderr=%s" % (rc, err.decode("utf-8", "replace")[:300])
        try:
            # the case is run with -S: stdout is the RAW document (plus the CLI's trailing newline),
            # so the target-language parser is what judges it - not the CLI's JSON encoding of the
            # returned string (an earlier version JSON-decoded first and so blamed the Python/TOML
            # clause for a failure of the JSON escaper).
            doc = out.decode("utf-8")
            if doc.endswith("\n"):
                doc = doc[:-1]
            if kind == "python_literal_equals":
                import ast
                got = ast.literal_eval(doc)
            else:
                import tomllib
                got = tomllib.loads(doc)["a"]
        except Exception as e:
            return True, "target-language parser rejects the document %r: %s" % (out[:80], e)
        return got != o["expected"], "got %r expected %r" % (got, o["expected"])
    if kind == "json_self_check":
        # the program computes a list of records; `field` of every record must be true
        if rc not in (0, 1, 2) or b"panicked at" in err:
            return True, "crash exit=%d" % rc
        if rc != 0:
            return True, "exit=%d stderr=%s" % (rc, err.decode("utf-8", "replace")[:300])
        try:
            recs = json.loads(out.decode("utf-8"))
        except Exception as e:
            return True, "stdout is not JSON: %r" % out[:80]
        bad = [r for r in recs if not r.get(o.get("field", "ok"))]
        return bool(bad), "%d of %d records disagree; first: %s" % (len(bad), len(recs), json.dumps(bad[0])[:300] if bad else "-")
    if kind == "stderr_count_equals":
        if rc not in (0, 1, 2) or b"panicked at" in err:
            return True, "crash exit=%d" % rc
        k = err.decode("utf-8", "replace").count(o["needle"])
        return k != o["count"], "stderr contains %r %d time(s), expected %d (exit=%d)" % (o["needle"], k, o["count"], rc)
    if kind == "stdout_equals":
        return (rc != 0 or out.decode("utf-8", "replace") != o["value"]), "exit=%d stdout=%r" % (rc, out[:80])
    if kind == "error_reported_no_crash":
        bad = rc != 1 or b"panicked at" in err or b"error:" not in err
        return bad, "exit=%d stderr=%s" % (rc, err.decode("utf-8", "replace")[:300])
    if kind == "error_expected":
        bad = rc == 0
        return bad, "exit=%d stdout=%r" % (rc, out[:80])
    raise ValueError(kind)


def _run_case(binary, case):
    src = case["source"].encode("latin-1") if case.get("source_latin1") else case["source"].encode("utf-8")
    rc, out, err = run_source(binary, src, case.get("args", ()))
    if case["oracle"]["oracle"] == "same_outcome_as":
        # the property relates two programs: both must give the same exit status and stdout
        rc2, out2, err2 = run_source(binary, case["oracle"]["other_source"].encode("utf-8"), case.get("args", ()))
        crash = any(r not in (0, 1, 2) for r in (rc, rc2)) or b"panicked at" in err + err2
        violated = crash or (rc, out) != (rc2, out2)
        detail = "`%s` -> exit %d %r ; `%s` -> exit %d %r" % (case["source"], rc, out[:60], case["oracle"]["other_source"], rc2, out2[:60])
        return {"exit": rc, "stdout": out.decode("utf-8", "replace")[:200], "stderr": err.decode("utf-8", "replace")[:300],
                "violated": violated, "detail": detail}
    violated, detail = oracle_eval(case["oracle"], rc, out, err)
    return {"exit": rc, "stdout": out.decode("utf-8", "replace")[:400], "stderr": err.decode("utf-8", "replace")[:600],
            "violated": violated, "detail": detail}


def replay(v, repo, cache):
    cases = None
    name = v.get("replay_adapter")
    if name and name.startswith("probe:"):
        import frame
        cases = frame.NUMBER_PROBES.get(name[6:])
    elif name and name.split(":")[0] in ADAPTERS:
        v = dict(v, adapter_param=name.split(":", 1)[1] if ":" in name else None)
        try:
            # adapters that decode a counterexample need the playback values; probe-style adapters
            # (concrete harnesses) run their fixed case list and ignore it
            cases = ADAPTERS[name.split(":")[0]](v.get("playback") or [], v)
        except (IndexError, KeyError, TypeError, ValueError):
            cases = None
    elif v.get("probe"):
        cases = v["probe"]
    if not cases:
        return {"verdict": "no-adapter", "note": "no replay adapter turns this obligation's free variables into a Jsonnet input"}
    binary, msg = build_binary(repo, cache)
    if not binary:
        return {"verdict": "build-failed", "build_output": msg}
    runs = []
    for case in cases:
        r = _run_case(binary, case)
        runs.append({"case": case, "result": r})
        if r["violated"]:
            return {"verdict": "reproduced", "cases": runs}
    return {"verdict": "not-reproduced", "cases": runs}


def rerun(path, repo, cache):
    rec = json.load(open(path))
    cases = [c["case"] for c in rec.get("replay", {}).get("cases", [])]
    print("replay of", rec.get("failed_obligation"))
    if not cases:
        print("no executable case recorded (no-failing-input-found); verifier output:")
        print(rec.get("verifier_output_tail", "")[-1500:])
        return 0
    binary, msg = build_binary(repo, cache)
    if not binary:
        print("build failed:", msg)
        return 2
    rc = 0
    for c in cases:
        r = _run_case(binary, c)
        print(json.dumps({"source": c["source"], "result": r}, ensure_ascii=False)[:1200])
        if r["violated"]:
            rc = 1
    print("REPRODUCED" if rc else "not reproduced")
    return rc


def u(vals, i, signed=False):
    b = bytes(vals[i])
    return int.from_bytes(b, "little", signed=signed)


def f64(vals, i):
    return struct.unpack("<d", bytes(vals[i]))[0]


# ---- adapters ---------------------------------------------------------------------------------
@adapter("utf8_string")
def _utf8_string(vals, v):
    # harness: w: [u8;4] (4 values of 1 byte), n: usize
    w = bytes(x[0] for x in vals[:4])
    n = u(vals, 4)
    raw = w[:n]
    cases = []
    # a NUL-free, quote-free body so that the bytes sit inside a string literal
    for body in (raw, raw + b" "):
        if any(b in body for b in (0x22, 0x5C, 0x0A)):
            continue
        src = b'"' + body + b'"'
        expected = body.decode("utf-8", "replace")
        cases.append({"source": src.decode("latin-1"), "source_latin1": True,
                      "oracle": {"oracle": "stdout_json_equals", "expected": expected}})
    return cases


def _char_case(vals, src_tpl, oracle, args=()):
    cp = u(vals, 0)
    if cp > 0x10FFFF or 0xD800 <= cp <= 0xDFFF:
        return []
    return [{"source": src_tpl % cp, "args": list(args), "oracle": {"oracle": oracle, "expected": chr(cp)}}]


@adapter("escape_json_char")
def _escape_json_char(vals, v):
    return (_char_case(vals, "std.char(%d)", "stdout_json_equals")
            + _char_case(vals, "std.parseJson(std.escapeStringJson(std.char(%d)))", "stdout_json_equals")
            + _char_case(vals, "std.parseJson(std.manifestJsonMinified(std.char(%d)))", "stdout_json_equals"))


@adapter("escape_python_char")
def _escape_python_char(vals, v):
    return _char_case(vals, "std.manifestPython(std.char(%d))", "python_literal_equals", ("-S",))


@adapter("escape_toml_char")
def _escape_toml_char(vals, v):
    return _char_case(vals, 'std.manifestTomlEx({a: std.char(%d)}, "")', "toml_value_equals", ("-S",))


def _radix_shaped(vals, v, fn):
    k = int(v["adapter_param"])
    cp = u(vals, 0)
    if cp > 0x10FFFF or 0xD800 <= cp <= 0xDFFF:
        return []
    body = "1" * k + "\\u%04x" % cp + "1" if cp < 0x10000 else None
    if body is None:
        hi, lo = 0xD800 + ((cp - 0x10000) >> 10), 0xDC00 + ((cp - 0x10000) & 0x3FF)
        body = "1" * k + "\\u%04x\\u%04x" % (hi, lo) + "1"
    return [{"source": 'std.%s("%s")' % (fn, body), "oracle": {"oracle": "no_crash"}}]


@adapter("radix_hex_shaped")
def _radix_hex_shaped(vals, v):
    return _radix_shaped(vals, v, "parseHex")


@adapter("radix_oct_shaped")
def _radix_oct_shaped(vals, v):
    return _radix_shaped(vals, v, "parseOctal")


_FMT_STRINGS = {"empty": "", "a": "a", "e2": "é", "e3": "€", "e4": "\U0001F600", "ae2": "aé", "e2e2": "éé",
                "e2e3": "é€", "ae4": "a\U0001F600", "e2e2e2": "ééé"}


@adapter("fmt_pad")
def _fmt_pad(vals, v):
    which, tag = v["adapter_param"].split(":")
    s = _FMT_STRINGS[tag]
    fw = u(vals, 0)
    left = bool(vals[1][0]) if len(vals) > 1 and vals[1] else False
    spec = "%s%d" % ("-" if left else "", fw)
    expected = "[" + (s.ljust(fw) if left else s.rjust(fw)) + "]"
    lit = json.dumps(s, ensure_ascii=True)
    if which == "arr":
        src = '"[%%%ss]" %% [%s]' % (spec, lit)
    else:
        src = '"[%%(k)%ss]" %% {k: %s}' % (spec, lit)
    return [{"source": src, "oracle": {"oracle": "stdout_json_equals", "expected": expected}}]


@adapter("fmt_prec")
def _fmt_prec(vals, v):
    conv = v["adapter_param"]
    value = f64(vals, 0)
    prec = u(vals, 1)
    shown = min(prec, 100000)   # larger precisions would only allocate more; the failing class is > 65535
    return [{"source": 'std.length("%%.%d%s" %% (%r))' % (shown, conv, value), "oracle": {"oracle": "no_crash"},
             "note": "precision from the counterexample: %d" % prec}]


@adapter("slice_range")
def _slice_range(vals, v):
    i = 0
    ln = u(vals, i); i += 1
    args = []
    for _ in range(3):
        some = bool(vals[i][0]); i += 1
        if some:
            args.append(f64(vals, i)); i += 1
        else:
            args.append(None)
    L = min(ln, 40)
    def lit(x):
        return "" if x is None else repr(x)
    cases = []
    ints = all(a is None or (a == a and abs(a) != float("inf") and float(a).is_integer()) for a in args)
    for seq, pyseq in (("std.range(0, %d)" % (L - 1) if L > 0 else "[]", list(range(L))),
                       ('"%s"' % "".join(chr(0x3b1 + j % 20) for j in range(L)), None)):
        src = "%s[%s:%s:%s]" % (seq, lit(args[0]), lit(args[1]), lit(args[2]))
        if ints and (args[2] is None or args[2] >= 1):
            sl = slice(*(None if a is None else int(a) for a in args))
            base = pyseq if pyseq is not None else "".join(chr(0x3b1 + j % 20) for j in range(L))
            cases.append({"source": src, "oracle": {"oracle": "stdout_json_equals", "expected": base[sl]}})
        else:
            cases.append({"source": src, "oracle": {"oracle": "no_crash"}})
    return cases


@adapter("lex_unicode_pair")
def _lex_unicode_pair(vals, v):
    cu1, cu2 = u(vals, 0), u(vals, 1)
    upper = bool(vals[2][0]) if len(vals) > 2 and vals[2] else False
    fmt = "%04X" if upper else "%04x"
    src = '"\\u' + fmt % cu1 + '\\u' + fmt % cu2 + '"'
    sur = lambda c: 0xD800 <= c <= 0xDFFF
    if not sur(cu1) and not sur(cu2):
        exp = chr(cu1) + chr(cu2)
    elif 0xD800 <= cu1 < 0xDC00 and 0xDC00 <= cu2 <= 0xDFFF:
        exp = chr(0x10000 + ((cu1 - 0xD800) << 10) + (cu2 - 0xDC00))
    else:
        exp = None
    if exp is None:
        return [{"source": src, "oracle": {"oracle": "error_expected"}}]
    return [{"source": src, "oracle": {"oracle": "stdout_json_equals", "expected": exp}}]


@adapter("lex_textblock")
def _lex_textblock(vals, v):
    """the 32 concrete inputs of the harness, against the real binary"""
    cases = []
    for k in range(32):
        t = lambda bit: "\r\n" if (k >> bit) & 1 else "\n"
        strip = k >= 16
        src = "|||" + ("-" if strip else "") + t(0) + "  a" + t(1) + t(2) + "  b" + t(3) + "|||"
        exp = "a" + t(1) + t(2) + "b" + t(3)
        if strip:
            exp = exp[:-1]
        cases.append({"source": src, "oracle": {"oracle": "stdout_json_equals", "expected": exp}})
    return cases


@adapter("json_raw_char")
def _json_raw_char(vals, v):
    raw = bytes(x[0] for x in vals if x)
    try:
        ch = raw.decode("utf-8")
    except UnicodeDecodeError:
        return []
    if len(ch) != 1:
        return []
    cp = ord(ch)
    src = "std.parseJson('\"' + std.char(%d) + '\"')" % cp
    if cp < 0x20 or ch == "\\":
        return [{"source": src, "oracle": {"oracle": "error_expected"}}]
    if ch == '"':
        return []
    return [{"source": src, "oracle": {"oracle": "stdout_json_equals", "expected": ch}}]


@adapter("thunk_chain")
def _thunk_chain(vals, v):
    """probe: a chain of `+:` layers deeper than the frame limit must be stopped with a reported error"""
    return [{"source": "std.foldl(function(o, i) o + { a+: 1 }, std.range(1, 400), { a: 0 }).a", "args": ["--max-stack", "100"],
             "oracle": {"oracle": "error_expected"}}]


@adapter("fmt_g")
def _fmt_g(vals, v):
    """precision from the counterexample (first usize), every value class of the harness plus values that
    force the exponent form, with and without '#'"""
    prec = min(u(vals, 0), 70000)
    cases = []
    for val in ("0.5", "7.25", "-123.5", "654321.0", "1e10", "1e-7", "0"):
        for flag in ("", "#"):
            for g in ("g", "G"):
                cases.append({"source": 'std.length("%%%s.%d%s" %% [%s])' % (flag, prec, g, val), "oracle": {"oracle": "no_crash"}})
    return cases


@adapter("rmkey")
def _rmkey(vals, v):
    """probe: removing a field of every visibility, observed through the hidden-aware observers"""
    cases = []
    for decl in ("a: 1", "a:: 1", "a::: 1"):
        for base in ("{ %s, b: 2 }" % decl, "{ a: 0 } + { %s, b: 2 }" % decl, "{ a:: 0 } + { a: 1, b: 2 }"):
            src = ('local o = std.objectRemoveKey(%s, "a"); { hasAll: std.objectHasAll(o, "a"), inop: "a" in o, all: std.member(std.objectFieldsAll(o), "a"), '
                   'sup: (o + { r: "a" in super }).r, b_ok: o.b == 2, ok: !self.hasAll && !self.inop && !self.all && !self.sup && self.b_ok }' % base)
            cases.append({"source": "[" + src + "]", "oracle": {"oracle": "json_self_check", "field": "ok"}})
    return cases


@adapter("sort_entry")
def _sort_entry(vals, v):
    return [{"source": 'std.length(std.sort([error "x"]))', "oracle": {"oracle": "stdout_equals", "value": "1\n"}},
            {"source": 'std.length(std.sort([1], keyF=function(x) error "k"))', "oracle": {"oracle": "stdout_equals", "value": "1\n"}},
            {"source": 'std.length(std.sort([]))', "oracle": {"oracle": "stdout_equals", "value": "0\n"}},
            {"source": 'std.sort([3, 1, 2])', "oracle": {"oracle": "stdout_json_equals", "expected": [1, 2, 3]}}]


@adapter("base64")
def _base64(vals, v):
    """probe: encoder against Python's base64 on every 1-byte input and a spread of 2- and 3-byte inputs; decoder
    inverts it; malformed groups are errors"""
    import base64 as b64
    cases = []
    samples = [[x] for x in range(0, 256, 5)] + [[x, 255 - x] for x in range(0, 256, 17)] + [[x, (x * 7) % 256, (x * 13) % 256] for x in range(0, 256, 23)] + [[1, 2, 3, 4], [250, 251, 252, 253, 254]]
    for bs in samples:
        exp = b64.b64encode(bytes(bs)).decode()
        cases.append({"source": "std.base64(%s)" % json.dumps(bs), "oracle": {"oracle": "stdout_json_equals", "expected": exp}})
        cases.append({"source": "std.base64DecodeBytes(%s)" % json.dumps(exp), "oracle": {"oracle": "stdout_json_equals", "expected": bs}})
    for bad in ("A", "AB", "ABC", "A=AA", "=AAA", "AA=A", "AAA*", "AAAA="):
        cases.append({"source": "std.base64DecodeBytes(%s)" % json.dumps(bad), "oracle": {"oracle": "error_expected"}})
    return cases


@adapter("json_unicode_pair")
def _json_unicode_pair(vals, v):
    cu1, cu2 = u(vals, 0), u(vals, 1)
    upper = bool(vals[2][0]) if len(vals) > 2 and vals[2] else False
    fmt = "%04X" if upper else "%04x"
    doc = '"\\u' + fmt % cu1 + '\\u' + fmt % cu2 + '"'
    src = "std.parseJson(%s)" % json.dumps(doc)
    sur = lambda c: 0xD800 <= c <= 0xDFFF
    if not sur(cu1) and not sur(cu2):
        exp = chr(cu1) + chr(cu2)
    elif 0xD800 <= cu1 < 0xDC00 and 0xDC00 <= cu2 <= 0xDFFF:
        exp = chr(0x10000 + ((cu1 - 0xD800) << 10) + (cu2 - 0xDC00))
    else:
        return [{"source": src, "oracle": {"oracle": "error_expected"}}]
    return [{"source": src, "oracle": {"oracle": "stdout_json_equals", "expected": exp}}]


@adapter("fmt_hex_zero")
def _fmt_hex_zero(vals, v):
    """probe: %x / %X / %o / %d against Python's % for zero and a few non-zero values, every flag combination, small widths / precisions"""
    import itertools
    cases = []
    for conv in "xXod":
        for flags in ("", "#", "0", "#0", "+", " ", "-", "#+", "#-"):
            for w in ("", "6", "8"):
                for p in ("", ".0", ".4"):
                    for val in (0, 1, 255, -255, 4096):
                        spec = "%" + flags + w + p + conv
                        exp = spec % val
                        if conv == "o" and "#" in flags:
                            continue      # Python prints 0o, C prints 0: the conventions differ
                        cases.append({"source": "%s %% [%d]" % (json.dumps(spec), val), "oracle": {"oracle": "stdout_json_equals", "expected": exp}})
    return cases


@adapter("slice_string")
def _slice_string(vals, v):
    """probe: every integer start / end in -7..7 (and null), steps null / 1 / 2 / 3, on two non-ASCII strings"""
    cases = []
    for text in ("h\u00e9llo", "a\U0001F60Eb\u20ac"):
        rng = [None] + list(range(-7, 8))
        for a in rng:
            for b in rng:
                for c in (None, 1, 2, 3):
                    f = lambda x: "" if x is None else str(x)
                    cases.append({"source": "%s[%s:%s:%s]" % (json.dumps(text), f(a), f(b), f(c)), "oracle": {"oracle": "stdout_json_equals", "expected": text[slice(a, b, c)]}})
    return cases[::7]


@adapter("cmp_arrays")
def _cmp_arrays(vals, v):
    """probe: every pair of number arrays of length 0..3 over {0, 1} (plus the counterexample's lengths, clipped), every
    comparison operator, against Python's list ordering (lexicographic, a proper prefix is smaller)"""
    import itertools
    arrays = [list(t) for n in range(0, 4) for t in itertools.product((0, 1), repeat=n)]
    recs = []
    for a in arrays:
        for b in arrays:
            exp = {"lt": a < b, "le": a <= b, "gt": a > b, "ge": a >= b, "eq": a == b, "ne": a != b, "cmp": (a > b) - (a < b)}
            recs.append("{ a: %s, b: %s, lt: self.a < self.b, le: self.a <= self.b, gt: self.a > self.b, ge: self.a >= self.b, eq: self.a == self.b, ne: self.a != self.b, cmp: std.__compare(self.a, self.b), "
                        "ok: self.lt == %s && self.le == %s && self.gt == %s && self.ge == %s && self.eq == %s && self.ne == %s && self.cmp == %d }"
                        % (json.dumps(a), json.dumps(b), *(json.dumps(exp[k]) for k in ("lt", "le", "gt", "ge", "eq", "ne")), exp["cmp"]))
    return [{"source": "[\n" + ",\n".join(recs) + "\n]", "oracle": {"oracle": "json_self_check", "field": "ok"}}]


@adapter("cmp_objects")
def _cmp_objects(vals, v):
    """probe: == on objects over the names a, b with every visibility combination on both sides must equal equality of the
    manifested JSON (visible fields only); hidden fields must not be evaluated"""
    import itertools
    decl = {0: None, 1: "%s: %d", 2: "%s:: %d", 3: "%s::: %d"}
    recs = []
    for la, lb, ra, rb in itertools.product(range(4), repeat=4):
        def obj(x, y, va, vb):
            fs = [decl[k] % (n, val) for (k, n, val) in ((x, "a", va), (y, "b", vb)) if k]
            return "{ " + ", ".join(fs) + " }"
        for (va, vb) in ((1, 2), (1, 1)):
            L, R = obj(la, lb, 1, 2), obj(ra, rb, va, vb)
            recs.append("{ l: %s, r: %s, eq: self.l == self.r, ne: self.l != self.r, j: std.manifestJsonMinified(self.l) == std.manifestJsonMinified(self.r), ok: self.eq == self.j && self.ne == !self.j }" % (L, R))
    recs.append('{ eq: { a: 1, b:: 2 } == { a: 1, b:: error "hidden field evaluated" }, ok: self.eq }')
    return [{"source": "[\n" + ",\n".join(recs) + "\n]", "oracle": {"oracle": "json_self_check", "field": "ok"}}]


@adapter("lazy")
def _lazy(vals, v):
    """probe: unused array elements and local bindings that would fail must not be evaluated"""
    return [{"source": 'std.length([error "a", error "b", 3])', "oracle": {"oracle": "stdout_equals", "value": "3\n"}},
            {"source": 'local a = error "a", b = error "b", c = 7; c', "oracle": {"oracle": "stdout_equals", "value": "7\n"}},
            {"source": '[error "a", 5][1]', "oracle": {"oracle": "stdout_equals", "value": "5\n"}},
            {"source": 'local a = b + 1, b = 2; a', "oracle": {"oracle": "stdout_equals", "value": "3\n"}}]


@adapter("limit")
def _limit(vals, v):
    """a program that needs a handful of frames must succeed under EVERY limit at least that large: the limit from the
    counterexample (first 8-byte value) and a spread of huge ones"""
    limits = [100, 4294967295, 4294967296, 4294967300, 8589934592, 2 ** 63, 2 ** 64 - 1]
    try:
        limits.insert(0, max(u(vals, 0), 50))
    except Exception:
        pass
    prog = "local f(n) = if n == 0 then 0 else 1 + f(n - 1); f(20)"
    return [{"source": prog, "args": ["--max-stack", str(m)], "oracle": {"oracle": "stdout_equals", "value": "20\n"}} for m in limits]


@adapter("span_len")
def _span_len(vals, v):
    """probe: a binary expression whose left operand is a string literal of 2^25 - 3 .. 2^25 + 1 bytes (so the node's
    span length crosses the inline-encoding boundary) must evaluate without crashing"""
    cases = []
    for n in ((1 << 25) - 3, (1 << 25) - 2, (1 << 25) - 1, (1 << 25), (1 << 26) - 3):
        src = 'std.length("' + "a" * n + '" + "b")'
        cases.append({"source": src, "oracle": {"oracle": "stdout_equals", "value": "%d\n" % (n + 1)}})
    return cases


@adapter("sort_stable")
def _sort_stable(vals, v):
    """probe: std.sort / std.set with a projecting key function on arrays of 2..80 elements with many equal keys must
    equal Python's stable sorted(); set operations on small sets must equal Python's"""
    import random
    rnd = random.Random(7)
    cases = []
    for n in (2, 3, 5, 8, 13, 29, 30, 31, 32, 45, 64, 80):
        arr = [[rnd.randrange(0, 4), i] for i in range(n)]
        exp = sorted(arr, key=lambda p: p[0])
        cases.append({"source": "std.sort(%s, keyF=function(p) p[0])" % json.dumps(arr), "oracle": {"oracle": "stdout_json_equals", "expected": exp}})
        seen, uniq = set(), []
        for p in exp:
            if p[0] not in seen:
                seen.add(p[0]); uniq.append(p)
        cases.append({"source": "std.set(%s, keyF=function(p) p[0])" % json.dumps(arr), "oracle": {"oracle": "stdout_json_equals", "expected": uniq}})
    sets = [[], [1], [1, 3], [2, 3, 5], [1, 2, 3, 4], [0, 5, 9]]
    for a in sets:
        for b in sets:
            cases.append({"source": "[std.setUnion(%s, %s), std.setInter(%s, %s), std.setDiff(%s, %s), std.setMember(3, %s)]" % (a, b, a, b, a, b, a),
                          "oracle": {"oracle": "stdout_json_equals", "expected": [sorted(set(a) | set(b)), sorted(set(a) & set(b)), sorted(set(a) - set(b)), 3 in a]}})
    cases.append({"source": "[std.minArray([[2, 0], [1, 1], [1, 2]], keyF=function(p) p[0]), std.maxArray([[2, 0], [3, 1], [3, 2]], keyF=function(p) p[0])]", "oracle": {"oracle": "stdout_json_equals", "expected": [[1, 1], [3, 1]]}})
    return cases


@adapter("toml_key")
def _toml_key(vals, v):
    """probe: TOML documents whose keys contain non-ASCII letters / digits must be accepted by tomllib and decode to the same mapping"""
    cases = []
    for key in ("caf\u00e9", "\u540d\u524d", "\u00fc", "\u0663", "a\u00b2", "\u00e9t\u00e9"):
        cases.append({"source": 'std.manifestTomlEx({ a: { %s: 1 } }, "  ")' % json.dumps(key), "args": ["-S"], "oracle": {"oracle": "toml_value_equals", "expected": {key: 1}}})
    return cases


@adapter("radix_value")
def _radix_value(vals, v):
    """the integer from the counterexample (first 16-byte value) and a spread of rounding-tie shaped integers of 17..32
    hex digits: std.parseHex must return float(int)"""
    ns = []
    try:
        ns.append(u(vals, 0))
    except Exception:
        pass
    ns += [2 ** 64 + 2 ** 11 + 1, 2 ** 64 + 2 ** 11, 2 ** 64 + 3 * 2 ** 11 + 1, 2 ** 80 + 2 ** 27 + 1, 2 ** 100 + 2 ** 47 + 1, 2 ** 127 + 2 ** 74 + 1, 16 ** 31 + 2 ** 71 + 1]
    cases = []
    for n in ns:
        if n <= 0:
            continue
        cases.append({"source": 'std.parseHex("%x") == %d' % (n, int(float(n))), "oracle": {"oracle": "stdout_equals", "value": "true\n"}})
    return cases


@adapter("substr")
def _substr(vals, v):
    text = "h\u00e9l\U0001F60Eo"
    return [{"source": "std.substr(%s, %d, %d)" % (json.dumps(text), f, l), "oracle": {"oracle": "stdout_json_equals", "expected": text[f:f + l]}}
            for f in range(0, 7) for l in range(0, 7)]


@adapter("crop")
def _crop(vals, v):
    """every small crop size (and the counterexample's, clipped) on a run-time error with a 12-frame trace"""
    sizes = [0, 1, 2, 3, 4, 5, 6, 7, 11, 12, 13]
    try:
        sizes.insert(0, min(u(vals, 1), 40))
    except Exception:
        pass
    prog = 'local f(n) = if n == 0 then error "x" else 1 + f(n - 1); f(10)'
    return [{"source": prog, "args": ["--max-trace", str(m)], "oracle": {"oracle": "error_reported_no_crash"}} for m in sizes]


# ---- parser precedence: probes, not decoded counterexamples -----------------------------------
_BINOPS = [("*", 5), ("/", 5), ("%", 5), ("+", 6), ("-", 6), ("<<", 7), (">>", 7), ("<", 8), ("<=", 8), (">", 8), (">=", 8), ("in", 8),
           ("==", 9), ("!=", 9), ("&", 10), ("^", 11), ("|", 12), ("&&", 13), ("||", 14)]
_OPERANDS = [("7", "3", "2"), ("true", "false", "true"), ("1", "2", "true"), ('"a"', "{a: 1}", "{b: 2}"), ("2", "1", "0"), ("false", "1", "1")]


@adapter("parser_prec")
def _parser_prec(vals, v):
    """`a op1 b op2 c` must mean the same as its parenthesised form per the Jsonnet precedence table
    (the property's own wording).  All 19 x 19 operator pairs x a few operand triples; plus unary."""
    cases = []
    for (o1, l1) in _BINOPS:
        for (o2, l2) in _BINOPS:
            for (a, b, c) in _OPERANDS:
                plain = "%s %s %s %s %s" % (a, o1, b, o2, c)
                par = "(%s %s %s) %s %s" % (a, o1, b, o2, c) if l1 <= l2 else "%s %s (%s %s %s)" % (a, o1, b, o2, c)
                cases.append({"source": plain, "oracle": {"oracle": "same_outcome_as", "other_source": par}})
    for u in ("-", "+", "~", "!"):
        for (o, _) in _BINOPS:
            for (a, b) in (("5", "3"), ("true", "false"), ("1", "true")):
                cases.append({"source": "%s%s %s %s" % (u, a, o, b), "oracle": {"oracle": "same_outcome_as", "other_source": "(%s%s) %s %s" % (u, a, o, b)}})
                cases.append({"source": "%s %s %s%s" % (a, o, u, b), "oracle": {"oracle": "same_outcome_as", "other_source": "%s %s (%s%s)" % (a, o, u, b)}})
    cases.append({"source": '{ x: "a" in super in self }', "oracle": {"oracle": "same_outcome_as", "other_source": '{ x: ("a" in super) in self }'}})
    cases.append({"source": '{ x: "a" in super < 1 }', "oracle": {"oracle": "same_outcome_as", "other_source": '{ x: ("a" in super) < 1 }'}})
    cases.append({"source": '{ x: "a" in super == false }', "oracle": {"oracle": "same_outcome_as", "other_source": '{ x: ("a" in super) == false }'}})
    return cases


# ---- object layers: one self-checking program over every layering of <= 4 steps -----------------
@adapter("objlayers")
def _objlayers(vals, v):
    import itertools
    steps = {"d": "%s + {a: 1}", "h": "%s + {a:: 1}", "v": "%s + {a::: 1}", "e": "%s + {}", "r": 'std.objectRemoveKey(%s, "a")'}
    recs = []
    for n in range(1, 5):
        for seq in itertools.product("dhver", repeat=n):
            e = "{b: 0}"
            for st in seq:
                e = "(" + steps[st] % e + ")"
            recs.append('local o = %s; { seq: "%s", has: std.objectHas(o, "a"), hasAll: std.objectHasAll(o, "a"), inop: "a" in o, '
                        'fields: std.member(std.objectFields(o), "a"), fieldsAll: std.member(std.objectFieldsAll(o), "a"), '
                        'len: std.length(o), nfields: std.length(std.objectFields(o)), manifested: std.member(std.objectFields(std.parseJson(std.manifestJsonMinified(o))), "a"), '
                        'b_ok: std.objectHas(o, "b") && o.b == 0, '
                        'ok: self.has == self.fields && self.has == self.manifested && self.hasAll == self.fieldsAll && self.hasAll == self.inop && self.len == self.nfields && self.b_ok && (!self.has || self.hasAll) }'
                        % (e, "".join(seq)))
    src = "[\n" + ",\n".join(recs) + "\n]"
    return [{"source": src, "oracle": {"oracle": "json_self_check", "field": "ok"}}]
