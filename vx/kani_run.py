"""Run Kani (standalone, single file) on one harness of a generated unit and parse CBMC's
per-check results.  One process group per harness, wall-clock cap and RSS cap enforced by
a watchdog; anything that is not a clean SUCCESS / FAILURE is reported as `undecided`."""
import os
import re
import signal
import subprocess
import threading
import time

CHECK_RE = re.compile(
    r"^Check (\d+): (\S+)\n\t - Status: (\w+)\n\t - Description: \"(.*?)\"\n\t - Location: (.*?)$",
    re.M | re.S)
LABEL_RE = re.compile(r"^(C\d\d(?:,C\d\d)*|canary):([A-Za-z0-9_\-]+):(.+)$")


def _rss_of_group(pgid):
    total = 0
    try:
        for d in os.listdir("/proc"):
            if not d.isdigit():
                continue
            try:
                with open("/proc/%s/stat" % d) as f:
                    st = f.read()
                # pgrp is field 5; comm may contain spaces -> split after ')'
                rest = st[st.rindex(")") + 2:].split()
                if int(rest[2]) != pgid:
                    continue
                with open("/proc/%s/statm" % d) as f:
                    total += int(f.read().split()[1]) * 4096
            except (OSError, ValueError, IndexError):
                continue
    except OSError:
        pass
    return total


def run_cmd(cmd, cwd, timeout, rss_cap=None, env=None):
    """returns (rc, output, wall, reason) ; reason in (None,'timeout','memory')"""
    t0 = time.time()
    p = subprocess.Popen(cmd, cwd=cwd, stdout=subprocess.PIPE, stderr=subprocess.STDOUT,
                         start_new_session=True, env=env, text=True, errors="replace")
    reason = [None]
    peak = [0]
    done = threading.Event()

    def watch():
        while not done.wait(1.0):
            if time.time() - t0 > timeout:
                reason[0] = "timeout"
            elif rss_cap:
                r = _rss_of_group(p.pid)
                peak[0] = max(peak[0], r)
                if r > rss_cap:
                    reason[0] = "memory"
            if reason[0]:
                try:
                    os.killpg(p.pid, signal.SIGKILL)
                except OSError:
                    pass
                return

    th = threading.Thread(target=watch, daemon=True)
    th.start()
    out, _ = p.communicate()
    done.set()
    th.join()
    # make sure no grandchildren (cbmc) survive
    try:
        os.killpg(p.pid, signal.SIGKILL)
    except OSError:
        pass
    return p.returncode, out, time.time() - t0, reason[0], peak[0]


def parse_checks(out):
    checks = []
    blocks = re.split(r"^Check (\d+): ", out, flags=re.M)
    # blocks = [pre, num, body, num, body, ...]
    for i in range(1, len(blocks) - 1, 2):
        num = blocks[i]
        body = blocks[i + 1]
        body = body.split("\n\n", 1)[0]
        lines = body.split("\n")
        name = lines[0].strip()
        status = desc = loc = None
        for ln in lines[1:]:
            ln = ln.strip()
            if ln.startswith("- Status: "):
                status = ln[len("- Status: "):].strip()
            elif ln.startswith("- Description: "):
                desc = ln[len("- Description: "):].strip()
                if desc.startswith('"') and desc.endswith('"'):
                    desc = desc[1:-1]
                desc = desc.strip('"')
            elif ln.startswith("- Location: "):
                loc = ln[len("- Location: "):].strip()
        if status is None:
            continue
        file_, line, func = None, None, None
        if loc:
            lm = re.match(r"(.*?):(\d+):(\d+) in function (.*)$", loc)
            if lm:
                file_, line, func = lm.group(1), int(lm.group(2)), lm.group(4)
        checks.append({"n": int(num), "name": name, "status": status, "desc": desc or "",
                       "file": file_, "line": line, "func": func, "loc": loc or ""})
    return checks


def parse_playback(out):
    """Kani prints ONE playback block per failed assertion AND per satisfied cover, each headed by
    /// Check for `assertion`|`cover`: "<description>".  Returns {description: [byte lists]} for the
    assertion blocks only (a cover's witness is not a counterexample: an earlier version returned a
    single block for the whole harness and so attached cover:utf8:4-byte-char's witness to two failed
    assertions and lost the witness of a failed unwrap)."""
    res = {}
    for m in re.finditer(r"/// Check for `(\w+)`: \"(.*?)\"\s*\n(.*?)let concrete_vals: Vec<Vec<u8>> = vec!\[(.*?)\n    \];", out, re.S):
        kind, desc, _, body = m.groups()
        if kind != "assertion":
            continue
        desc = desc.strip('"')
        vals = []
        for vm in re.finditer(r"vec!\[([0-9, ]*)\]", body):
            t = vm.group(1).strip()
            vals.append([int(x) for x in t.split(",") if x.strip()] if t else [])
        res.setdefault(desc, vals)
    return res


def playback_for(pb, check_desc):
    """the witness belonging to one failed check (exact description, else substring either way)"""
    if not pb:
        return None
    if check_desc in pb:
        return pb[check_desc]
    for d, v in pb.items():
        if d and (d in check_desc or check_desc in d):
            return v
    return None


def run_harness(unit_rs, harness, workdir, default_timeout=600, rss_cap=14 << 30, playback=None):
    """Two-phase: the deciding run is made WITHOUT concrete playback (measured: `-Z concrete-playback`
    makes CBMC extract a trace per property and slowed quick_sort_2_len4_at2_code13 from 17 s to 161 s of
    solver time); only a harness that FAILS is run a second time with playback switched on, to obtain the
    counterexample values.  If that second run does not finish, the failure stands without a witness."""
    if playback is None:
        res, out = run_harness(unit_rs, harness, workdir, default_timeout, rss_cap, playback=False)
        if res.get("outcome") == "fail" and harness.get("expect") != "fail":
            res2, out2 = run_harness(unit_rs, harness, workdir, default_timeout, rss_cap, playback=True)
            if res2.get("outcome") == "fail" and res2.get("playback"):
                res["playback"] = res2["playback"]
                res["playback_run_wall_s"] = res2["wall_s"]
            else:
                res["playback_run"] = "no witness: second run outcome=%s %s" % (res2.get("outcome"), res2.get("reason", ""))
        return res, out
    name = harness["name"]
    tdir = os.path.join(workdir, "t_" + name)
    cmd = ["kani", os.path.basename(unit_rs), "--harness", name, "--exact" if False else "--harness", name,
           "--target-dir", tdir]
    # (harness names are unique across a unit, the filter is a substring match on the path)
    # exact, fully qualified: a substring filter would also run pad_arr_ae2 for pad_arr_a
    cmd = ["kani", os.path.basename(unit_rs), "--harness", harness.get("prefix", "u::vharness::") + name, "--exact", "--target-dir", tdir]
    if playback:
        cmd += ["-Z", "concrete-playback", "--concrete-playback=print"]
    extra = harness.get("args")
    if extra:
        cmd += extra.split()
    timeout = int(harness.get("timeout", default_timeout))
    env = dict(os.environ)
    env["CARGO_NET_OFFLINE"] = "true"
    # same edition as the repository's crates (workspace edition = "2024")
    env["RUSTFLAGS"] = (env.get("RUSTFLAGS", "") + " --edition 2024").strip()
    rc, out, wall, reason, peak = run_cmd(cmd, os.path.dirname(unit_rs), timeout, rss_cap, env)
    res = {"harness": name, "cmd": " ".join(cmd), "wall_s": round(wall, 2), "rc": rc,
           "peak_rss_mb": peak >> 20,
           "raw_tail": (out[out.rindex("SUMMARY:"):] if "SUMMARY:" in out else out)[-6000:]}
    if reason:
        res["outcome"] = "undecided"
        res["reason"] = reason + (" after %ds" % timeout if reason == "timeout" else "")
        res["checks"] = []
        return res, out
    checks = parse_checks(out)
    res["checks"] = checks
    m = re.search(r"^VERIFICATION:- (\w+)", out, re.M)
    verdict = m.group(1) if m else None
    res["verdict"] = verdict
    mt = re.search(r"^Verification Time: ([0-9.]+)s", out, re.M)
    res["solver_s"] = float(mt.group(1)) if mt else None
    res["stubs"] = re.findall(r"^\s*- Stub: (.*)$", out, re.M)
    if verdict is None:
        res["outcome"] = "undecided"
        if "error" in out and "aborting due to" in out or "error[" in out or "error:" in out:
            em = re.search(r"^(error.*?)$", out, re.M)
            res["reason"] = "unit does not compile / kani error: " + (em.group(1) if em else "?")
        else:
            res["reason"] = "no verdict from kani (rc=%s)" % rc
        return res, out
    failed = [c for c in checks if c["status"] == "FAILURE"]
    # Checks located inside CBMC's own C models of libm (<builtin-library-sqrt> etc.: "NaN on
    # division" inside the model of sqrt) are properties of the model, not obligations of the code
    # under verification; they are dropped and counted (the libm result itself is then simply an
    # arbitrary double as far as the proof is concerned).
    lib_internal = [c for c in failed if c["loc"].startswith("<builtin-library-")]
    if lib_internal:
        failed = [c for c in failed if not c["loc"].startswith("<builtin-library-")]
        res["ignored_cbmc_library_model_checks"] = len(lib_internal)
        if not failed and verdict == "FAILED":
            verdict = "SUCCESSFUL"
    undet = [c for c in checks if c["status"] == "UNDETERMINED"]
    unwind_fail = [c for c in failed if "unwinding assertion" in c["desc"]]
    res["failed"] = failed
    if unwind_fail:
        res["outcome"] = "undecided"
        res["reason"] = "unwinding assertion failed (bound too small): " + unwind_fail[0]["loc"]
    elif verdict == "SUCCESSFUL":
        res["outcome"] = "pass"
    elif failed:
        res["outcome"] = "fail"
        res["playback"] = parse_playback(out)
    else:
        res["outcome"] = "undecided"
        res["reason"] = "verdict %s without failed checks (%d undetermined)" % (verdict, len(undet))
    return res, out
