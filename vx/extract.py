"""Mechanical, verbatim extraction of Rust items / methods / statement slices from the
current /repo working tree into a verification unit.

A unit template (units/<u>/unit.rs) is a Rust file with directive lines:

  //@extract file=<path under repo> whole [drop=<kw>:<name>,...]
  //@extract file=<path> item=<kw>:<name>[/<kw>:<name>...]        (path of nested items)
  //@extract file=<path> impl=<Type> [trait=<Trait>] methods=a,b,c (re-wrapped in the real impl header)
  //@extract file=<path> in=<item path> arm="<tokens>" [nth=k]      (match-arm body, braces included)
  //@extract file=<path> in=<item path> from="<tokens>" [to="<tokens>"] [nth=k] [tonth=k]
                                                                  (statement range, verbatim)
  //@harness props=C14,C01 strength=proof|bounded [bound="..."] [tier=quick|thorough]
             [timeout=secs] [expect=pass|fail] [args="extra kani args"] [clause="..."]

Everything emitted for an //@extract line is the byte-for-byte text of the named fragment in
the working tree (for `methods=` the fragments are wrapped in the real impl header, also
copied verbatim).  Nothing is rewritten.  A fragment that cannot be located raises
LostAnchor (driver: exit 2, never an alarm).
"""
import hashlib
import os
import re
import shlex

from rusttok import (tokenize, WS, COMMENT, IDENT, PUNCT, STRING, LIFETIME, CHAR, NUMBER)

ITEM_KW = {"fn", "struct", "enum", "trait", "mod", "const", "static", "type", "union", "impl", "use", "macro_rules"}
PREFIX_WORDS = {"pub", "const", "unsafe", "async", "extern", "default", "crate", "super", "in", "self"}


class LostAnchor(Exception):
    pass


class Source:
    def __init__(self, path, text=None):
        self.path = path
        self.text = open(path, encoding="utf-8").read() if text is None else text
        self.toks = tokenize(self.text)
        self.sig = [k for k, t in enumerate(self.toks) if t.kind not in (WS, COMMENT)]
        # bracket matching over significant-token positions
        self.match = {}
        stack = []
        pairs = {")": "(", "]": "[", "}": "{"}
        for p, k in enumerate(self.sig):
            t = self.toks[k]
            if t.kind != PUNCT:
                continue
            if t.text in "([{":
                stack.append((t.text, p))
            elif t.text in ")]}":
                if not stack or stack[-1][0] != pairs[t.text]:
                    raise LostAnchor("%s: unbalanced %r at line %d" % (path, t.text, t.line))
                _, q = stack.pop()
                self.match[q] = p
                self.match[p] = q
        if stack:
            raise LostAnchor("%s: unbalanced brackets" % path)

    # -- helpers over significant positions -------------------------------------------
    def t(self, p):
        return self.toks[self.sig[p]]

    def n(self):
        return len(self.sig)

    def item_end(self, p_kw):
        """position (significant) of the last token of the item whose keyword is at p_kw"""
        kw = self.t(p_kw).text
        p = p_kw + 1
        n = self.n()
        while p < n:
            tx = self.t(p)
            if tx.kind == PUNCT:
                if tx.text in "([":
                    p = self.match[p] + 1
                    continue
                if tx.text == "{":
                    if kw in ("const", "static", "type", "use"):
                        p = self.match[p] + 1
                        continue
                    close = self.match[p]
                    return p, close, close
                if tx.text == ";":
                    return None, None, p
            p += 1
        raise LostAnchor("%s: item at line %d has no end" % (self.path, self.t(p_kw).line))

    def item_start_offset(self, p_kw):
        """text offset where the item (attributes, doc comments, visibility) begins"""
        p = p_kw
        # walk back over prefix words / visibility parens / attributes
        while p > 0:
            q = p - 1
            tq = self.t(q)
            if tq.kind == IDENT and tq.text in PREFIX_WORDS:
                p = q
                continue
            if tq.kind == STRING and q > 0 and self.t(q - 1).text == "extern":
                p = q
                continue
            if tq.kind == PUNCT and tq.text == ")" and self.match.get(q) is not None:
                o = self.match[q]
                if o > 0 and self.t(o - 1).text == "pub":
                    p = o
                    continue
            if tq.kind == PUNCT and tq.text == "]" and self.match.get(q) is not None:
                o = self.match[q]
                if o > 0 and self.t(o - 1).text == "#":
                    p = o - 1
                    continue
            break
        k = self.sig[p]
        # include directly preceding doc comments (/// or /** */) on their own lines
        kk = k
        while kk > 0:
            prev = self.toks[kk - 1]
            if prev.kind == WS and prev.text.count("\n") <= 1:
                if kk - 2 >= 0 and self.toks[kk - 2].kind == COMMENT and self.toks[kk - 2].text.startswith(("///", "/**")):
                    kk -= 2
                    continue
            break
        return self.toks[kk].start

    def _is_item_position(self, p):
        """token at p is a keyword in item position (not e.g. `impl Trait` in a type)"""
        if p == 0:
            return True
        prev = self.t(p - 1)
        if prev.kind == PUNCT and prev.text in "};]{":
            return True
        if prev.kind == IDENT and prev.text in PREFIX_WORDS:
            return True
        if prev.kind == PUNCT and prev.text == ")":
            o = self.match[p - 1]
            return o > 0 and self.t(o - 1).text == "pub"
        if prev.kind == STRING:
            return True
        return False

    def find_items(self, kw, name, lo=0, hi=None):
        """all items `kw name` whose keyword lies in significant range [lo, hi)"""
        hi = self.n() if hi is None else hi
        out = []
        p = lo
        while p < hi - 1:
            tx = self.t(p)
            if tx.kind == IDENT and tx.text == kw and kw != "impl":
                nx = self.t(p + 1)
                if nx.kind == IDENT and nx.text == name and self._is_item_position(p):
                    out.append(p)
            p += 1
        return out

    def find_impls(self, type_name, trait=None, lo=0, hi=None):
        hi = self.n() if hi is None else hi
        out = []
        for p in range(lo, hi):
            tx = self.t(p)
            if not (tx.kind == IDENT and tx.text == "impl" and self._is_item_position(p)):
                continue
            hdr = self.impl_header(p)
            if hdr is None:
                continue
            tr, ty, p_open = hdr
            if ty == type_name and tr == trait:
                out.append(p)
        return out

    def impl_header(self, p_impl):
        """(trait name or None, self type name, position of '{')"""
        p = p_impl + 1
        n = self.n()
        # skip impl generics
        if self.t(p).text == "<":
            p = self._skip_angles(p)
        toks = []
        while p < n:
            tx = self.t(p)
            if tx.kind == PUNCT and tx.text == "{":
                break
            if tx.kind == PUNCT and tx.text in "([":
                p = self.match[p] + 1
                continue
            if tx.kind == PUNCT and tx.text == ";":
                return None
            toks.append(p)
            p += 1
        else:
            return None
        p_open = p
        # split at `for` (angle depth 0) and cut `where`
        depth = 0
        for_at = None
        end = len(toks)
        for i, q in enumerate(toks):
            tq = self.t(q)
            if tq.kind == PUNCT and tq.text == "<":
                depth += 1
            elif tq.kind == PUNCT and tq.text == ">" and not (q > 0 and self.t(q - 1).text == "-"):
                depth -= 1
            elif tq.kind == IDENT and depth == 0 and tq.text == "for" and for_at is None:
                for_at = i
            elif tq.kind == IDENT and depth == 0 and tq.text == "where":
                end = i
                break

        def head_name(seq):
            # last identifier of the leading path, before the first '<'
            name = None
            for q in seq:
                tq = self.t(q)
                if tq.kind == IDENT:
                    name = tq.text
                elif tq.kind == PUNCT and tq.text == "<":
                    break
                elif tq.kind == PUNCT and tq.text in ":&!":
                    continue
                elif tq.kind == LIFETIME:
                    continue
            return name

        if for_at is None:
            return None, head_name(toks[:end]), p_open
        return head_name(toks[:for_at]), head_name(toks[for_at + 1:end]), p_open

    def _skip_angles(self, p):
        depth = 0
        n = self.n()
        while p < n:
            tx = self.t(p)
            if tx.kind == PUNCT and tx.text == "<":
                depth += 1
            elif tx.kind == PUNCT and tx.text == ">" and self.t(p - 1).text != "-":
                depth -= 1
                if depth == 0:
                    return p + 1
            elif tx.kind == PUNCT and tx.text in "([{":
                p = self.match[p]
            p += 1
        raise LostAnchor("unbalanced <>")

    # -- path resolution ---------------------------------------------------------------
    def resolve(self, path, lo=0, hi=None):
        """path: 'impl:Evaluator/fn:run' or 'fn:decode_base64/fn:chr_to_index'.
        Returns (p_kw, p_open, p_close, p_end). For impl segments every impl block of that
        type is searched."""
        ranges = [(lo, self.n() if hi is None else hi)]
        segs = path.split("/")
        found = None
        for si, seg in enumerate(segs):
            kw, _, name = seg.partition(":")
            cands = []
            for (a, b) in ranges:
                if kw == "impl":
                    trait = None
                    if " for " in name:
                        trait, _, name_ = name.partition(" for ")
                        cands += self.find_impls(name_.strip(), trait.strip(), a, b)
                    else:
                        cands += self.find_impls(name, None, a, b)
                else:
                    cands += self.find_items(kw, name, a, b)
            if not cands:
                raise LostAnchor("%s: cannot find `%s` (segment %d of %s)" % (self.path, seg, si + 1, path))
            last = si == len(segs) - 1
            if last:
                if len(cands) > 1 and kw != "impl":
                    # prefer the shallowest; ambiguity is an error
                    raise LostAnchor("%s: `%s` is ambiguous (%d matches)" % (self.path, path, len(cands)))
                p_kw = cands[0]
                if kw == "impl":
                    p_open = self.impl_header(p_kw)[2]
                    return p_kw, p_open, self.match[p_open], self.match[p_open]
                p_open, p_close, p_end = self.item_end(p_kw)
                return p_kw, p_open, p_close, p_end
            ranges = []
            for c in cands:
                if kw == "impl":
                    p_open = self.impl_header(c)[2]
                    ranges.append((p_open + 1, self.match[p_open]))
                else:
                    p_open, p_close, _ = self.item_end(c)
                    if p_open is not None:
                        ranges.append((p_open + 1, p_close))
        return found

    def item_text(self, p_kw, p_end):
        a = self.item_start_offset(p_kw)
        b = self.toks[self.sig[p_end]].end
        return a, b

    def lines(self, a, b):
        return self.text.count("\n", 0, a) + 1, self.text.count("\n", 0, b) + 1

    # -- token-sequence anchors --------------------------------------------------------
    def find_seq(self, anchor, lo, hi, nth=1):
        want = [t.text for t in tokenize(anchor) if t.kind not in (WS, COMMENT)]
        hits = []
        p = lo
        while p + len(want) <= hi:
            if all(self.t(p + i).text == want[i] for i in range(len(want))):
                hits.append(p)
            p += 1
        if len(hits) < nth:
            raise LostAnchor("%s: anchor %r not found (%d hits, wanted #%d)" % (self.path, anchor, len(hits), nth))
        return hits[nth - 1], len(want)

    def stmt_end(self, p, hi):
        """position of the last token of the statement starting at p (inside a block)"""
        first = self.t(p).text
        block_like = first in ("if", "match", "while", "for", "loop", "{", "unsafe") or self.t(p).kind == LIFETIME
        q = p
        while q < hi:
            tx = self.t(q)
            if tx.kind == PUNCT and tx.text in "([":
                q = self.match[q] + 1
                continue
            if tx.kind == PUNCT and tx.text == "{":
                c = self.match[q]
                if block_like:
                    nxt = self.t(c + 1) if c + 1 < hi else None
                    if nxt is not None and nxt.kind == IDENT and nxt.text == "else":
                        q = c + 1
                        continue
                    if nxt is not None and nxt.kind == PUNCT and nxt.text in ".?":
                        block_like = False
                        q = c + 1
                        continue
                    return c
                q = c + 1
                continue
            if tx.kind == PUNCT and tx.text == ";":
                return q
            q += 1
        return hi - 1


def _parse_directive(line):
    body = line.split(None, 1)[1] if len(line.split(None, 1)) > 1 else ""
    out = {}
    for part in shlex.split(body):
        if "=" in part:
            k, v = part.split("=", 1)
            out[k] = v
        else:
            out[part] = True
    return out


class UnitBuild:
    def __init__(self):
        self.text = ""
        self.fragments = []   # dict(origin, sha256, kind, what)
        self.harnesses = []   # dict(name, props, strength, ...)
        self.includes = []
        self.line_origin = []  # (first_line, last_line, file, src_first_line) of extracted text in the unit


_SRC_CACHE = {}


def load(repo, rel):
    p = os.path.join(repo, rel)
    st = os.stat(p)
    key = (p, st.st_mtime_ns, st.st_size)
    if key not in _SRC_CACHE:
        _SRC_CACHE[key] = Source(p)
    return _SRC_CACHE[key]


def build_unit(template_path, repo):
    ub = UnitBuild()
    out = []
    cur_line = 1
    pending_h = None
    tmpl = open(template_path, encoding="utf-8").read().split("\n")
    for ln in tmpl:
        s = ln.strip()
        if s.startswith("//@extract"):
            d = _parse_directive(s)
            try:
                frag_text, frags = extract_fragment(repo, d)
            except LostAnchor:
                if not d.get("optional"):
                    raise
                # `optional`: an item the extracted code may or may not reference (a helper
                # constant); absent => nothing emitted, a dangling reference then fails to compile
                frag_text, frags = "// (optional fragment not present in the current tree)", []
            nlines = frag_text.count("\n") + 1
            for f in frags:
                f["unit_lines"] = [cur_line + f.pop("_rel_line"), cur_line + f.pop("_rel_line_end")]
                ub.fragments.append(f)
            out.append(frag_text)
            cur_line += nlines
            continue
        if s.startswith("//@include"):
            inc = s.split(None, 1)[1].strip()
            itxt = open(os.path.join(os.path.dirname(os.path.dirname(os.path.abspath(__file__))), inc), encoding="utf-8").read().rstrip("\n")
            ub.includes.append({"file": inc, "sha256": hashlib.sha256(itxt.encode()).hexdigest()[:16]})
            out.append(itxt)
            cur_line += itxt.count("\n") + 1
            continue
        if s.startswith("//@harness-prefix"):
            # module path of the harness functions in this unit (default u::vharness::); a harness
            # module nested inside the module of the extracted text can name its private items
            ub.prefix = s.split(None, 1)[1].strip()
            out.append(ln)
            cur_line += 1
            continue
        if s.startswith("//@harness"):
            pending_h = _parse_directive(s)
            pending_h["prefix"] = getattr(ub, "prefix", "u::vharness::")
            if "name" in pending_h:      # macro-generated harness: name given explicitly
                pending_h["props"] = pending_h.get("props", "").split(",")
                ub.harnesses.append(pending_h)
                pending_h = None
        elif pending_h is not None:
            m = re.match(r"\s*(?:pub\s+)?fn\s+([A-Za-z0-9_]+)", ln)
            if m:
                pending_h["name"] = m.group(1)
                pending_h["props"] = pending_h.get("props", "").split(",")
                ub.harnesses.append(pending_h)
                pending_h = None
        out.append(ln)
        cur_line += 1
    ub.text = "\n".join(out)
    return ub


def extract_fragment(repo, d):
    src = load(repo, d["file"])
    rel = d["file"]

    def frag(a, b, kind, what, rel_line=0, rel_line_end=0):
        l0, l1 = src.lines(a, b)
        txt = src.text[a:b]
        return {"origin": "%s:%d-%d" % (rel, l0, l1), "kind": kind, "what": what,
                "sha256": hashlib.sha256(txt.encode()).hexdigest()[:16],
                "_rel_line": rel_line, "_rel_line_end": rel_line_end}

    if d.get("whole"):
        text = src.text
        cuts = []
        for spec in filter(None, d.get("drop", "").split(",")):
            p_kw, p_open, p_close, p_end = src.resolve(spec.replace(".", "/"))
            a, b = src.item_text(p_kw, p_end)
            cuts.append((a, b))
        # dropuse=<path prefix>[,<path prefix>]: drop the top-level `use` declarations whose path starts
        # with the prefix (the names they import are then bound by the unit's prelude to a shim of the
        # same name); recorded in the fragment description
        for pref in filter(None, d.get("dropuse", "").split(",")):
            want = [t.text for t in tokenize(pref) if t.kind not in (WS, COMMENT)]
            hit = 0
            for p in range(src.n()):
                tx = src.t(p)
                if tx.kind == IDENT and tx.text == "use" and src._is_item_position(p) and \
                        [src.t(p + 1 + i).text for i in range(len(want)) if p + 1 + i < src.n()] == want:
                    _, _, p_end = src.item_end(p)
                    a, b = src.item_text(p, p_end)
                    cuts.append((a, b))
                    hit += 1
            if hit == 0:
                raise LostAnchor("%s: no `use %s...` declaration to drop" % (rel, pref))
        cuts.sort()
        pieces = []
        pos = 0
        for a, b in cuts:
            pieces.append(text[pos:a])
            # keep line structure so that unit line numbers map 1:1 onto the file
            pieces.append("\n" * text.count("\n", a, b))
            pos = b
        pieces.append(text[pos:])
        body = "".join(pieces)
        f = frag(0, len(text), "whole-file", rel + (" minus " + d["drop"] if d.get("drop") else "") + (" minus `use " + d["dropuse"] + "..`" if d.get("dropuse") else ""),
                 0, body.count("\n"))
        return body, [f]

    if "fields" in d:
        # //@extract file=.. struct=<Name> fields=a,b : the named field declarations of the real struct, verbatim
        # (`name: Type,`, visibility dropped), to be spliced into a shim receiver so that the field's TYPE follows
        # the real code
        p_kw, p_open, p_close, _ = src.resolve("struct:" + d["struct"])
        if p_open is None:
            raise LostAnchor("%s: struct %s has no body" % (rel, d["struct"]))
        decls = {}
        start = p_open + 1
        depth = 0
        p = p_open + 1
        angle = 0
        while p <= p_close:
            t = src.t(p)
            if t.kind == PUNCT and t.text in "([{":
                p = src.match[p] + 1
                continue
            if t.kind == PUNCT and t.text == "<":
                angle += 1
            elif t.kind == PUNCT and t.text == ">" and src.t(p - 1).text != "-":
                angle -= 1
            if (t.kind == PUNCT and t.text == "," and angle == 0) or p == p_close:
                ks = list(range(start, p))
                # strip attributes / visibility
                i = 0
                while i < len(ks):
                    tx = src.t(ks[i]).text
                    if tx == "#":
                        i = ks.index(src.match[ks[i + 1]]) + 1
                        continue
                    if tx == "pub":
                        i += 1
                        if i < len(ks) and src.t(ks[i]).text == "(":
                            i = ks.index(src.match[ks[i]]) + 1
                        continue
                    break
                ks = ks[i:]
                if len(ks) >= 3 and src.t(ks[1]).text == ":":
                    decls[src.t(ks[0]).text] = (ks[0], ks[-1])
                start = p + 1
            p += 1
        out, frags, line = [], [], 0
        for name in d["fields"].split(","):
            if name not in decls:
                raise LostAnchor("%s: struct %s has no field %s" % (rel, d["struct"], name))
            a = src.toks[src.sig[decls[name][0]]].start
            b = src.toks[src.sig[decls[name][1]]].end
            txt = "    " + src.text[a:b] + ","
            frags.append(frag(a, b, "field", "%s.%s" % (d["struct"], name), line, line))
            out.append(txt)
            line += 1
        return "\n".join(out), frags

    if "methods" in d:
        impl_t = d["impl"]
        trait = d.get("trait")
        impls = src.find_impls(impl_t, trait)
        if not impls:
            raise LostAnchor("%s: no `impl %s`" % (rel, impl_t))
        names = d["methods"].split(",")
        chunks = []
        frags = []
        header = None
        line = 0
        for name in names:
            hit = None
            for p_impl in impls:
                p_open = src.impl_header(p_impl)[2]
                c = src.find_items("fn", name, p_open + 1, src.match[p_open])
                # only methods directly in the impl body (depth 1)
                c = [p for p in c if _depth_in(src, p, p_open) == 1]
                if c:
                    if hit is not None or len(c) > 1:
                        raise LostAnchor("%s: method %s::%s ambiguous" % (rel, impl_t, name))
                    hit = (p_impl, c[0])
            if hit is None:
                raise LostAnchor("%s: method %s::%s not found" % (rel, impl_t, name))
            p_impl, p_fn = hit
            p_open = src.impl_header(p_impl)[2]
            h = src.text[src.toks[src.sig[p_impl]].start:src.toks[src.sig[p_open]].end]
            if header is None:
                header = h
                line = header.count("\n") + 1
            elif _norm(h) != _norm(header):
                raise LostAnchor("%s: methods of %s come from impl blocks with different headers" % (rel, impl_t))
            _, _, p_end = src.item_end(p_fn)
            a, b = src.item_text(p_fn, p_end)
            txt = "    " + src.text[a:b]
            f = frag(a, b, "method", "%s::%s" % (impl_t, name), line, line + txt.count("\n"))
            frags.append(f)
            chunks.append(txt)
            line += txt.count("\n") + 2
        body = header + "\n" + "\n\n".join(chunks) + "\n}"
        return body, frags

    if "item" in d and "in" not in d:
        p_kw, p_open, p_close, p_end = src.resolve(d["item"])
        a, b = src.item_text(p_kw, p_end)
        txt = src.text[a:b]
        return txt, [frag(a, b, "item", d["item"], 0, txt.count("\n"))]

    # slices inside an enclosing item
    p_kw, p_open, p_close, p_end = src.resolve(d["in"])
    if p_open is None:
        raise LostAnchor("%s: %s has no body" % (rel, d["in"]))
    lo, hi = p_open + 1, p_close
    nth = int(d.get("nth", 1))
    if "item" in d:
        sub = src.resolve(d["item"], lo, hi)
        a, b = src.item_text(sub[0], sub[3])
        txt = src.text[a:b]
        return txt, [frag(a, b, "nested-item", d["in"] + "/" + d["item"], 0, txt.count("\n"))]
    if "arm" in d:
        # occurrences of the pattern that are really arm heads: directly followed by `=>`, a guard
        # (`if`) or an alternative (`|`); falls back to plain occurrences if there is none
        want_n = len([t for t in tokenize(d["arm"]) if t.kind not in (WS, COMMENT)])
        heads = []
        k = 1
        while True:
            try:
                hp, hl = src.find_seq(d["arm"], lo, hi, k)
            except LostAnchor:
                break
            nx = src.t(hp + hl)
            if (nx.text == "=" and src.t(hp + hl + 1).text == ">") or (nx.kind == IDENT and nx.text == "if") or nx.text == "|":
                heads.append((hp, hl))
            k += 1
        if heads:
            if len(heads) < nth:
                raise LostAnchor("%s: arm %r: %d arm heads, wanted #%d" % (rel, d["arm"], len(heads), nth))
            p, ln = heads[nth - 1]
        else:
            p, ln = src.find_seq(d["arm"], lo, hi, nth)
        # find `=>` at the same depth after the pattern
        q = p + ln
        while q < hi:
            tx = src.t(q)
            if tx.kind == PUNCT and tx.text in "([{":
                q = src.match[q] + 1
                continue
            if tx.kind == PUNCT and tx.text == "=" and src.t(q + 1).text == ">":
                break
            q += 1
        else:
            raise LostAnchor("%s: no => after arm %r" % (rel, d["arm"]))
        b0 = q + 2
        if src.t(b0).text == "{":
            e = src.match[b0]
        else:
            e = b0
            while e < hi:
                tx = src.t(e)
                if tx.kind == PUNCT and tx.text in "([{":
                    e = src.match[e] + 1
                    continue
                if tx.kind == PUNCT and tx.text == ",":
                    e -= 1
                    break
                e += 1
        a = src.toks[src.sig[b0]].start
        b = src.toks[src.sig[e]].end
        txt = src.text[a:b]
        return txt, [frag(a, b, "match-arm", "%s arm %s" % (d["in"], d["arm"]), 0, txt.count("\n"))]
    if "from" in d:
        p, ln = src.find_seq(d["from"], lo, hi, nth)
        if "to" in d:
            # first occurrence of `to` at or after `from` (or #tonth)
            q, _ = src.find_seq(d["to"], p, hi, int(d.get("tonth", 1)))
        else:
            q = p
        e = src.stmt_end(q, hi)
        if d.get("open"):
            # stop right after the `{` that opens the block of statement q (loop header etc.)
            pass
        a = src.toks[src.sig[p]].start
        b = src.toks[src.sig[e]].end
        txt = src.text[a:b]
        return txt, [frag(a, b, "stmt-slice", "%s from %r to %r" % (d["in"], d["from"], d.get("to", d["from"])),
                          0, txt.count("\n"))]
    raise LostAnchor("bad directive %r" % d)


def _depth_in(src, p, p_open):
    """brace depth of position p relative to the '{' at p_open (1 = directly inside)"""
    depth = 0
    q = p_open
    while q < p:
        tx = src.t(q)
        if tx.kind == PUNCT and tx.text == "{":
            c = src.match[q]
            if c < p:
                q = c + 1
                continue
            depth += 1
        q += 1
    return depth


def _norm(s):
    return " ".join(s.split())


if __name__ == "__main__":
    import sys
    import json
    ub = build_unit(sys.argv[1], sys.argv[2] if len(sys.argv) > 2 else "/repo")
    sys.stdout.write(ub.text)
    sys.stderr.write(json.dumps({"fragments": ub.fragments, "harnesses": ub.harnesses}, indent=1) + "\n")
