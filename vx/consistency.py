#!/usr/bin/env python3
"""Consistency pass before committing evidence: for every claimed property the evidence file exists, validates
against the schema's required keys, its level equals the manifest category, discharged == obligations, nothing undecided."""
import json, os, sys
ROOT = os.path.dirname(os.path.dirname(os.path.abspath(__file__)))
m = json.load(open(os.path.join(ROOT, "MANIFEST.json")))
bad = 0
for c in m["checks"]:
    p = c["property_id"]
    f = os.path.join(ROOT, "evidence", p + ".json")
    if not os.path.exists(f):
        print(p, "NO EVIDENCE"); bad = 1; continue
    e = json.load(open(f))
    cov = e["coverage"]
    msg = []
    if e["level"] != c["level_claimed"]["category"]:
        msg.append("level %s != claimed %s" % (e["level"], c["level_claimed"]["category"]))
    rule = cov.get("level_by_count_rule_this_run")
    if rule and rule != c["level_claimed"]["category"]:
        msg.append("count rule says %s, claimed %s: change claims.json" % (rule, c["level_claimed"]["category"]))
    if cov.get("obligations") != cov.get("discharged"):
        msg.append("discharged %s != obligations %s" % (cov.get("discharged"), cov.get("obligations")))
    if cov.get("bounded_obligations") != cov.get("bounded_discharged"):
        msg.append("bounded discharged mismatch")
    if cov.get("undecided"):
        msg.append("undecided: %d" % len(cov["undecided"]))
    if e.get("violations"):
        msg.append("violations: %d" % e["violations"])
    if e["level"] == "proof" and not cov.get("obligations"):
        msg.append("proof with zero obligations")
    print(p, e["level"], "proof %s/%s bounded %s/%s wall %ss" % (cov.get("discharged"), cov.get("obligations"), cov.get("bounded_discharged"), cov.get("bounded_obligations"), e["wall_s"]), "; ".join(msg) or "ok")
    bad |= bool(msg)
sys.exit(bad)
