// Unit parser: operator precedence / associativity machinery of the parser.  Extracted verbatim:
// parser/mod.rs (Parser, its token cursor and eat_/peek_ primitives), parser/error.rs, token.rs and
// ast.rs WHOLE; from parser/expr.rs the nested types of parse_expr (BinOpKind, State, StackItem,
// next_state, init_state) and the arms of its state machine that implement binary and unary
// operators.  Hand-written environment: arena (bumpalo), string interner, span manager (contract
// shim).  NOT in this unit: the driver loop of parse_expr that dispatches to the arms, primary
// expressions, suffixes, objects, comprehensions (an attempt to run the whole parser on 6 tokens
// did not finish symbolic execution in 25 min).
#![allow(dead_code, unused)]
pub mod arena {
    // shim for bumpalo: every allocation is a leaked Box (same observable contract: a stable
    // shared reference to a copy of the value)
    pub struct Arena;
    impl Arena {
        pub fn new() -> Self { Arena }
        pub fn alloc<T: Copy>(&self, value: T) -> &T { Box::leak(Box::new(value)) }
        pub fn alloc_slice<T: Copy>(&self, slice: &[T]) -> &[T] {
            let mut v: Vec<T> = Vec::with_capacity(slice.len());
            let mut i = 0;
            while i < slice.len() { v.push(slice[i]); i += 1; }
            Box::leak(v.into_boxed_slice())
        }
        pub fn alloc_str(&self, value: &str) -> &str { Box::leak(String::from(value).into_boxed_str()) }
    }
}
pub mod interner {
    // shim: an interned string is a small id; `value()` is only used for error messages
    use crate::arena::Arena;
    use std::marker::PhantomData;
    #[derive(Copy, Clone, PartialEq, Eq, PartialOrd, Ord, Hash, Debug)]
    pub struct InternedStr<'a> { pub id: u8, pub _p: PhantomData<&'a ()> }
    impl<'a> InternedStr<'a> { pub fn value(&self) -> &'a str { "id" } }
    pub struct StrInterner<'a> { _p: PhantomData<&'a ()> }
    impl<'a> StrInterner<'a> {
        pub fn new() -> Self { StrInterner { _p: PhantomData } }
        pub fn intern(&self, arena: &'a Arena, value: &str) -> InternedStr<'a> { InternedStr { id: 200, _p: PhantomData } }
    }
}
pub mod span {
    // shim = the ASSUMED CONTRACT of the real SpanManager for spans of one file: a span id stands for
    // its (file, start, end) triple (that ids round-trip is what unit `span` checks on the real
    // span.rs); make_surrounding_span has the real function's two assertions as labelled
    // preconditions and returns (start of the first, end of the second).  The real span.rs cannot be
    // used here: its interned-span path (hashbrown) is not closed by any unwinding bound in CBMC.
    #[derive(Copy, Clone, PartialEq, Eq, PartialOrd, Ord, Hash, Debug)]
    pub struct SpanId { pub ctx: u8, pub start: u32, pub end: u32 }
    #[derive(Copy, Clone, Debug, PartialEq, Eq, PartialOrd, Ord, Hash)]
    pub struct SpanContextId(pub u8);
    pub struct SpanManager { n: u8 }
    impl SpanManager {
        pub fn new() -> Self { SpanManager { n: 0 } }
        pub fn insert_source_context(&mut self, len: usize) -> (SpanContextId, ()) { self.n += 1; (SpanContextId(self.n - 1), ()) }
        pub fn intern_span(&mut self, c: SpanContextId, start: usize, end: usize) -> SpanId { SpanId { ctx: c.0, start: start as u32, end: end as u32 } }
        pub fn get_span(&self, s: SpanId) -> (SpanContextId, usize, usize) { (SpanContextId(s.ctx), s.start as usize, s.end as usize) }
        pub(crate) fn make_surrounding_span(&mut self, a: SpanId, b: SpanId) -> SpanId {
            assert!(a.ctx == b.ctx, "C15,C01:parser:make-surrounding-span-requires-same-file");
            assert!(a.start <= b.end, "C15,C01:parser:make-surrounding-span-requires-start-le-end");
            SpanId { ctx: a.ctx, start: a.start, end: b.end }
        }
    }
}
pub mod token {
//@extract file=rsjsonnet-lang/src/token.rs whole
}
pub mod ast {
//@extract file=rsjsonnet-lang/src/ast.rs whole
}
pub mod parser {
//@extract file=rsjsonnet-lang/src/parser/mod.rs whole drop=mod:error,mod:expr
mod error {
//@extract file=rsjsonnet-lang/src/parser/error.rs whole
}
// The operator-precedence machinery of Parser::parse_expr: its nested types and the arms of its
// state machine, each extracted verbatim and wrapped as a method of the real Parser (the real
// eat_simple / peek_simple / next_token above are what the arms call).
pub mod pieces {
use super::{ExpectedToken, ParseError, Parser};
use crate::ast;
use crate::span::SpanId;
use crate::token::STokenKind;
//@extract file=rsjsonnet-lang/src/parser/expr.rs in=impl:Parser/fn:parse_expr item=enum:BinOpKind
//@extract file=rsjsonnet-lang/src/parser/expr.rs in=impl:Parser/fn:parse_expr item=enum:State
//@extract file=rsjsonnet-lang/src/parser/expr.rs in=impl:Parser/fn:parse_expr item=enum:StackItem
//@extract file=rsjsonnet-lang/src/parser/expr.rs in=impl:Parser/fn:parse_expr item=impl:BinOpKind
//@extract file=rsjsonnet-lang/src/parser/expr.rs in=impl:Parser/fn:parse_expr item=fn:init_state
pub type Stack<'p, 'ast> = Vec<StackItem<'p, 'ast>>;
pub fn the_init_state<'p, 'ast>() -> State<'p, 'ast> { init_state() }
pub fn the_next_state<'p, 'ast>(k: BinOpKind) -> State<'p, 'ast> { k.next_state() }
// wrapper shape: `state` starts as State::Primary (a value none of these arms assigns) and the arm
// body runs exactly once; a `continue` inside the arm leaves the one-shot loop.
impl<'p, 'ast> Parser<'_, 'p, 'ast> {
    pub fn arm_binary(&mut self, stack: &mut Stack<'p, 'ast>, kind: BinOpKind) -> State<'p, 'ast> {
        let mut state: State<'p, 'ast> = State::Primary;
        let mut first = true;
        loop { if !first { break; } first = false;
//@extract file=rsjsonnet-lang/src/parser/expr.rs in=impl:Parser/fn:parse_expr arm="State::Binary(kind)"
        break; }
        state
    }
    pub fn arm_binary_rhs(&mut self, stack: &mut Stack<'p, 'ast>, kind: BinOpKind, lhs: ast::Expr<'p, 'ast>) -> State<'p, 'ast> {
        let mut state: State<'p, 'ast> = State::Primary;
        let mut first = true;
        loop { if !first { break; } first = false;
//@extract file=rsjsonnet-lang/src/parser/expr.rs in=impl:Parser/fn:parse_expr arm="State::BinaryRhs(kind, lhs)"
        break; }
        state
    }
    pub fn arm_unary(&mut self, stack: &mut Stack<'p, 'ast>) -> State<'p, 'ast> {
        let mut state: State<'p, 'ast> = State::Unary;
        let mut first = true;
        loop { if !first { break; } first = false;
//@extract file=rsjsonnet-lang/src/parser/expr.rs in=impl:Parser/fn:parse_expr arm="State::Unary"
        break; }
        state
    }
    pub fn arm_parsed_binary_lhs(&mut self, kind: BinOpKind, expr: ast::Expr<'p, 'ast>) -> State<'p, 'ast> {
        let mut state: State<'p, 'ast> = State::Primary;
//@extract file=rsjsonnet-lang/src/parser/expr.rs in=impl:Parser/fn:parse_expr arm="Some(StackItem::BinaryLhs(kind))"
        state
    }
    pub fn arm_parsed_binary_rhs(&mut self, kind: BinOpKind, lhs: &'ast ast::Expr<'p, 'ast>, op: ast::BinaryOp, expr: ast::Expr<'p, 'ast>) -> State<'p, 'ast> {
        let mut state: State<'p, 'ast> = State::Primary;
//@extract file=rsjsonnet-lang/src/parser/expr.rs in=impl:Parser/fn:parse_expr arm="Some(StackItem::BinaryRhs(kind, lhs, op))"
        state
    }
    pub fn arm_parsed_unary(&mut self, op: ast::UnaryOp, op_span: SpanId, expr: ast::Expr<'p, 'ast>) -> State<'p, 'ast> {
        let mut state: State<'p, 'ast> = State::Primary;
//@extract file=rsjsonnet-lang/src/parser/expr.rs in=impl:Parser/fn:parse_expr arm="Some(StackItem::Unary(op, op_span))"
        state
    }
    // shim: the driver loop is not part of this unit (parse_root_expr above, never called by a harness, names it)
    pub(super) fn parse_expr(&mut self) -> Result<ast::Expr<'p, 'ast>, ParseError> { panic!("SHIM: parse_expr driver loop is not in this unit") }
    pub fn cur_kind(&self) -> crate::token::TokenKind<'p, 'ast> { self.curr_token.kind }
    pub fn cur_span(&self) -> SpanId { self.curr_token.span }
    pub fn expected_len(&self) -> usize { self.expected_things.len() }
    pub fn last_expected_is_binary_op(&self) -> bool { matches!(self.expected_things.last(), Some(ExpectedToken::BinaryOp)) }
    pub fn mgr(&self) -> &crate::span::SpanManager { &*self.span_mgr }
}
//@harness-prefix parser::pieces::vharness::
#[cfg(kani)]
pub mod vharness {
    use crate::arena::Arena;
    use crate::ast::{self, BinaryOp, Expr, ExprKind, UnaryOp};
    use crate::interner::{InternedStr, StrInterner};
    use super as pieces;
    use super::{BinOpKind, StackItem, State};
    use crate::parser::{ParseError, Parser};
    use crate::span::{SpanContextId, SpanId, SpanManager};
    use crate::token::{STokenKind as K, Token, TokenKind};
    use std::marker::PhantomData;

    // ---- specification: the Jsonnet precedence table (language reference, "Associativity and
    // operator precedence": 5: * / %   6: + -   7: << >>   8: < > <= >= in   9: == !=   10: &
    // 11: ^   12: |   13: &&   14: ||; all binary operators left-associative; unary operators bind
    // tighter than any binary one).  Written from the specification, not from the parser.
    fn spec_binop(k: K) -> Option<(u8, BinaryOp)> {
        Some(match k {
            K::Asterisk => (5, BinaryOp::Mul), K::Slash => (5, BinaryOp::Div), K::Percent => (5, BinaryOp::Rem),
            K::Plus => (6, BinaryOp::Add), K::Minus => (6, BinaryOp::Sub),
            K::LtLt => (7, BinaryOp::Shl), K::GtGt => (7, BinaryOp::Shr),
            K::Lt => (8, BinaryOp::Lt), K::LtEq => (8, BinaryOp::Le), K::Gt => (8, BinaryOp::Gt), K::GtEq => (8, BinaryOp::Ge), K::In => (8, BinaryOp::In),
            K::EqEq => (9, BinaryOp::Eq), K::ExclamEq => (9, BinaryOp::Ne),
            K::Amp => (10, BinaryOp::BitwiseAnd), K::Hat => (11, BinaryOp::BitwiseXor), K::Pipe => (12, BinaryOp::BitwiseOr),
            K::AmpAmp => (13, BinaryOp::LogicAnd), K::PipePipe => (14, BinaryOp::LogicOr),
            _ => return None,
        })
    }
    fn spec_unop(k: K) -> Option<UnaryOp> {
        Some(match k { K::Minus => UnaryOp::Minus, K::Plus => UnaryOp::Plus, K::Tilde => UnaryOp::BitwiseNot, K::Exclam => UnaryOp::LogicNot, _ => return None })
    }
    /// the parser's level object for a level of the specification's table
    fn level_of(kind: BinOpKind) -> u8 {
        match kind { BinOpKind::Mul => 5, BinOpKind::Add => 6, BinOpKind::Shift => 7, BinOpKind::OrdCmp => 8, BinOpKind::EqCmp => 9,
                     BinOpKind::BitwiseAnd => 10, BinOpKind::BitwiseXor => 11, BinOpKind::BitwiseOr => 12, BinOpKind::LogicAnd => 13, BinOpKind::LogicOr => 14 }
    }
    const KINDS: [BinOpKind; 10] = [BinOpKind::LogicOr, BinOpKind::LogicAnd, BinOpKind::BitwiseOr, BinOpKind::BitwiseXor, BinOpKind::BitwiseAnd,
        BinOpKind::EqCmp, BinOpKind::OrdCmp, BinOpKind::Shift, BinOpKind::Add, BinOpKind::Mul];
    fn any_level() -> BinOpKind { let i: usize = kani::any(); kani::assume(i < 10); KINDS[i] }
    const N_K: usize = 55;
    const ALL_K: [K; N_K] = [K::Assert, K::Else, K::Error, K::False, K::For, K::Function, K::If, K::Import, K::Importstr, K::Importbin, K::In, K::Local, K::Null,
        K::Tailstrict, K::Then, K::Self_, K::Super, K::True, K::Exclam, K::ExclamEq, K::Dollar, K::Percent, K::Amp, K::AmpAmp, K::LeftParen, K::RightParen,
        K::Asterisk, K::Plus, K::PlusColon, K::PlusColonColon, K::PlusColonColonColon, K::Comma, K::Minus, K::Dot, K::Slash, K::Colon, K::ColonColon,
        K::ColonColonColon, K::Semicolon, K::Lt, K::LtLt, K::LtEq, K::Eq, K::EqEq, K::Gt, K::GtEq, K::GtGt, K::LeftBracket, K::RightBracket, K::Hat,
        K::LeftBrace, K::Pipe, K::PipePipe, K::RightBrace, K::Tilde];
    fn any_simple() -> K { let i: usize = kani::any(); kani::assume(i < N_K); ALL_K[i] }
    fn ident<'p>(id: u8) -> TokenKind<'p, 'static> { TokenKind::Ident(InternedStr { id, _p: PhantomData }) }
    /// any token a parser can be looking at: every simple token, an identifier, a number, a string, `$op`, end of file
    fn any_token_kind() -> TokenKind<'static, 'static> {
        let sel: u8 = kani::any();
        match sel {
            0 => TokenKind::Simple(any_simple()),
            1 => ident(9),
            2 => TokenKind::Number(crate::token::Number { digits: "1", exp: 0 }),
            3 => TokenKind::String("s"),
            4 => TokenKind::OtherOp("=>"),
            _ => TokenKind::EndOfFile,
        }
    }

    struct Env { arena: Arena, ast_arena: Arena, si: StrInterner<'static>, m: SpanManager }
    /// source of 6 bytes; the expression parsed so far (`lhs`) is byte 0, the tokens ahead are bytes 1, 2, 3, then EOF
    fn setup() -> (&'static Arena, &'static Arena, &'static StrInterner<'static>, &'static mut SpanManager, SpanContextId, [SpanId; 5]) {
        let arena: &'static Arena = Box::leak(Box::new(Arena::new()));
        let ast_arena: &'static Arena = Box::leak(Box::new(Arena::new()));
        let si: &'static StrInterner<'static> = Box::leak(Box::new(StrInterner::new()));
        let m: &'static mut SpanManager = Box::leak(Box::new(SpanManager::new()));
        let (ctx, _) = m.insert_source_context(6);
        let sp = [m.intern_span(ctx, 0, 1), m.intern_span(ctx, 1, 2), m.intern_span(ctx, 2, 3), m.intern_span(ctx, 3, 4), m.intern_span(ctx, 4, 4)];
        (arena, ast_arena, si, m, ctx, sp)
    }
    fn parser_at(cur: TokenKind<'static, 'static>, n1: TokenKind<'static, 'static>, n2: TokenKind<'static, 'static>)
        -> (Parser<'static, 'static, 'static>, SpanContextId, [SpanId; 5]) {
        let (arena, ast_arena, si, m, ctx, sp) = setup();
        let mut toks = Vec::with_capacity(4);
        toks.push(Token { span: sp[1], kind: cur });
        toks.push(Token { span: sp[2], kind: n1 });
        toks.push(Token { span: sp[3], kind: n2 });
        toks.push(Token { span: sp[4], kind: TokenKind::EndOfFile });
        (Parser::new(arena, ast_arena, si, m, toks), ctx, sp)
    }
    fn leaf(id: u8, span: SpanId) -> Expr<'static, 'static> { Expr { kind: ExprKind::Ident(ast::Ident { value: InternedStr { id, _p: PhantomData }, span }), span } }
    fn is_leaf(e: &Expr<'_, '_>, id: u8) -> bool { matches!(e.kind, ExprKind::Ident(ast::Ident { value, .. }) if value.id == id) }
    fn state_level(s: &State<'_, '_>) -> Option<u8> { match s { State::Binary(k) => Some(level_of(*k)), _ => None } }

    //@harness props=C15 strength=proof clause="level chain: parsing starts at the loosest level (||, 14); the operand of level L is parsed at level L-1 for every L, and the operand of the tightest binary level (5: * / %) is a unary expression - so a tighter operator always ends up deeper in the tree"
    #[kani::proof]
    #[kani::unwind(6)]
    fn prec_level_chain() {
        assert!(state_level(&pieces::the_init_state()) == Some(14), "C15:parser:parsing-starts-at-the-loosest-level");
        let k = any_level();
        let l = level_of(k);
        match pieces::the_next_state(k) {
            State::Binary(n) => assert!(l > 5 && level_of(n) == l - 1, "C15:parser:operand-of-level-L-is-parsed-at-level-L-minus-1"),
            State::Unary => assert!(l == 5, "C15:parser:only-the-tightest-binary-level-descends-to-unary"),
            _ => assert!(false, "C15:parser:next-state-is-a-level-or-unary"),
        }
    }

    //@harness props=C15,C01 quickfor=C15 strength=proof clause="entering level L pushes 'left operand of L pending' and descends one level; nothing is consumed"
    #[kani::proof]
    #[kani::unwind(6)]
    fn prec_binary_arm() {
        let k = any_level();
        let cur = any_token_kind();
        let (mut p, ctx, sp) = parser_at(cur, ident(2), TokenKind::EndOfFile);
        let mut stack: pieces::Stack<'static, 'static> = Vec::new();
        let st = p.arm_binary(&mut stack, k);
        assert!(stack.len() == 1 && matches!(stack[0], StackItem::BinaryLhs(k2) if level_of(k2) == level_of(k)), "C15:parser:binary-arm-pushes-pending-lhs-of-the-same-level");
        assert!(p.cur_span() == sp[1], "C15:parser:binary-arm-consumes-nothing");
        let l = level_of(k);
        match st { State::Binary(n) => assert!(level_of(n) + 1 == l, "C15:parser:binary-arm-descends-one-level"),
                   State::Unary => assert!(l == 5, "C15:parser:binary-arm-descends-one-level"),
                   _ => assert!(false, "C15:parser:binary-arm-descends-one-level") }
        core::mem::forget(stack);   // harness only: dropping a Vec<StackItem> makes CBMC unwind its drop loop without bound
    }

    //@harness props=C15,C01 quickfor=C15 strength=proof clause="after a left operand at level L, for EVERY current token and every two tokens of lookahead: a binary operator is accepted exactly when its level in the Jsonnet table is L; then it is consumed, recorded with the AST operator the specification names, and its right operand is parsed one level tighter while the level L stays open (left associativity); any other token ends level L with the operand unchanged and nothing consumed; `e in super` (not followed by . or [) forms an InSuper node that continues at the same level" timeout=900 replay=parser_prec
    #[kani::proof]
    #[kani::unwind(6)]
    fn prec_binary_rhs_arm() {
        let k = any_level();
        let l = level_of(k);
        let cur = any_token_kind();
        let n1 = any_token_kind();
        let (mut p, ctx, sp) = parser_at(cur, n1, ident(3));
        let lhs = leaf(1, sp[0]);
        let mut stack: pieces::Stack<'static, 'static> = Vec::new();
        stack.push(StackItem::Suffix);
        let st = p.arm_binary_rhs(&mut stack, k, lhs);
        let spec = match cur { TokenKind::Simple(t) => spec_binop(t), _ => None };
        let in_super = matches!(cur, TokenKind::Simple(K::In)) && matches!(n1, TokenKind::Simple(K::Super)) && l == 8;
        // (`e in super` with the NEXT token . or [ is the ordinary `in` followed by a super-expression)
        let in_super_node = in_super && !matches!(ident(3), TokenKind::Simple(K::Dot) | TokenKind::Simple(K::LeftBracket));
        match spec {
            Some((sl, bop)) if sl == l && !in_super_node => {
                assert!(p.cur_span() == sp[2], "C15:parser:operator-of-this-level-is-consumed");
                assert!(stack.len() == 2, "C15:parser:accepted-operator-pushes-one-pending-rhs");
                match stack[1] {
                    StackItem::BinaryRhs(k2, l2, op2) => {
                        assert!(level_of(k2) == l, "C15:parser:level-stays-open-for-left-associativity");
                        assert!(op2 == bop, "C15:parser:token-maps-to-the-specified-ast-operator");
                        assert!(is_leaf(l2, 1) && l2.span == sp[0], "C15:parser:left-operand-is-kept-unchanged");
                    }
                    _ => assert!(false, "C15:parser:accepted-operator-pushes-one-pending-rhs"),
                }
                match st { State::Binary(n) => assert!(level_of(n) + 1 == l, "C15:parser:right-operand-is-parsed-one-level-tighter"),
                           State::Unary => assert!(l == 5, "C15:parser:right-operand-is-parsed-one-level-tighter"),
                           _ => assert!(false, "C15:parser:right-operand-is-parsed-one-level-tighter") }
            }
            _ if in_super_node => {
                assert!(p.cur_span() == sp[3] && stack.len() == 1, "C15:parser:in-super-consumes-two-tokens-and-pushes-nothing");
                match st {
                    State::BinaryRhs(k2, e) => {
                        assert!(level_of(k2) == l, "C15:parser:in-super-continues-at-the-same-level");
                        assert!(matches!(e.kind, ExprKind::InSuper(inner, s) if is_leaf(inner, 1) && s == sp[2]), "C15:parser:in-super-node");
                        assert!(p.mgr().get_span(e.span) == (ctx, 0, 3), "C15:parser:in-super-span-first-to-last-token");
                    }
                    _ => assert!(false, "C15:parser:in-super-continues-at-the-same-level"),
                }
            }
            _ => {
                // not an operator of this level (an operator of another level, or no operator at all)
                assert!(p.cur_span() == sp[1], "C15:parser:token-of-another-level-is-not-consumed");
                assert!(stack.len() == 1, "C15:parser:token-of-another-level-pushes-nothing");
                assert!(matches!(st, State::Parsed(e) if is_leaf(&e, 1) && e.span == sp[0]), "C15:parser:level-ends-with-the-operand-unchanged");
                assert!(p.last_expected_is_binary_op(), "C15:parser:a-binary-operator-is-recorded-as-expected-here");
            }
        }
        kani::cover!(spec.is_some() && spec.unwrap().0 == l, "cover:parser:operator-accepted");
        kani::cover!(spec.is_some() && spec.unwrap().0 != l, "cover:parser:operator-of-another-level");
        kani::cover!(in_super_node, "cover:parser:in-super");
        core::mem::forget(stack);   // harness only: dropping a Vec<StackItem> makes CBMC unwind its drop loop without bound
    }

    //@harness props=C15,C01 quickfor=C15 strength=proof clause="`in super` followed by . or [ is the ordinary operator `in` whose right operand starts with super" timeout=900
    #[kani::proof]
    #[kani::unwind(6)]
    fn prec_in_super_field() {
        let dot: bool = kani::any();
        let n2 = if dot { TokenKind::Simple(K::Dot) } else { TokenKind::Simple(K::LeftBracket) };
        let (mut p, ctx, sp) = parser_at(TokenKind::Simple(K::In), TokenKind::Simple(K::Super), n2);
        let mut stack: pieces::Stack<'static, 'static> = Vec::new();
        let st = p.arm_binary_rhs(&mut stack, BinOpKind::OrdCmp, leaf(1, sp[0]));
        assert!(p.cur_span() == sp[2] && stack.len() == 1, "C15:parser:in-before-super-field-consumes-only-in");
        assert!(matches!(stack[0], StackItem::BinaryRhs(k2, _, BinaryOp::In) if level_of(k2) == 8), "C15:parser:in-before-super-field-is-binary-in");
        assert!(state_level(&st) == Some(7), "C15:parser:right-operand-is-parsed-one-level-tighter");
        core::mem::forget(stack);   // harness only: dropping a Vec<StackItem> makes CBMC unwind its drop loop without bound
    }

    //@harness props=C15,C01 quickfor=C15 strength=proof clause="completing the left operand of level L continues at level L with that operand (any level)"
    #[kani::proof]
    #[kani::unwind(6)]
    fn prec_parsed_lhs_arm() {
        let k = any_level();
        let (mut p, ctx, sp) = parser_at(any_token_kind(), ident(2), TokenKind::EndOfFile);
        let st = p.arm_parsed_binary_lhs(k, leaf(1, sp[0]));
        assert!(matches!(st, State::BinaryRhs(k2, e) if level_of(k2) == level_of(k) && is_leaf(&e, 1) && e.span == sp[0]), "C15:parser:completed-lhs-continues-at-its-level");
        assert!(p.cur_span() == sp[1], "C15:parser:completing-an-operand-consumes-nothing");
    }

    //@harness props=C15,C01 quickfor=C15 strength=proof clause="completing the right operand of `lhs op _` at level L builds Binary(lhs, op, rhs) spanning from lhs's first byte to rhs's last, and CONTINUES AT LEVEL L with that node as the new left operand - i.e. a op b op' c at one level groups (a op b) op' c (left associativity), for every level and operator" timeout=900
    #[kani::proof]
    #[kani::unwind(6)]
    fn prec_parsed_rhs_arm() {
        let k = any_level();
        let opi: usize = kani::any(); kani::assume(opi < N_K);
        let sb = spec_binop(ALL_K[opi]); kani::assume(sb.is_some());
        let op = sb.unwrap().1;
        let (mut p, ctx, sp) = parser_at(any_token_kind(), ident(2), TokenKind::EndOfFile);
        // lhs covers byte 0, rhs covers bytes 2..4 (a node made of tokens 2 and 3)
        let lhs: &'static Expr<'static, 'static> = Box::leak(Box::new(leaf(1, sp[0])));
        let rspan = p.mgr().get_span(sp[2]);
        let (mut p, ctx, sp) = (p, ctx, sp);
        let st = p.arm_parsed_binary_rhs(k, lhs, op, leaf(2, sp[3]));
        match st {
            State::BinaryRhs(k2, e) => {
                assert!(level_of(k2) == level_of(k), "C15:parser:level-stays-open-for-left-associativity");
                assert!(matches!(e.kind, ExprKind::Binary(a, o, b) if is_leaf(a, 1) && o == op && is_leaf(b, 2)), "C15:parser:binary-node-has-lhs-op-rhs-in-order");
                assert!(p.mgr().get_span(e.span) == (ctx, 0, 4), "C15:parser:binary-span-first-to-last-token");
            }
            _ => assert!(false, "C15:parser:completed-rhs-continues-at-the-same-level"),
        }
        assert!(p.cur_span() == sp[1], "C15:parser:completing-an-operand-consumes-nothing");
    }

    //@harness props=C15,C01 quickfor=C15 strength=proof clause="at unary position, for EVERY token: + - ~ ! are consumed and recorded with the specified AST operator and the parser stays at unary position (so unary operators nest and bind tighter than every binary operator); any other token starts a primary expression followed by its suffixes, nothing consumed" timeout=900
    #[kani::proof]
    #[kani::unwind(6)]
    fn prec_unary_arm() {
        let cur = any_token_kind();
        let (mut p, ctx, sp) = parser_at(cur, ident(2), TokenKind::EndOfFile);
        let mut stack: pieces::Stack<'static, 'static> = Vec::new();
        let st = p.arm_unary(&mut stack);
        let spec = match cur { TokenKind::Simple(t) => spec_unop(t), _ => None };
        assert!(stack.len() == 1, "C15:parser:unary-arm-pushes-exactly-one-item");
        match spec {
            Some(uop) => {
                assert!(matches!(stack[0], StackItem::Unary(o, s) if o == uop && s == sp[1]), "C15:parser:unary-token-maps-to-the-specified-operator-and-its-span");
                assert!(matches!(st, State::Unary), "C15:parser:after-a-unary-operator-the-operand-is-again-unary");
                assert!(p.cur_span() == sp[2], "C15:parser:unary-operator-is-consumed");
            }
            None => {
                assert!(matches!(stack[0], StackItem::Suffix) && matches!(st, State::Primary), "C15:parser:non-operator-starts-a-primary-with-suffixes");
                assert!(p.cur_span() == sp[1], "C15:parser:non-operator-is-not-consumed-here");
            }
        }
        kani::cover!(spec.is_some(), "cover:parser:unary-operator");
        core::mem::forget(stack);   // harness only: dropping a Vec<StackItem> makes CBMC unwind its drop loop without bound
    }

    //@harness props=C15,C01 quickfor=C15 strength=proof clause="completing the operand of a unary operator builds Unary(op, operand) spanning operator to operand end and hands it up as a finished expression"
    #[kani::proof]
    #[kani::unwind(6)]
    fn prec_parsed_unary_arm() {
        let which: u8 = kani::any();
        let op = match which & 3 { 0 => UnaryOp::Minus, 1 => UnaryOp::Plus, 2 => UnaryOp::BitwiseNot, _ => UnaryOp::LogicNot };
        let (mut p, ctx, sp) = parser_at(any_token_kind(), ident(2), TokenKind::EndOfFile);
        let st = p.arm_parsed_unary(op, sp[0], leaf(2, sp[2]));
        match st {
            State::Parsed(e) => {
                assert!(matches!(e.kind, ExprKind::Unary(o, inner) if o == op && is_leaf(inner, 2)), "C15:parser:unary-node-wraps-only-its-operand");
                assert!(p.mgr().get_span(e.span) == (ctx, 0, 3), "C15:parser:unary-span-operator-to-operand");
            }
            _ => assert!(false, "C15:parser:unary-node-is-a-finished-expression"),
        }
    }

    //@harness props=C15,C01 strength=proof expect=fail clause="canary"
    #[kani::proof]
    #[kani::unwind(6)]
    fn parser_canary() {
        let k = any_level();
        let (mut p, ctx, sp) = parser_at(TokenKind::Simple(K::Plus), ident(2), ident(3));
        let mut stack: pieces::Stack<'static, 'static> = Vec::new();
        let st = p.arm_binary_rhs(&mut stack, k, leaf(1, sp[0]));
        assert!(stack.len() == 1, "canary:parser:plus-is-accepted-at-every-level");
        core::mem::forget(stack);   // harness only: dropping a Vec<StackItem> makes CBMC unwind its drop loop without bound
    }
}
}
}

fn main() {}
