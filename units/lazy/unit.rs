// Unit lazy: the two binding sites of Evaluator::do_expr (program/eval/expr.rs) that create several delayed
// expressions at once - the array literal arm and the `local` arm - extracted verbatim as match arms, plus
// Program::new_pending_expr_thunk / try_value_from_expr (program/data.rs), the constructor every binding site
// goes through.  Call-by-need, C04: a binding site must WRAP its sub-expressions, never schedule them.
// Hand-written environment: Gc/GcView (raw pointers), ir::Expr as a small enum with the variants the extracted
// text matches on, ThunkData as a record of how it was created, ThunkEnv/ThunkEnvData as a variable list.
#![allow(dead_code, unused)]
mod u {
use std::cell::{Cell, RefCell};
use std::marker::PhantomData;
use std::rc::Rc;
pub type SpanId = u32;
#[derive(Clone, Copy, PartialEq, Eq, Debug)]
pub struct InternedStr<'p>(pub u8, pub PhantomData<&'p ()>);
pub struct Gc<T>(pub *const T);
impl<T> Clone for Gc<T> { fn clone(&self) -> Self { Gc(self.0) } }
impl<T> Gc<T> { pub fn new(v: T) -> Self { Gc(Box::into_raw(Box::new(v))) } pub fn view(&self) -> GcView<T> { GcView(self.0) } }
pub struct GcView<T>(pub *const T);
impl<T> Clone for GcView<T> { fn clone(&self) -> Self { GcView(self.0) } }
impl<T> std::ops::Deref for GcView<T> { type Target = T; fn deref(&self) -> &T { unsafe { &*self.0 } } }
impl<T> From<&GcView<T>> for Gc<T> { fn from(v: &GcView<T>) -> Self { Gc(v.0) } }
pub mod ir {
    use super::{InternedStr, SpanId};
    // only the shapes the extracted text distinguishes; `Other(id)` stands for every expression that needs evaluation
    pub enum Expr<'p> {
        Null, Bool(bool), Number(f64, SpanId), String(&'p str), Array(&'p [Expr<'p>]),
        Func { params: &'p [(InternedStr<'p>, Option<&'p Expr<'p>>)], body: &'p Expr<'p> },
        Local { bindings: &'p [(InternedStr<'p>, &'p Expr<'p>)], inner: &'p Expr<'p> },
        Other(u8),
    }
}
pub type ArrayData<'p> = Box<[Gc<ThunkData<'p>>]>;
pub enum FuncKind<'p> { Normal { name: Option<InternedStr<'p>>, body: &'p ir::Expr<'p>, env: Gc<ThunkEnv<'p>> } }
pub struct FuncData<'p> { pub kind: FuncKind<'p> }
impl<'p> FuncData<'p> { pub fn new(_params: &'p [(InternedStr<'p>, Option<&'p ir::Expr<'p>>)], kind: FuncKind<'p>) -> Self { FuncData { kind } } }
pub enum ValueData<'p> { Null, Bool(bool), Number(f64), String(Rc<str>), Array(Gc<ArrayData<'p>>), Function(Gc<FuncData<'p>>) }
/// a thunk remembers how it was made: already a value, or a delayed (expression, environment)
pub enum ThunkData<'p> { Done(ValueData<'p>), Pending(*const ir::Expr<'p>, Gc<ThunkEnv<'p>>) }
impl<'p> ThunkData<'p> {
    pub fn new_done(v: ValueData<'p>) -> Self { ThunkData::Done(v) }
    pub fn new_pending_expr(expr: &'p ir::Expr<'p>, env: Gc<ThunkEnv<'p>>) -> Self { ThunkData::Pending(expr as *const _, env) }
}
pub struct ThunkEnvData<'p> { pub parent: Option<Gc<ThunkEnv<'p>>>, pub vars: Vec<(InternedStr<'p>, Gc<ThunkData<'p>>)> }
impl<'p> ThunkEnvData<'p> {
    pub fn new(parent: Option<Gc<ThunkEnv<'p>>>) -> Self { ThunkEnvData { parent, vars: Vec::with_capacity(4) } }
    pub fn set_var(&mut self, name: InternedStr<'p>, thunk: Gc<ThunkData<'p>>) { self.vars.push((name, thunk)); }
}
pub struct ThunkEnv<'p> { pub data: RefCell<Option<ThunkEnvData<'p>>> }
impl<'p> ThunkEnv<'p> { pub fn new() -> Self { ThunkEnv { data: RefCell::new(None) } } pub fn set_data(&self, d: ThunkEnvData<'p>) { *self.data.borrow_mut() = Some(d); } }
pub struct EvalError;
type EvalResult<T> = Result<T, Box<EvalError>>;
pub enum State<'a, 'p> { Expr { expr: &'p ir::Expr<'p>, env: GcView<ThunkEnv<'p>> }, _P(PhantomData<&'a ()>) }
pub struct Program<'p> { pub empty_array: GcView<ArrayData<'p>>, pub allocs: Cell<usize> }
impl<'p> Program<'p> {
    fn gc_alloc<T>(&self, v: T) -> Gc<T> { self.allocs.set(self.allocs.get() + 1); Gc::new(v) }
    fn gc_alloc_view<T>(&self, v: T) -> GcView<T> { Gc::new(v).view() }
}
pub struct Evaluator<'a, 'p> { program: &'a mut Program<'p>, state_stack: Vec<State<'a, 'p>>, value_stack: Vec<ValueData<'p>> }

// ---- extracted, verbatim -------------------------------------------------------------------
//@extract file=rsjsonnet-lang/src/program/data.rs impl=Program methods=try_value_from_expr,new_pending_expr_thunk
impl<'a, 'p> Evaluator<'a, 'p> {
    fn arm_array(&mut self, items_exprs: &'p [ir::Expr<'p>], env: GcView<ThunkEnv<'p>>) {
//@extract file=rsjsonnet-lang/src/program/eval/expr.rs in=impl:Evaluator/fn:do_expr arm="ir::Expr::Array(items_exprs)"
    }
    fn arm_local(&mut self, bindings: &'p [(InternedStr<'p>, &'p ir::Expr<'p>)], inner: &'p ir::Expr<'p>, env: GcView<ThunkEnv<'p>>) {
//@extract file=rsjsonnet-lang/src/program/eval/expr.rs in=impl:Evaluator/fn:do_expr arm="ir::Expr::Local { bindings, inner }"
    }
}

#[cfg(kani)]
mod vharness {
    use super::*;
    static E0: ir::Expr<'static> = ir::Expr::Other(10);
    static E1: ir::Expr<'static> = ir::Expr::Other(11);
    static E2: ir::Expr<'static> = ir::Expr::Other(12);
    static INNER: ir::Expr<'static> = ir::Expr::Other(99);
    static ITEMS: [ir::Expr<'static>; 3] = [ir::Expr::Other(10), ir::Expr::Number(1.5, 0), ir::Expr::Other(12)];
    const V: [InternedStr<'static>; 3] = [InternedStr(1, PhantomData), InternedStr(2, PhantomData), InternedStr(3, PhantomData)];
    static BINDS: [(InternedStr<'static>, &ir::Expr<'static>); 3] = [(V[0], &E0), (V[1], &E1), (V[2], &E2)];

    fn prog() -> Program<'static> { Program { empty_array: Gc::new(Vec::new().into_boxed_slice()).view(), allocs: Cell::new(0) } }
    fn pending_on(t: &ThunkData<'static>, e: &'static ir::Expr<'static>, env: *const ThunkEnv<'static>) -> bool { matches!(t, ThunkData::Pending(x, en) if std::ptr::eq(*x, e) && std::ptr::eq(en.0, env)) }

    fn array_literal(n: usize) {
        let mut p = prog();
        let env = Gc::new(ThunkEnv::new()).view();
        let mut e = Evaluator { program: &mut p, state_stack: Vec::with_capacity(2), value_stack: Vec::with_capacity(2) };
        e.arm_array(&ITEMS[..n], env.clone());
        assert!(e.state_stack.is_empty(), "C04:lazy:array-literal-schedules-no-evaluation-of-its-elements");
        assert!(e.value_stack.len() == 1, "C04,C01:lazy:array-literal-pushes-one-value");
        match &e.value_stack[0] {
            ValueData::Array(a) => {
                let a = a.view();
                assert!(a.len() == n, "C04:lazy:array-has-one-thunk-per-element");
                let mut i = 0;
                while i < n {
                    let t = a[i].view();
                    // element 1 is a literal number: it may be stored as a value (nothing to delay); the others must be delayed
                    if i == 1 { assert!(matches!(&*t, ThunkData::Done(ValueData::Number(x)) if *x == 1.5) || pending_on(&t, &ITEMS[1], env.0), "C04:lazy:literal-element-is-its-value-or-delayed"); }
                    else { assert!(pending_on(&t, &ITEMS[i], env.0), "C04:lazy:element-i-is-delayed-with-the-current-environment"); }
                    i += 1;
                }
            }
            _ => assert!(false, "C04:lazy:array-literal-yields-an-array"),
        }
        core::mem::forget(e);
    }
    //@harness props=C04,C01 quickfor=C04 strength=bounded bound="array literal of 0 elements" clause="array literal: the empty array is a value; nothing is scheduled"
    #[kani::proof]
    #[kani::unwind(6)]
    fn array_literal_n0() { array_literal(0); }
    //@harness props=C04,C01 quickfor=C04 strength=bounded bound="array literal of 2 elements (an expression and a number literal)" clause="array literal: every element expression is wrapped in a thunk delayed on the CURRENT environment (a literal may be stored as its value); no element is scheduled for evaluation" replay=lazy
    #[kani::proof]
    #[kani::unwind(6)]
    fn array_literal_n2() { array_literal(2); }
    //@harness props=C04,C01 quickfor=C04 strength=bounded bound="array literal of 3 elements" clause="array literal: every element expression is wrapped in a thunk delayed on the CURRENT environment; no element is scheduled for evaluation" replay=lazy
    #[kani::proof]
    #[kani::unwind(6)]
    fn array_literal_n3() { array_literal(3); }

    fn local_bindings(k: usize) {
        let mut p = prog();
        let env = Gc::new(ThunkEnv::new()).view();
        let mut e = Evaluator { program: &mut p, state_stack: Vec::with_capacity(2), value_stack: Vec::with_capacity(2) };
        e.arm_local(&BINDS[..k], &INNER, env.clone());
        assert!(e.value_stack.is_empty(), "C04,C01:lazy:local-pushes-no-value-yet");
        assert!(e.state_stack.len() == 1, "C04:lazy:local-schedules-only-its-body");
        match &e.state_stack[0] {
            State::Expr { expr, env: new_env } => {
                assert!(std::ptr::eq(*expr, &INNER), "C04:lazy:local-schedules-only-its-body");
                assert!(!std::ptr::eq(new_env.0, env.0), "C04:lazy:body-runs-in-a-new-environment");
                let d = new_env.data.borrow();
                let d = d.as_ref().unwrap();
                assert!(matches!(&d.parent, Some(pe) if std::ptr::eq(pe.0, env.0)), "C04:lazy:new-environment-extends-the-current-one");
                assert!(d.vars.len() == k, "C04:lazy:one-variable-per-binding");
                let mut i = 0;
                while i < k {
                    assert!(d.vars[i].0 == V[i], "C04:lazy:variables-are-bound-under-their-names");
                    // the bound expression is delayed on the NEW environment (bindings see each other), not evaluated
                    assert!(pending_on(&d.vars[i].1.view(), BINDS[i].1, new_env.0), "C04:lazy:bound-expression-is-delayed-not-evaluated");
                    i += 1;
                }
            }
            _ => assert!(false, "C04:lazy:local-schedules-only-its-body"),
        }
        core::mem::forget(e);
    }
    //@harness props=C04,C01 quickfor=C04 strength=bounded bound="local with 1 binding" clause="local x = e; body: only the body is scheduled; e is wrapped in a thunk delayed on the new environment (so bindings can refer to each other) and bound under its name" replay=lazy
    #[kani::proof]
    #[kani::unwind(6)]
    fn local_bindings_k1() { local_bindings(1); }
    //@harness props=C04,C01 quickfor=C04 strength=bounded bound="local with 3 bindings" clause="local a = .., b = .., c = ..; body: only the body is scheduled; every bound expression is delayed on the new environment and bound under its name, in order" replay=lazy
    #[kani::proof]
    #[kani::unwind(6)]
    fn local_bindings_k3() { local_bindings(3); }

    //@harness props=C04,C01 quickfor=C04 strength=proof clause="new_pending_expr_thunk (the constructor every binding site uses): an expression that needs evaluation becomes a PENDING thunk on exactly the given expression and environment; only null / boolean / finite number / string / empty-array literals and function literals are stored as values"
    #[kani::proof]
    #[kani::unwind(6)]
    fn new_pending_expr_thunk_contract() {
        let p = prog();
        let env = Gc::new(ThunkEnv::new());
        let t = p.new_pending_expr_thunk(&E0, env.clone(), None).view();
        assert!(pending_on(&t, &E0, env.0), "C04:lazy:an-expression-that-needs-evaluation-is-delayed");
        let x: f64 = kani::any();
        let num: &'static ir::Expr<'static> = Box::leak(Box::new(ir::Expr::Number(x, 0)));
        let t2 = p.new_pending_expr_thunk(num, env.clone(), None).view();
        if x.is_finite() { assert!(matches!(&*t2, ThunkData::Done(ValueData::Number(y)) if *y == x), "C04:lazy:a-finite-number-literal-is-its-value"); }
        else { assert!(pending_on(&t2, num, env.0), "C04,C06:lazy:a-non-finite-literal-is-never-stored-as-a-value"); }
    }

    //@harness props=C04 strength=bounded expect=fail clause="canary"
    #[kani::proof]
    #[kani::unwind(6)]
    fn lazy_canary() {
        let mut p = prog();
        let env = Gc::new(ThunkEnv::new()).view();
        let mut e = Evaluator { program: &mut p, state_stack: Vec::with_capacity(2), value_stack: Vec::with_capacity(2) };
        e.arm_local(&BINDS[..1], &INNER, env.clone());
        assert!(e.state_stack.is_empty(), "canary:lazy:local-schedules-nothing");
        core::mem::forget(e);
    }
}
} // mod u
fn main() {}
