// Unit cmp: the equality / ordering state machine of the evaluator.  Extracted verbatim from
// Evaluator::run (program/eval/mod.rs): the arms EqualsValue, EqualsArray, EqualsObject,
// CompareValue, CompareArray, CmpOrdToBoolValueIs{Lt,Le,Gt,Ge}, CmpOrdToIntValueThreeWay, InvertBool,
// BoolToValue, plus push_trace_item / inc_trace_len; EvalErrorValueType (error.rs).
// Hand-written environment: Gc / GcView (raw pointers, nothing freed), an ABSTRACT array (a length
// and an identity; element i is a thunk labelled (array, i)), a State enum with only the variants
// these arms construct, an Evaluator with only the stacks they touch, and an ABSTRACT object: the
// ASSUMED CONTRACT of ObjectData's query functions (get_fields_order = the existing fields with their
// effective visibility in name order; get_visible_fields_order = those not hidden; has_field /
// has_visible_field = membership).  That contract is what unit `objlayers` checks on the real
// data.rs; the real functions are not executed here because get_fields_order's BTreeMap made every
// harness of this unit exceed 15 min, including the ones that never touch an object (measured).
#![allow(dead_code, unused)]
mod u {
use std::cell::{Cell, OnceCell, RefCell};
use std::collections::BTreeMap;
use std::marker::PhantomData;
use std::rc::Rc;
pub type SpanId = u32;
#[derive(Clone, Copy, PartialEq, Eq, PartialOrd, Ord, Debug)]
pub struct InternedStr<'p>(pub u8, pub PhantomData<&'p ()>);
#[derive(Clone, Copy, PartialEq, Eq, PartialOrd, Ord)]
pub struct SortedInternedStr<'p>(pub InternedStr<'p>);
pub mod ast { #[derive(Clone, Copy, PartialEq, Eq, Debug)] pub enum Visibility { Default, Hidden, ForceVisible } }
pub mod ir { pub struct Expr<'p>(pub u8, pub std::marker::PhantomData<&'p ()>); pub struct Assert<'p>(pub u8, pub std::marker::PhantomData<&'p ()>); }
pub struct Gc<T>(pub *const T);
impl<T> Clone for Gc<T> { fn clone(&self) -> Self { Gc(self.0) } }
impl<T> Gc<T> { pub fn new(v: T) -> Self { Gc(Box::into_raw(Box::new(v))) } pub fn view(&self) -> GcView<T> { GcView(self.0) } }
pub struct GcView<T>(pub *const T);
impl<T> Clone for GcView<T> { fn clone(&self) -> Self { GcView(self.0) } }
impl<T> std::ops::Deref for GcView<T> { type Target = T; fn deref(&self) -> &T { unsafe { &*self.0 } } }
pub struct ThunkEnv<'p>(pub PhantomData<&'p ()>);
pub struct FuncData<'p>(pub u8, pub PhantomData<&'p ()>);
/// a thunk is identified by where it came from: element `idx` of array `src`, or field `idx` of object `src`
pub struct ThunkData<'p> { pub src: u8, pub idx: usize, pub _p: PhantomData<&'p ()> }
/// abstract array: identity + length; indexing checks the bound (a real Box<[..]> would panic)
pub struct ArrayData<'p> { pub id: u8, pub n: usize, last: Cell<usize>, item: ArrItem<'p> }
pub struct ArrItem<'p> { arr: Cell<*const ArrayData<'p>> }
impl<'p> ArrItem<'p> { pub fn view(&self) -> GcView<ThunkData<'p>> { let a = unsafe { &*self.arr.get() }; Gc::new(ThunkData { src: a.id, idx: a.last.get(), _p: PhantomData }).view() } }
impl<'p> ArrayData<'p> {
    pub fn alloc(id: u8, n: usize) -> Gc<ArrayData<'p>> { let g = Gc::new(ArrayData { id, n, last: Cell::new(usize::MAX), item: ArrItem { arr: Cell::new(std::ptr::null()) } }); unsafe { (*g.0).item.arr.set(g.0); } g }
    pub fn len(&self) -> usize { self.n }
    pub fn is_empty(&self) -> bool { self.n == 0 }
}
impl<'p> std::ops::Index<usize> for ArrayData<'p> { type Output = ArrItem<'p>; fn index(&self, i: usize) -> &ArrItem<'p> { assert!(i < self.n, "C08,C01:cmp:array-index-in-bounds"); self.last.set(i); &self.item } }
pub enum ValueData<'p> { Null, Bool(bool), Number(f64), String(Rc<str>), Array(Gc<ArrayData<'p>>), Object(Gc<ObjectData<'p>>), Function(Gc<FuncData<'p>>) }
pub enum EvalErrorKind { CompareNullInequality, CompareBooleanInequality, CompareObjectInequality, CompareFunctions,
    CompareDifferentTypesInequality { lhs_type: EvalErrorValueType, rhs_type: EvalErrorValueType } }
pub struct EvalError { pub kind: EvalErrorKind }
type EvalResult<T> = Result<T, Box<EvalError>>;
pub enum TraceItem<'p> { CompareArrayItem { index: usize }, CompareObjectField { name: InternedStr<'p> } }
pub enum State<'a, 'p> {
    TraceItem(TraceItem<'p>),
    DoThunk(GcView<ThunkData<'p>>),
    EqualsValue,
    EqualsArray { lhs: GcView<ArrayData<'p>>, rhs: GcView<ArrayData<'p>>, index: usize },
    EqualsObject { lhs: GcView<ObjectData<'p>>, rhs: GcView<ObjectData<'p>>, rem_fields: Vec<InternedStr<'p>> },
    CompareValue,
    CompareArray { lhs: GcView<ArrayData<'p>>, rhs: GcView<ArrayData<'p>>, index: usize },
    AssertsOf(u8, PhantomData<&'a ()>),
}
/// abstract object (assumed contract of ObjectData, see header): its existing fields in name order with
/// their effective visibility; `id` identifies it in thunk labels
pub struct ObjectData<'p> { pub id: u8, pub fields: Vec<(InternedStr<'p>, ast::Visibility)> }
impl<'p> ObjectData<'p> {
    pub fn get_fields_order(&self) -> &[(InternedStr<'p>, ast::Visibility)] { &self.fields }
    pub fn get_visible_fields_order(&self) -> impl DoubleEndedIterator<Item = InternedStr<'p>> + Clone + '_ {
        self.fields.iter().filter_map(|&(name, visibility)| (visibility != ast::Visibility::Hidden).then_some(name))
    }
    pub fn has_field(&self, layer_i: usize, name: InternedStr<'p>) -> bool { layer_i == 0 && self.fields.iter().any(|f| f.0 == name) }
    pub fn has_visible_field(&self, name: InternedStr<'p>) -> bool { self.fields.iter().any(|f| f.0 == name && f.1 != ast::Visibility::Hidden) }
}
pub struct Program<'p>(pub PhantomData<&'p ()>);
impl<'p> Program<'p> {
    // shim: the real one creates / caches the field's thunk; here the thunk is labelled (object id, field name)
    // and the lookup is recorded, so that a lookup of a field that does not exist / of a hidden field is visible
    pub fn find_object_field_thunk(&self, object: &GcView<ObjectData<'p>>, layer_i: usize, name: InternedStr<'p>) -> Option<GcView<ThunkData<'p>>> {
        if !object.has_field(layer_i, name) { return None; }
        Some(Gc::new(ThunkData { src: 100 + obj_id(object), idx: name.0 as usize, _p: PhantomData }).view())
    }
}
pub fn obj_id(o: &ObjectData<'_>) -> u8 { o.id }
pub struct Evaluator<'a, 'p> {
    program: &'a mut Program<'p>,
    stack_trace_len: usize,
    state_stack: Vec<State<'a, 'p>>,
    value_stack: Vec<ValueData<'p>>,
    bool_stack: Vec<bool>,
    cmp_ord_stack: Vec<std::cmp::Ordering>,
}
impl<'a, 'p> Evaluator<'a, 'p> {
    fn report_error(&self, kind: EvalErrorKind) -> Box<EvalError> { Box::new(EvalError { kind }) }
    // shim: the real one schedules the object's assertions once; here it leaves a marker
    fn check_object_asserts(&mut self, object: &GcView<ObjectData<'p>>) { self.state_stack.push(State::AssertsOf(obj_id(object), PhantomData)); }
}

// ---- extracted, verbatim -------------------------------------------------------------------
//@extract file=rsjsonnet-lang/src/program/error.rs item=enum:EvalErrorValueType
//@extract file=rsjsonnet-lang/src/program/error.rs impl=EvalErrorValueType methods=from_value
//@extract file=rsjsonnet-lang/src/program/eval/mod.rs impl=Evaluator methods=push_trace_item,inc_trace_len

impl<'a, 'p> Evaluator<'a, 'p> {
    fn arm_equals_value(&mut self) -> EvalResult<()> {
//@extract file=rsjsonnet-lang/src/program/eval/mod.rs in=impl:Evaluator/fn:run arm="State::EqualsValue"
        Ok(())
    }
    fn arm_equals_array(&mut self, lhs: GcView<ArrayData<'p>>, rhs: GcView<ArrayData<'p>>, index: usize) {
//@extract file=rsjsonnet-lang/src/program/eval/mod.rs in=impl:Evaluator/fn:run arm="State::EqualsArray { lhs, rhs, index }"
    }
    fn arm_equals_object(&mut self, lhs: GcView<ObjectData<'p>>, rhs: GcView<ObjectData<'p>>, mut rem_fields: Vec<InternedStr<'p>>) {
//@extract file=rsjsonnet-lang/src/program/eval/mod.rs in=impl:Evaluator/fn:run arm="State::EqualsObject { lhs, rhs, mut rem_fields, }"
    }
    fn arm_compare_value(&mut self) -> EvalResult<()> {
//@extract file=rsjsonnet-lang/src/program/eval/mod.rs in=impl:Evaluator/fn:run arm="State::CompareValue"
        Ok(())
    }
    fn arm_compare_array(&mut self, lhs: GcView<ArrayData<'p>>, rhs: GcView<ArrayData<'p>>, index: usize) {
//@extract file=rsjsonnet-lang/src/program/eval/mod.rs in=impl:Evaluator/fn:run arm="State::CompareArray { lhs, rhs, index }"
    }
    fn arm_is_lt(&mut self) {
//@extract file=rsjsonnet-lang/src/program/eval/mod.rs in=impl:Evaluator/fn:run arm="State::CmpOrdToBoolValueIsLt"
    }
    fn arm_is_le(&mut self) {
//@extract file=rsjsonnet-lang/src/program/eval/mod.rs in=impl:Evaluator/fn:run arm="State::CmpOrdToBoolValueIsLe"
    }
    fn arm_is_gt(&mut self) {
//@extract file=rsjsonnet-lang/src/program/eval/mod.rs in=impl:Evaluator/fn:run arm="State::CmpOrdToBoolValueIsGt"
    }
    fn arm_is_ge(&mut self) {
//@extract file=rsjsonnet-lang/src/program/eval/mod.rs in=impl:Evaluator/fn:run arm="State::CmpOrdToBoolValueIsGe"
    }
    fn arm_three_way(&mut self) {
//@extract file=rsjsonnet-lang/src/program/eval/mod.rs in=impl:Evaluator/fn:run arm="State::CmpOrdToIntValueThreeWay"
    }
    fn arm_invert_bool(&mut self) {
//@extract file=rsjsonnet-lang/src/program/eval/mod.rs in=impl:Evaluator/fn:run arm="State::InvertBool"
    }
}

#[cfg(kani)]
mod vharness {
    use super::*;
    use std::cmp::Ordering;

    fn ev<'a>(p: &'a mut Program<'static>) -> Evaluator<'a, 'static> {
        Evaluator { program: p, stack_trace_len: 0, state_stack: Vec::with_capacity(8), value_stack: Vec::with_capacity(4), bool_stack: Vec::with_capacity(4), cmp_ord_stack: Vec::with_capacity(4) }
    }
    fn finite() -> f64 { let x: f64 = kani::any(); kani::assume(x.is_finite()); x }
    const STRS: [&str; 4] = ["", "a", "ab", "b"];
    /// tag: 0 null 1 bool 2 number 3 string 4 function 5 (empty) array 6 object ; returns (value, tag, payload)
    fn any_prim(allow_fn: bool) -> (ValueData<'static>, u8, f64) { any_prim2(allow_fn, true) }
    fn any_prim2(allow_fn: bool, allow_str: bool) -> (ValueData<'static>, u8, f64) {
        let tag: u8 = kani::any(); kani::assume(tag <= 4); if !allow_fn { kani::assume(tag != 4); } if !allow_str { kani::assume(tag != 3); }
        match tag {
            0 => (ValueData::Null, 0, 0.0),
            1 => { let b: bool = kani::any(); (ValueData::Bool(b), 1, if b { 1.0 } else { 0.0 }) }
            2 => { let x = finite(); (ValueData::Number(x), 2, x) }
            3 => { let i: usize = kani::any(); kani::assume(i < 4); (ValueData::String(STRS[i].into()), 3, i as f64) }
            _ => (ValueData::Function(Gc::new(FuncData(0, PhantomData))), 4, 0.0),
        }
    }
    /// a value of the given (CONCRETE) type tag with any payload
    fn prim_of(tag: u8) -> (ValueData<'static>, u8, f64) {
        match tag {
            0 => (ValueData::Null, 0, 0.0),
            1 => { let b: bool = kani::any(); (ValueData::Bool(b), 1, if b { 1.0 } else { 0.0 }) }
            2 => { let x = finite(); (ValueData::Number(x), 2, x) }
            3 => { let i: usize = kani::any(); kani::assume(i < 4); (ValueData::String(STRS[i].into()), 3, i as f64) }
            _ => (ValueData::Function(Gc::new(FuncData(0, PhantomData))), 4, 0.0),
        }
    }
    fn copy_of(tag: u8, pay: f64) -> ValueData<'static> {
        match tag { 0 => ValueData::Null, 1 => ValueData::Bool(pay != 0.0), 2 => ValueData::Number(pay), 3 => ValueData::String(STRS[pay as usize].into()),
                    _ => ValueData::Function(Gc::new(FuncData(0, PhantomData))) }
    }

    // one instance per pair of type tags (concrete), payloads symbolic: with symbolic tags CBMC explores the
    // array and object branches of the arm on garbage and every instance took 6 min (measured)
    fn equals_prims(ta_c: u8, tb_c: u8) {
        let (a, ta, pa) = prim_of(ta_c);
        let (b, tb, pb) = prim_of(tb_c);
        let mut prog = Program(PhantomData);
        let mut e = ev(&mut prog);
        e.value_stack.push(a); e.value_stack.push(b);
        let r = e.arm_equals_value();
        if ta == 4 && tb == 4 {
            assert!(matches!(r, Err(ref er) if matches!(er.kind, EvalErrorKind::CompareFunctions)), "C08:cmp:comparing-two-functions-is-an-error");
        } else {
            assert!(r.is_ok(), "C08:cmp:equality-of-non-functions-never-fails");
            assert!(e.value_stack.is_empty() && e.bool_stack.len() == 1 && e.state_stack.is_empty() && e.cmp_ord_stack.is_empty(), "C08,C01:cmp:equals-stack-effect");
            let want = ta == tb && pa == pb;      // same JSON value (payload equality; for numbers IEEE == so -0 == 0)
            assert!(e.bool_stack[0] == want, "C08:cmp:primitive-equality-is-same-type-and-same-payload");
            // symmetry: `want` is symmetric in its operands and the instance with the type tags swapped checks the
            // swapped comparison against the same formula (a second call here doubled the cost: measured)
        }
        core::mem::forget(e);
    }
    //@harness props=C08,C01 quickfor=C08,C10,C17 strength=proof clause="== on primitives for every pair of null / boolean / finite number / string / function values: true exactly when both have the same type and the same payload (numbers by IEEE equality, so -0 == 0), false for different types, an error for two functions; symmetric; pops two values, pushes one boolean, schedules nothing" timeout=900
    #[kani::proof]
    #[kani::unwind(8)]
    fn equals_null_null() { equals_prims(0, 0); }
    //@harness props=C08,C01 quickfor=C08,C10,C17 strength=proof tier=thorough clause="== on primitives for every pair of null / boolean / finite number / string / function values: true exactly when both have the same type and the same payload (numbers by IEEE equality, so -0 == 0), false for different types, an error for two functions; symmetric; pops two values, pushes one boolean, schedules nothing" timeout=900
    #[kani::proof]
    #[kani::unwind(8)]
    fn equals_null_bool() { equals_prims(0, 1); }
    //@harness props=C08,C01 quickfor=C08,C10,C17 strength=proof clause="== on primitives for every pair of null / boolean / finite number / string / function values: true exactly when both have the same type and the same payload (numbers by IEEE equality, so -0 == 0), false for different types, an error for two functions; symmetric; pops two values, pushes one boolean, schedules nothing" timeout=900
    #[kani::proof]
    #[kani::unwind(8)]
    fn equals_null_number() { equals_prims(0, 2); }
    //@harness props=C08,C01 quickfor=C08,C10,C17 strength=proof clause="== on primitives for every pair of null / boolean / finite number / string / function values: true exactly when both have the same type and the same payload (numbers by IEEE equality, so -0 == 0), false for different types, an error for two functions; symmetric; pops two values, pushes one boolean, schedules nothing" timeout=900
    #[kani::proof]
    #[kani::unwind(8)]
    fn equals_null_string() { equals_prims(0, 3); }
    //@harness props=C08,C01 quickfor=C08,C10,C17 strength=proof tier=thorough clause="== on primitives for every pair of null / boolean / finite number / string / function values: true exactly when both have the same type and the same payload (numbers by IEEE equality, so -0 == 0), false for different types, an error for two functions; symmetric; pops two values, pushes one boolean, schedules nothing" timeout=900
    #[kani::proof]
    #[kani::unwind(8)]
    fn equals_null_function() { equals_prims(0, 4); }
    //@harness props=C08,C01 quickfor=C08,C10,C17 strength=proof tier=thorough clause="== on primitives for every pair of null / boolean / finite number / string / function values: true exactly when both have the same type and the same payload (numbers by IEEE equality, so -0 == 0), false for different types, an error for two functions; symmetric; pops two values, pushes one boolean, schedules nothing" timeout=900
    #[kani::proof]
    #[kani::unwind(8)]
    fn equals_bool_null() { equals_prims(1, 0); }
    //@harness props=C08,C01 quickfor=C08,C10,C17 strength=proof clause="== on primitives for every pair of null / boolean / finite number / string / function values: true exactly when both have the same type and the same payload (numbers by IEEE equality, so -0 == 0), false for different types, an error for two functions; symmetric; pops two values, pushes one boolean, schedules nothing" timeout=900
    #[kani::proof]
    #[kani::unwind(8)]
    fn equals_bool_bool() { equals_prims(1, 1); }
    //@harness props=C08,C01 quickfor=C08,C10,C17 strength=proof clause="== on primitives for every pair of null / boolean / finite number / string / function values: true exactly when both have the same type and the same payload (numbers by IEEE equality, so -0 == 0), false for different types, an error for two functions; symmetric; pops two values, pushes one boolean, schedules nothing" timeout=900
    #[kani::proof]
    #[kani::unwind(8)]
    fn equals_bool_number() { equals_prims(1, 2); }
    //@harness props=C08,C01 quickfor=C08,C10,C17 strength=proof clause="== on primitives for every pair of null / boolean / finite number / string / function values: true exactly when both have the same type and the same payload (numbers by IEEE equality, so -0 == 0), false for different types, an error for two functions; symmetric; pops two values, pushes one boolean, schedules nothing" timeout=900
    #[kani::proof]
    #[kani::unwind(8)]
    fn equals_bool_string() { equals_prims(1, 3); }
    //@harness props=C08,C01 quickfor=C08,C10,C17 strength=proof tier=thorough clause="== on primitives for every pair of null / boolean / finite number / string / function values: true exactly when both have the same type and the same payload (numbers by IEEE equality, so -0 == 0), false for different types, an error for two functions; symmetric; pops two values, pushes one boolean, schedules nothing" timeout=900
    #[kani::proof]
    #[kani::unwind(8)]
    fn equals_bool_function() { equals_prims(1, 4); }
    //@harness props=C08,C01 quickfor=C08,C10,C17 strength=proof clause="== on primitives for every pair of null / boolean / finite number / string / function values: true exactly when both have the same type and the same payload (numbers by IEEE equality, so -0 == 0), false for different types, an error for two functions; symmetric; pops two values, pushes one boolean, schedules nothing" timeout=900
    #[kani::proof]
    #[kani::unwind(8)]
    fn equals_number_null() { equals_prims(2, 0); }
    //@harness props=C08,C01 quickfor=C08,C10,C17 strength=proof clause="== on primitives for every pair of null / boolean / finite number / string / function values: true exactly when both have the same type and the same payload (numbers by IEEE equality, so -0 == 0), false for different types, an error for two functions; symmetric; pops two values, pushes one boolean, schedules nothing" timeout=900
    #[kani::proof]
    #[kani::unwind(8)]
    fn equals_number_bool() { equals_prims(2, 1); }
    //@harness props=C08,C01 quickfor=C08,C10,C17 strength=proof clause="== on primitives for every pair of null / boolean / finite number / string / function values: true exactly when both have the same type and the same payload (numbers by IEEE equality, so -0 == 0), false for different types, an error for two functions; symmetric; pops two values, pushes one boolean, schedules nothing" timeout=900
    #[kani::proof]
    #[kani::unwind(8)]
    fn equals_number_number() { equals_prims(2, 2); }
    //@harness props=C08,C01 quickfor=C08,C10,C17 strength=proof clause="== on primitives for every pair of null / boolean / finite number / string / function values: true exactly when both have the same type and the same payload (numbers by IEEE equality, so -0 == 0), false for different types, an error for two functions; symmetric; pops two values, pushes one boolean, schedules nothing" timeout=900
    #[kani::proof]
    #[kani::unwind(8)]
    fn equals_number_string() { equals_prims(2, 3); }
    //@harness props=C08,C01 quickfor=C08,C10,C17 strength=proof clause="== on primitives for every pair of null / boolean / finite number / string / function values: true exactly when both have the same type and the same payload (numbers by IEEE equality, so -0 == 0), false for different types, an error for two functions; symmetric; pops two values, pushes one boolean, schedules nothing" timeout=900
    #[kani::proof]
    #[kani::unwind(8)]
    fn equals_number_function() { equals_prims(2, 4); }
    //@harness props=C08,C01 quickfor=C08,C10,C17 strength=proof clause="== on primitives for every pair of null / boolean / finite number / string / function values: true exactly when both have the same type and the same payload (numbers by IEEE equality, so -0 == 0), false for different types, an error for two functions; symmetric; pops two values, pushes one boolean, schedules nothing" timeout=900
    #[kani::proof]
    #[kani::unwind(8)]
    fn equals_string_null() { equals_prims(3, 0); }
    //@harness props=C08,C01 quickfor=C08,C10,C17 strength=proof clause="== on primitives for every pair of null / boolean / finite number / string / function values: true exactly when both have the same type and the same payload (numbers by IEEE equality, so -0 == 0), false for different types, an error for two functions; symmetric; pops two values, pushes one boolean, schedules nothing" timeout=900
    #[kani::proof]
    #[kani::unwind(8)]
    fn equals_string_bool() { equals_prims(3, 1); }
    //@harness props=C08,C01 quickfor=C08,C10,C17 strength=proof clause="== on primitives for every pair of null / boolean / finite number / string / function values: true exactly when both have the same type and the same payload (numbers by IEEE equality, so -0 == 0), false for different types, an error for two functions; symmetric; pops two values, pushes one boolean, schedules nothing" timeout=900
    #[kani::proof]
    #[kani::unwind(8)]
    fn equals_string_number() { equals_prims(3, 2); }
    //@harness props=C08,C01 quickfor=C08,C10,C17 strength=proof clause="== on primitives for every pair of null / boolean / finite number / string / function values: true exactly when both have the same type and the same payload (numbers by IEEE equality, so -0 == 0), false for different types, an error for two functions; symmetric; pops two values, pushes one boolean, schedules nothing" timeout=900
    #[kani::proof]
    #[kani::unwind(8)]
    fn equals_string_string() { equals_prims(3, 3); }
    //@harness props=C08,C01 quickfor=C08,C10,C17 strength=proof clause="== on primitives for every pair of null / boolean / finite number / string / function values: true exactly when both have the same type and the same payload (numbers by IEEE equality, so -0 == 0), false for different types, an error for two functions; symmetric; pops two values, pushes one boolean, schedules nothing" timeout=900
    #[kani::proof]
    #[kani::unwind(8)]
    fn equals_string_function() { equals_prims(3, 4); }
    //@harness props=C08,C01 quickfor=C08,C10,C17 strength=proof tier=thorough clause="== on primitives for every pair of null / boolean / finite number / string / function values: true exactly when both have the same type and the same payload (numbers by IEEE equality, so -0 == 0), false for different types, an error for two functions; symmetric; pops two values, pushes one boolean, schedules nothing" timeout=900
    #[kani::proof]
    #[kani::unwind(8)]
    fn equals_function_null() { equals_prims(4, 0); }
    //@harness props=C08,C01 quickfor=C08,C10,C17 strength=proof tier=thorough clause="== on primitives for every pair of null / boolean / finite number / string / function values: true exactly when both have the same type and the same payload (numbers by IEEE equality, so -0 == 0), false for different types, an error for two functions; symmetric; pops two values, pushes one boolean, schedules nothing" timeout=900
    #[kani::proof]
    #[kani::unwind(8)]
    fn equals_function_bool() { equals_prims(4, 1); }
    //@harness props=C08,C01 quickfor=C08,C10,C17 strength=proof clause="== on primitives for every pair of null / boolean / finite number / string / function values: true exactly when both have the same type and the same payload (numbers by IEEE equality, so -0 == 0), false for different types, an error for two functions; symmetric; pops two values, pushes one boolean, schedules nothing" timeout=900
    #[kani::proof]
    #[kani::unwind(8)]
    fn equals_function_number() { equals_prims(4, 2); }
    //@harness props=C08,C01 quickfor=C08,C10,C17 strength=proof clause="== on primitives for every pair of null / boolean / finite number / string / function values: true exactly when both have the same type and the same payload (numbers by IEEE equality, so -0 == 0), false for different types, an error for two functions; symmetric; pops two values, pushes one boolean, schedules nothing" timeout=900
    #[kani::proof]
    #[kani::unwind(8)]
    fn equals_function_string() { equals_prims(4, 3); }
    //@harness props=C08,C01 quickfor=C08,C10,C17 strength=proof clause="== on primitives for every pair of null / boolean / finite number / string / function values: true exactly when both have the same type and the same payload (numbers by IEEE equality, so -0 == 0), false for different types, an error for two functions; symmetric; pops two values, pushes one boolean, schedules nothing" timeout=900
    #[kani::proof]
    #[kani::unwind(8)]
    fn equals_function_function() { equals_prims(4, 4); }

    fn compare_prims(ta_c: u8, tb_c: u8) {
        let (a, ta, pa) = prim_of(ta_c);
        let (b, tb, pb) = prim_of(tb_c);
        let mut prog = Program(PhantomData);
        let mut e = ev(&mut prog);
        e.value_stack.push(a); e.value_stack.push(b);
        let r = e.arm_compare_value();
        if ta == 2 && tb == 2 {
            assert!(r.is_ok() && e.cmp_ord_stack.len() == 1 && e.value_stack.is_empty() && e.state_stack.is_empty() && e.bool_stack.is_empty(), "C08,C01:cmp:compare-stack-effect");
            let o = e.cmp_ord_stack[0];
            assert!((o == Ordering::Less) == (pa < pb) && (o == Ordering::Greater) == (pa > pb) && (o == Ordering::Equal) == (pa == pb), "C08,C17:cmp:number-order-is-the-ieee-order");
            assert!((pa < pb) as u8 + (pa == pb) as u8 + (pa > pb) as u8 == 1, "C08,C17:cmp:exactly-one-of-lt-eq-gt-on-finite-numbers");
        } else if ta == 3 && tb == 3 {
            assert!(r.is_ok() && e.cmp_ord_stack.len() == 1, "C08,C01:cmp:compare-stack-effect");
            assert!(e.cmp_ord_stack[0] == STRS[pa as usize].cmp(STRS[pb as usize]), "C08,C17:cmp:string-order-is-the-str-order");
        } else {
            match r {
                Ok(()) => assert!(false, "C08,C17:cmp:unordered-values-are-an-error-not-an-answer"),
                Err(er) => {
                    assert!(e.cmp_ord_stack.is_empty() && e.bool_stack.is_empty(), "C08,C17:cmp:no-answer-is-left-behind-on-error");
                    match er.kind {
                        EvalErrorKind::CompareNullInequality => assert!(ta == 0 && tb == 0, "C08,C17:cmp:error-kind-matches-the-operand-types"),
                        EvalErrorKind::CompareBooleanInequality => assert!(ta == 1 && tb == 1, "C08,C17:cmp:error-kind-matches-the-operand-types"),
                        EvalErrorKind::CompareFunctions => assert!(ta == 4 && tb == 4, "C08,C17:cmp:error-kind-matches-the-operand-types"),
                        EvalErrorKind::CompareObjectInequality => assert!(false, "C08,C17:cmp:error-kind-matches-the-operand-types"),
                        EvalErrorKind::CompareDifferentTypesInequality { lhs_type, rhs_type } => {
                            assert!(ta != tb, "C08,C17:cmp:error-kind-matches-the-operand-types");
                            assert!(lhs_type as u8 != rhs_type as u8, "C08,C17:cmp:mixed-type-error-names-both-types");
                        }
                    }
                }
            }
        }
        core::mem::forget(e);
    }
    //@harness props=C08,C01,C06,C17 quickfor=C08,C10,C17 strength=proof clause="< on primitives, this instance: null < null; the 25 instances cover every pair: two finite numbers give their IEEE ordering (exactly one of less / equal / greater; equal exactly when == holds; partial_cmp never panics under the finiteness invariant); two strings give their str ordering; null, boolean, object, function pairs and mixed types give the specific 'cannot be ordered' error, never an answer" timeout=900
    #[kani::proof]
    #[kani::unwind(8)]
    fn compare_null_null() { compare_prims(0, 0); }
    //@harness props=C08,C01,C06,C17 quickfor=C08,C10,C17 strength=proof tier=thorough clause="< on primitives, this instance: null < bool; the 25 instances cover every pair: two finite numbers give their IEEE ordering (exactly one of less / equal / greater; equal exactly when == holds; partial_cmp never panics under the finiteness invariant); two strings give their str ordering; null, boolean, object, function pairs and mixed types give the specific 'cannot be ordered' error, never an answer" timeout=900
    #[kani::proof]
    #[kani::unwind(8)]
    fn compare_null_bool() { compare_prims(0, 1); }
    //@harness props=C08,C01,C06,C17 quickfor=C08,C10,C17 strength=proof clause="< on primitives, this instance: null < number; the 25 instances cover every pair: two finite numbers give their IEEE ordering (exactly one of less / equal / greater; equal exactly when == holds; partial_cmp never panics under the finiteness invariant); two strings give their str ordering; null, boolean, object, function pairs and mixed types give the specific 'cannot be ordered' error, never an answer" timeout=900
    #[kani::proof]
    #[kani::unwind(8)]
    fn compare_null_number() { compare_prims(0, 2); }
    //@harness props=C08,C01,C06,C17 quickfor=C08,C10,C17 strength=proof clause="< on primitives, this instance: null < string; the 25 instances cover every pair: two finite numbers give their IEEE ordering (exactly one of less / equal / greater; equal exactly when == holds; partial_cmp never panics under the finiteness invariant); two strings give their str ordering; null, boolean, object, function pairs and mixed types give the specific 'cannot be ordered' error, never an answer" timeout=900
    #[kani::proof]
    #[kani::unwind(8)]
    fn compare_null_string() { compare_prims(0, 3); }
    //@harness props=C08,C01,C06,C17 quickfor=C08,C10,C17 strength=proof tier=thorough clause="< on primitives, this instance: null < function; the 25 instances cover every pair: two finite numbers give their IEEE ordering (exactly one of less / equal / greater; equal exactly when == holds; partial_cmp never panics under the finiteness invariant); two strings give their str ordering; null, boolean, object, function pairs and mixed types give the specific 'cannot be ordered' error, never an answer" timeout=900
    #[kani::proof]
    #[kani::unwind(8)]
    fn compare_null_function() { compare_prims(0, 4); }
    //@harness props=C08,C01,C06,C17 quickfor=C08,C10,C17 strength=proof tier=thorough clause="< on primitives, this instance: bool < null; the 25 instances cover every pair: two finite numbers give their IEEE ordering (exactly one of less / equal / greater; equal exactly when == holds; partial_cmp never panics under the finiteness invariant); two strings give their str ordering; null, boolean, object, function pairs and mixed types give the specific 'cannot be ordered' error, never an answer" timeout=900
    #[kani::proof]
    #[kani::unwind(8)]
    fn compare_bool_null() { compare_prims(1, 0); }
    //@harness props=C08,C01,C06,C17 quickfor=C08,C10,C17 strength=proof clause="< on primitives, this instance: bool < bool; the 25 instances cover every pair: two finite numbers give their IEEE ordering (exactly one of less / equal / greater; equal exactly when == holds; partial_cmp never panics under the finiteness invariant); two strings give their str ordering; null, boolean, object, function pairs and mixed types give the specific 'cannot be ordered' error, never an answer" timeout=900
    #[kani::proof]
    #[kani::unwind(8)]
    fn compare_bool_bool() { compare_prims(1, 1); }
    //@harness props=C08,C01,C06,C17 quickfor=C08,C10,C17 strength=proof clause="< on primitives, this instance: bool < number; the 25 instances cover every pair: two finite numbers give their IEEE ordering (exactly one of less / equal / greater; equal exactly when == holds; partial_cmp never panics under the finiteness invariant); two strings give their str ordering; null, boolean, object, function pairs and mixed types give the specific 'cannot be ordered' error, never an answer" timeout=900
    #[kani::proof]
    #[kani::unwind(8)]
    fn compare_bool_number() { compare_prims(1, 2); }
    //@harness props=C08,C01,C06,C17 quickfor=C08,C10,C17 strength=proof clause="< on primitives, this instance: bool < string; the 25 instances cover every pair: two finite numbers give their IEEE ordering (exactly one of less / equal / greater; equal exactly when == holds; partial_cmp never panics under the finiteness invariant); two strings give their str ordering; null, boolean, object, function pairs and mixed types give the specific 'cannot be ordered' error, never an answer" timeout=900
    #[kani::proof]
    #[kani::unwind(8)]
    fn compare_bool_string() { compare_prims(1, 3); }
    //@harness props=C08,C01,C06,C17 quickfor=C08,C10,C17 strength=proof tier=thorough clause="< on primitives, this instance: bool < function; the 25 instances cover every pair: two finite numbers give their IEEE ordering (exactly one of less / equal / greater; equal exactly when == holds; partial_cmp never panics under the finiteness invariant); two strings give their str ordering; null, boolean, object, function pairs and mixed types give the specific 'cannot be ordered' error, never an answer" timeout=900
    #[kani::proof]
    #[kani::unwind(8)]
    fn compare_bool_function() { compare_prims(1, 4); }
    //@harness props=C08,C01,C06,C17 quickfor=C08,C10,C17 strength=proof clause="< on primitives, this instance: number < null; the 25 instances cover every pair: two finite numbers give their IEEE ordering (exactly one of less / equal / greater; equal exactly when == holds; partial_cmp never panics under the finiteness invariant); two strings give their str ordering; null, boolean, object, function pairs and mixed types give the specific 'cannot be ordered' error, never an answer" timeout=900
    #[kani::proof]
    #[kani::unwind(8)]
    fn compare_number_null() { compare_prims(2, 0); }
    //@harness props=C08,C01,C06,C17 quickfor=C08,C10,C17 strength=proof clause="< on primitives, this instance: number < bool; the 25 instances cover every pair: two finite numbers give their IEEE ordering (exactly one of less / equal / greater; equal exactly when == holds; partial_cmp never panics under the finiteness invariant); two strings give their str ordering; null, boolean, object, function pairs and mixed types give the specific 'cannot be ordered' error, never an answer" timeout=900
    #[kani::proof]
    #[kani::unwind(8)]
    fn compare_number_bool() { compare_prims(2, 1); }
    //@harness props=C08,C01,C06,C17 quickfor=C08,C10,C17 strength=proof clause="< on primitives, this instance: number < number; the 25 instances cover every pair: two finite numbers give their IEEE ordering (exactly one of less / equal / greater; equal exactly when == holds; partial_cmp never panics under the finiteness invariant); two strings give their str ordering; null, boolean, object, function pairs and mixed types give the specific 'cannot be ordered' error, never an answer" timeout=900
    #[kani::proof]
    #[kani::unwind(8)]
    fn compare_number_number() { compare_prims(2, 2); }
    //@harness props=C08,C01,C06,C17 quickfor=C08,C10,C17 strength=proof clause="< on primitives, this instance: number < string; the 25 instances cover every pair: two finite numbers give their IEEE ordering (exactly one of less / equal / greater; equal exactly when == holds; partial_cmp never panics under the finiteness invariant); two strings give their str ordering; null, boolean, object, function pairs and mixed types give the specific 'cannot be ordered' error, never an answer" timeout=900
    #[kani::proof]
    #[kani::unwind(8)]
    fn compare_number_string() { compare_prims(2, 3); }
    //@harness props=C08,C01,C06,C17 quickfor=C08,C10,C17 strength=proof clause="< on primitives, this instance: number < function; the 25 instances cover every pair: two finite numbers give their IEEE ordering (exactly one of less / equal / greater; equal exactly when == holds; partial_cmp never panics under the finiteness invariant); two strings give their str ordering; null, boolean, object, function pairs and mixed types give the specific 'cannot be ordered' error, never an answer" timeout=900
    #[kani::proof]
    #[kani::unwind(8)]
    fn compare_number_function() { compare_prims(2, 4); }
    //@harness props=C08,C01,C06,C17 quickfor=C08,C10,C17 strength=proof clause="< on primitives, this instance: string < null; the 25 instances cover every pair: two finite numbers give their IEEE ordering (exactly one of less / equal / greater; equal exactly when == holds; partial_cmp never panics under the finiteness invariant); two strings give their str ordering; null, boolean, object, function pairs and mixed types give the specific 'cannot be ordered' error, never an answer" timeout=900
    #[kani::proof]
    #[kani::unwind(8)]
    fn compare_string_null() { compare_prims(3, 0); }
    //@harness props=C08,C01,C06,C17 quickfor=C08,C10,C17 strength=proof clause="< on primitives, this instance: string < bool; the 25 instances cover every pair: two finite numbers give their IEEE ordering (exactly one of less / equal / greater; equal exactly when == holds; partial_cmp never panics under the finiteness invariant); two strings give their str ordering; null, boolean, object, function pairs and mixed types give the specific 'cannot be ordered' error, never an answer" timeout=900
    #[kani::proof]
    #[kani::unwind(8)]
    fn compare_string_bool() { compare_prims(3, 1); }
    //@harness props=C08,C01,C06,C17 quickfor=C08,C10,C17 strength=proof clause="< on primitives, this instance: string < number; the 25 instances cover every pair: two finite numbers give their IEEE ordering (exactly one of less / equal / greater; equal exactly when == holds; partial_cmp never panics under the finiteness invariant); two strings give their str ordering; null, boolean, object, function pairs and mixed types give the specific 'cannot be ordered' error, never an answer" timeout=900
    #[kani::proof]
    #[kani::unwind(8)]
    fn compare_string_number() { compare_prims(3, 2); }
    //@harness props=C08,C01,C06,C17 quickfor=C08,C10,C17 strength=proof clause="< on primitives, this instance: string < string; the 25 instances cover every pair: two finite numbers give their IEEE ordering (exactly one of less / equal / greater; equal exactly when == holds; partial_cmp never panics under the finiteness invariant); two strings give their str ordering; null, boolean, object, function pairs and mixed types give the specific 'cannot be ordered' error, never an answer" timeout=900
    #[kani::proof]
    #[kani::unwind(8)]
    fn compare_string_string() { compare_prims(3, 3); }
    //@harness props=C08,C01,C06,C17 quickfor=C08,C10,C17 strength=proof clause="< on primitives, this instance: string < function; the 25 instances cover every pair: two finite numbers give their IEEE ordering (exactly one of less / equal / greater; equal exactly when == holds; partial_cmp never panics under the finiteness invariant); two strings give their str ordering; null, boolean, object, function pairs and mixed types give the specific 'cannot be ordered' error, never an answer" timeout=900
    #[kani::proof]
    #[kani::unwind(8)]
    fn compare_string_function() { compare_prims(3, 4); }
    //@harness props=C08,C01,C06,C17 quickfor=C08,C10,C17 strength=proof tier=thorough clause="< on primitives, this instance: function < null; the 25 instances cover every pair: two finite numbers give their IEEE ordering (exactly one of less / equal / greater; equal exactly when == holds; partial_cmp never panics under the finiteness invariant); two strings give their str ordering; null, boolean, object, function pairs and mixed types give the specific 'cannot be ordered' error, never an answer" timeout=900
    #[kani::proof]
    #[kani::unwind(8)]
    fn compare_function_null() { compare_prims(4, 0); }
    //@harness props=C08,C01,C06,C17 quickfor=C08,C10,C17 strength=proof tier=thorough clause="< on primitives, this instance: function < bool; the 25 instances cover every pair: two finite numbers give their IEEE ordering (exactly one of less / equal / greater; equal exactly when == holds; partial_cmp never panics under the finiteness invariant); two strings give their str ordering; null, boolean, object, function pairs and mixed types give the specific 'cannot be ordered' error, never an answer" timeout=900
    #[kani::proof]
    #[kani::unwind(8)]
    fn compare_function_bool() { compare_prims(4, 1); }
    //@harness props=C08,C01,C06,C17 quickfor=C08,C10,C17 strength=proof clause="< on primitives, this instance: function < number; the 25 instances cover every pair: two finite numbers give their IEEE ordering (exactly one of less / equal / greater; equal exactly when == holds; partial_cmp never panics under the finiteness invariant); two strings give their str ordering; null, boolean, object, function pairs and mixed types give the specific 'cannot be ordered' error, never an answer" timeout=900
    #[kani::proof]
    #[kani::unwind(8)]
    fn compare_function_number() { compare_prims(4, 2); }
    //@harness props=C08,C01,C06,C17 quickfor=C08,C10,C17 strength=proof clause="< on primitives, this instance: function < string; the 25 instances cover every pair: two finite numbers give their IEEE ordering (exactly one of less / equal / greater; equal exactly when == holds; partial_cmp never panics under the finiteness invariant); two strings give their str ordering; null, boolean, object, function pairs and mixed types give the specific 'cannot be ordered' error, never an answer" timeout=900
    #[kani::proof]
    #[kani::unwind(8)]
    fn compare_function_string() { compare_prims(4, 3); }
    //@harness props=C08,C01,C06,C17 quickfor=C08,C10,C17 strength=proof clause="< on primitives, this instance: function < function; the 25 instances cover every pair: two finite numbers give their IEEE ordering (exactly one of less / equal / greater; equal exactly when == holds; partial_cmp never panics under the finiteness invariant); two strings give their str ordering; null, boolean, object, function pairs and mixed types give the specific 'cannot be ordered' error, never an answer" timeout=900
    #[kani::proof]
    #[kani::unwind(8)]
    fn compare_function_function() { compare_prims(4, 4); }

    //@harness props=C08,C17 strength=proof clause="the number order is transitive and total on finite doubles: a <= b and b <= c imply a <= c, through the real CompareValue arm"
    #[kani::proof]
    #[kani::unwind(8)]
    fn compare_numbers_transitive() {
        let (a, b, c) = (finite(), finite(), finite());
        let mut prog = Program(PhantomData);
        let mut e = ev(&mut prog);
        e.value_stack.push(ValueData::Number(a)); e.value_stack.push(ValueData::Number(b)); let _ = e.arm_compare_value();
        e.value_stack.push(ValueData::Number(b)); e.value_stack.push(ValueData::Number(c)); let _ = e.arm_compare_value();
        e.value_stack.push(ValueData::Number(a)); e.value_stack.push(ValueData::Number(c)); let _ = e.arm_compare_value();
        assert!(e.cmp_ord_stack.len() == 3, "C08,C01:cmp:compare-stack-effect");
        let (ab, bc, ac) = (e.cmp_ord_stack[0], e.cmp_ord_stack[1], e.cmp_ord_stack[2]);
        if ab != Ordering::Greater && bc != Ordering::Greater { assert!(ac != Ordering::Greater, "C08,C17:cmp:number-order-is-transitive"); }
        if ab == Ordering::Less && bc != Ordering::Greater { assert!(ac == Ordering::Less, "C08,C17:cmp:number-order-is-transitive"); }
        core::mem::forget(e);
    }

    //@harness props=C08 strength=proof clause="<, <=, >, >= and the three-way result are derived consistently from one ordering: < is Less, <= is not Greater, > is Greater, >= is not Less, three-way is -1/0/1; `!=` is the negation of `==` (InvertBool flips exactly the top boolean)"
    #[kani::proof]
    #[kani::unwind(8)]
    fn derived_operators_contract() {
        let k: u8 = kani::any(); kani::assume(k < 3);
        let o = if k == 0 { Ordering::Less } else if k == 1 { Ordering::Equal } else { Ordering::Greater };
        let mut prog = Program(PhantomData);
        let mut e = ev(&mut prog);
        let mut i = 0; while i < 5 { e.cmp_ord_stack.push(o); i += 1; }
        e.arm_is_lt(); e.arm_is_le(); e.arm_is_gt(); e.arm_is_ge(); e.arm_three_way();
        assert!(e.cmp_ord_stack.is_empty() && e.value_stack.len() == 5, "C08,C01:cmp:each-converter-pops-one-ordering-and-pushes-one-value");
        let b = |v: &ValueData<'_>| matches!(v, ValueData::Bool(true));
        assert!(b(&e.value_stack[0]) == (k == 0) && b(&e.value_stack[1]) == (k != 2) && b(&e.value_stack[2]) == (k == 2) && b(&e.value_stack[3]) == (k != 0), "C08:cmp:lt-le-gt-ge-derived-from-one-ordering");
        assert!(matches!(e.value_stack[4], ValueData::Number(x) if x == k as f64 - 1.0), "C08:cmp:three-way-is-minus-one-zero-one");
        let (x, y): (bool, bool) = (kani::any(), kani::any());
        e.bool_stack.push(x); e.bool_stack.push(y);
        e.arm_invert_bool();
        assert!(e.bool_stack.len() == 2 && e.bool_stack[0] == x && e.bool_stack[1] == !y, "C08:cmp:not-equal-is-the-negation-of-equal");
        core::mem::forget(e);
    }

    fn is_do_thunk(s: &State<'_, '_>, src: u8, idx: usize) -> bool { matches!(s, State::DoThunk(t) if t.src == src && t.idx == idx) }
    /// the five work items that evaluate and compare element `index` of both arrays, in execution order
    fn scheduled_element(e: &Evaluator<'_, '_>, base: usize, index: usize, ordering: bool) -> bool {
        if e.state_stack.len() != base + 5 { return false; }
        let s = &e.state_stack;
        let cont = if ordering { matches!(&s[base], State::CompareArray { lhs, rhs, index: i } if lhs.id == 1 && rhs.id == 2 && *i == index) }
                   else { matches!(&s[base], State::EqualsArray { lhs, rhs, index: i } if lhs.id == 1 && rhs.id == 2 && *i == index) };
        cont && matches!(&s[base + 1], State::TraceItem(TraceItem::CompareArrayItem { index: i }) if *i == index)
             && (if ordering { matches!(s[base + 2], State::CompareValue) } else { matches!(s[base + 2], State::EqualsValue) })
             && is_do_thunk(&s[base + 3], 2, index) && is_do_thunk(&s[base + 4], 1, index)
    }

    //@harness props=C08,C01,C10,C17 quickfor=C08,C10,C17 strength=proof clause="ordering of two arrays of ANY lengths (entry): both empty => equal; only the left empty => less; only the right empty => greater; otherwise exactly: evaluate element 0 of both, compare them, then continue with CompareArray at index 0 - one trace item pushed and counted" timeout=900 replay=cmp_arrays
    #[kani::proof]
    #[kani::unwind(8)]
    fn compare_array_entry_contract() {
        let (la, lb): (usize, usize) = (kani::any(), kani::any());
        let mut prog = Program(PhantomData);
        let mut e = ev(&mut prog);
        e.value_stack.push(ValueData::Array(ArrayData::alloc(1, la))); e.value_stack.push(ValueData::Array(ArrayData::alloc(2, lb)));
        let r = e.arm_compare_value();
        assert!(r.is_ok() && e.value_stack.is_empty() && e.bool_stack.is_empty(), "C08,C01:cmp:compare-stack-effect");
        if la == 0 || lb == 0 {
            assert!(e.state_stack.is_empty() && e.cmp_ord_stack.len() == 1, "C08,C17:cmp:empty-array-decides-immediately");
            let want = if la == 0 && lb == 0 { Ordering::Equal } else if la == 0 { Ordering::Less } else { Ordering::Greater };
            assert!(e.cmp_ord_stack[0] == want, "C08,C17:cmp:a-proper-prefix-is-less-empty-array-cases");
        } else {
            assert!(e.cmp_ord_stack.is_empty(), "C08,C17:cmp:no-answer-before-an-element-is-compared");
            assert!(scheduled_element(&e, 0, 0, true), "C08,C17:cmp:first-elements-are-evaluated-and-compared-next");
            assert!(e.stack_trace_len == 1, "C10:cmp:trace-item-is-counted");
        }
        core::mem::forget(e);
    }

    //@harness props=C08,C01,C10,C17 quickfor=C08,C10,C17 strength=proof clause="ordering of two arrays of ANY lengths (step at ANY index, after elements 0..index compared equal so far): a non-equal element decides with that ordering and schedules nothing (later elements are never evaluated); an equal element decides equal / less / greater when it was the last of both / of the left only / of the right only, and otherwise schedules exactly the comparison of element index+1 - by induction the result is the lexicographic order" timeout=900 replay=cmp_arrays
    #[kani::proof]
    #[kani::unwind(8)]
    fn compare_array_step_contract() {
        let (la, lb, index): (usize, usize, usize) = (kani::any(), kani::any(), kani::any());
        kani::assume(index < la && index < lb);          // requires: the element just compared exists in both
        let k: u8 = kani::any(); kani::assume(k < 3);
        let item = if k == 0 { Ordering::Less } else if k == 1 { Ordering::Equal } else { Ordering::Greater };
        let mut prog = Program(PhantomData);
        let mut e = ev(&mut prog);
        e.cmp_ord_stack.push(item);
        e.arm_compare_array(ArrayData::alloc(1, la).view(), ArrayData::alloc(2, lb).view(), index);
        assert!(e.value_stack.is_empty() && e.bool_stack.is_empty(), "C08,C01:cmp:compare-stack-effect");
        if k != 1 {
            assert!(e.state_stack.is_empty() && e.cmp_ord_stack.len() == 1 && e.cmp_ord_stack[0] == item, "C08,C17:cmp:first-differing-element-decides-and-nothing-later-is-evaluated");
        } else if index + 1 == la || index + 1 == lb {
            let want = if index + 1 == la && index + 1 == lb { Ordering::Equal } else if index + 1 == la { Ordering::Less } else { Ordering::Greater };
            assert!(e.state_stack.is_empty() && e.cmp_ord_stack.len() == 1 && e.cmp_ord_stack[0] == want, "C08,C17:cmp:a-proper-prefix-is-less");
        } else {
            assert!(e.cmp_ord_stack.is_empty() && scheduled_element(&e, 0, index + 1, true), "C08,C17:cmp:next-elements-are-compared-next");
            assert!(e.stack_trace_len == 1, "C10:cmp:trace-item-is-counted");
        }
        core::mem::forget(e);
    }

    //@harness props=C08,C01,C10 quickfor=C08,C10,C17 strength=proof clause="equality of two arrays of ANY lengths (entry): different lengths => false; both empty => true; otherwise exactly: evaluate and compare element 0, continue with EqualsArray at index 0" timeout=900 replay=cmp_arrays
    #[kani::proof]
    #[kani::unwind(8)]
    fn equals_array_entry_contract() {
        let (la, lb): (usize, usize) = (kani::any(), kani::any());
        let mut prog = Program(PhantomData);
        let mut e = ev(&mut prog);
        e.value_stack.push(ValueData::Array(ArrayData::alloc(1, la))); e.value_stack.push(ValueData::Array(ArrayData::alloc(2, lb)));
        let r = e.arm_equals_value();
        assert!(r.is_ok() && e.value_stack.is_empty() && e.cmp_ord_stack.is_empty(), "C08,C01:cmp:equals-stack-effect");
        if la != lb { assert!(e.state_stack.is_empty() && e.bool_stack.len() == 1 && !e.bool_stack[0], "C08:cmp:arrays-of-different-length-are-not-equal"); }
        else if la == 0 { assert!(e.state_stack.is_empty() && e.bool_stack.len() == 1 && e.bool_stack[0], "C08:cmp:empty-arrays-are-equal"); }
        else { assert!(e.bool_stack.is_empty() && scheduled_element(&e, 0, 0, false), "C08:cmp:first-elements-are-evaluated-and-compared-next"); assert!(e.stack_trace_len == 1, "C10:cmp:trace-item-is-counted"); }
        core::mem::forget(e);
    }

    //@harness props=C08,C01,C10 quickfor=C08,C10,C17 strength=proof clause="equality of two arrays of the same length (step at ANY index): a false element result decides false and schedules nothing; a true result at the last index is the final answer; a true result elsewhere schedules exactly the comparison of element index+1 - by induction the result is 'all elements equal'" timeout=900 replay=cmp_arrays
    #[kani::proof]
    #[kani::unwind(8)]
    fn equals_array_step_contract() {
        let (la, index): (usize, usize) = (kani::any(), kani::any());
        kani::assume(index < la);
        let item: bool = kani::any();
        let below: bool = kani::any();
        let mut prog = Program(PhantomData);
        let mut e = ev(&mut prog);
        e.bool_stack.push(below); e.bool_stack.push(item);
        e.arm_equals_array(ArrayData::alloc(1, la).view(), ArrayData::alloc(2, la).view(), index);
        assert!(e.value_stack.is_empty() && e.cmp_ord_stack.is_empty() && e.bool_stack[0] == below, "C08,C01:cmp:equals-stack-effect");
        if !item || index + 1 == la {
            assert!(e.state_stack.is_empty() && e.bool_stack.len() == 2 && e.bool_stack[1] == item, "C08:cmp:element-result-is-final-when-false-or-last");
        } else {
            assert!(e.bool_stack.len() == 1 && scheduled_element(&e, 0, index + 1, false), "C08:cmp:next-elements-are-compared-next");
            assert!(e.stack_trace_len == 1, "C10:cmp:trace-item-is-counted");
        }
        core::mem::forget(e);
    }

    // ---- objects: abstract object (contract of ObjectData's queries, see header) ---------------------
    use super::ast::Visibility as V;
    const NAMES: [InternedStr<'static>; 3] = [InternedStr(1, PhantomData), InternedStr(2, PhantomData), InternedStr(3, PhantomData)];
    fn any_field() -> Option<V> { let k: u8 = kani::any(); kani::assume(k < 4); match k { 0 => None, 1 => Some(V::Default), 2 => Some(V::Hidden), _ => Some(V::ForceVisible) } }
    /// an object over the names {a, b, c} (ids 1, 2, 3), each absent or present with a visibility
    fn object(id: u8, f: &[Option<V>; 3]) -> Gc<ObjectData<'static>> {
        let mut fields = Vec::with_capacity(3);
        let mut i = 0; while i < 3 { if let Some(v) = f[i] { fields.push((NAMES[i], v)); } i += 1; }
        Gc::new(ObjectData { id, fields })
    }
    fn vis(f: Option<V>) -> bool { matches!(f, Some(V::Default) | Some(V::ForceVisible)) }

    //@harness props=C08,C01,C10 quickfor=C08,C10,C17 strength=bounded bound="objects over two field names (ids 1, 2), all 4^4 combinations of absent / : / :: / :::" clause="equality of two objects (entry), objects over TWO field names, every combination of absent / : / :: / ::: on each side (three names exhausted CBMC's memory: measured): false exactly when their sets of VISIBLE field names differ - hidden fields never take part and are never looked up; both without visible fields => true; otherwise the first visible field (in name order) of BOTH objects is evaluated and compared next, the remaining visible names are queued in order, the assertions of both objects are scheduled, one trace item is counted" timeout=900 replay=cmp_objects
    #[kani::proof]
    #[kani::unwind(8)]
    fn equals_object_entry_contract() {
        let l = [any_field(), any_field(), None];
        let r = [any_field(), any_field(), None];
        let mut prog = Program(PhantomData);
        let mut e = ev(&mut prog);
        e.value_stack.push(ValueData::Object(object(0, &l))); e.value_stack.push(ValueData::Object(object(1, &r)));
        let res = e.arm_equals_value();
        assert!(res.is_ok() && e.value_stack.is_empty() && e.cmp_ord_stack.is_empty(), "C08,C01:cmp:equals-stack-effect");
        let same_visible = vis(l[0]) == vis(r[0]) && vis(l[1]) == vis(r[1]) && vis(l[2]) == vis(r[2]);
        let nvis = vis(l[0]) as usize + vis(l[1]) as usize + vis(l[2]) as usize;
        if !same_visible {
            assert!(e.bool_stack.len() == 1 && !e.bool_stack[0] && e.state_stack.is_empty(), "C08:cmp:objects-with-different-visible-fields-are-not-equal");
        } else if nvis == 0 {
            assert!(e.bool_stack.len() == 1 && e.bool_stack[0] && e.state_stack.is_empty(), "C08:cmp:objects-without-visible-fields-are-equal");
        } else {
            let first = if vis(l[0]) { 1usize } else if vis(l[1]) { 2 } else { 3 };
            assert!(e.bool_stack.is_empty() && e.state_stack.len() == 7, "C08:cmp:first-visible-field-is-compared-next");
            // remaining visible names, queued so that pop() yields them in name order
            let ok_queue = match &e.state_stack[0] {
                State::EqualsObject { lhs, rhs, rem_fields } => {
                    let mut want: Vec<u8> = Vec::with_capacity(3);
                    let mut i = 3; while i > first { if vis(l[i - 1]) { want.push(i as u8); } i -= 1; }
                    lhs.id == 0 && rhs.id == 1 && rem_fields.len() == want.len() && { let mut ok = true; let mut j = 0; while j < want.len() { ok = ok && rem_fields[j].0 == want[j]; j += 1; } ok }
                }
                _ => false,
            };
            assert!(ok_queue, "C08:cmp:remaining-visible-fields-are-queued-in-order");
            assert!(matches!(&e.state_stack[1], State::TraceItem(TraceItem::CompareObjectField { name }) if name.0 as usize == first) && e.stack_trace_len == 1, "C10:cmp:trace-item-is-counted");
            assert!(matches!(e.state_stack[2], State::EqualsValue) && is_do_thunk(&e.state_stack[3], 101, first) && is_do_thunk(&e.state_stack[4], 100, first), "C08:cmp:first-visible-field-is-compared-next");
            assert!(matches!(e.state_stack[5], State::AssertsOf(1, _)) && matches!(e.state_stack[6], State::AssertsOf(0, _)), "C08:cmp:object-assertions-are-checked-before-fields-are-compared");
        }
        core::mem::forget(e);
    }

    //@harness props=C08,C01,C10 quickfor=C08,C10,C17 strength=proof clause="equality of two objects (step, ANY queue of up to three remaining visible names that exist in both objects): an empty queue leaves the last field's result as the answer; a false field result decides false and schedules nothing (later fields are never evaluated); a true result schedules exactly the comparison of the next queued field of both objects, with one trace item counted - by induction the result is 'all visible fields equal'" timeout=900 replay=cmp_objects
    #[kani::proof]
    #[kani::unwind(8)]
    fn equals_object_step_contract() {
        let all = [Some(V::Default), Some(V::Default), Some(V::Default)];
        let (lo, ro) = (object(0, &all), object(1, &all));
        let nq: usize = kani::any(); kani::assume(nq <= 3);
        let mut q: Vec<InternedStr<'static>> = Vec::with_capacity(3);
        let mut i = 0; while i < nq { let k: usize = kani::any(); kani::assume(k < 3); q.push(NAMES[k]); i += 1; }
        let last = if nq > 0 { q[nq - 1].0 as usize } else { 0 };
        let (below, item): (bool, bool) = (kani::any(), kani::any());
        let mut prog = Program(PhantomData);
        let mut e = ev(&mut prog);
        e.bool_stack.push(below); e.bool_stack.push(item);
        e.arm_equals_object(lo.view(), ro.view(), q);
        assert!(e.value_stack.is_empty() && e.cmp_ord_stack.is_empty() && e.bool_stack[0] == below, "C08,C01:cmp:equals-stack-effect");
        if nq == 0 || !item {
            assert!(e.state_stack.is_empty() && e.bool_stack.len() == 2 && e.bool_stack[1] == item, "C08:cmp:field-result-is-final-when-false-or-last");
        } else {
            assert!(e.bool_stack.len() == 1 && e.state_stack.len() == 5, "C08:cmp:next-field-is-compared-next");
            assert!(matches!(&e.state_stack[0], State::EqualsObject { lhs, rhs, rem_fields } if lhs.id == 0 && rhs.id == 1 && rem_fields.len() == nq - 1), "C08:cmp:next-field-is-compared-next");
            assert!(matches!(&e.state_stack[1], State::TraceItem(TraceItem::CompareObjectField { name }) if name.0 as usize == last) && e.stack_trace_len == 1, "C10:cmp:trace-item-is-counted");
            assert!(matches!(e.state_stack[2], State::EqualsValue) && is_do_thunk(&e.state_stack[3], 101, last) && is_do_thunk(&e.state_stack[4], 100, last), "C08:cmp:next-field-is-compared-next");
        }
        core::mem::forget(e);
    }

    //@harness props=C08,C01,C10 quickfor=C08,C10,C17 strength=proof expect=fail clause="canary"
    #[kani::proof]
    #[kani::unwind(8)]
    fn cmp_canary() {
        let (la, lb): (usize, usize) = (kani::any(), kani::any());
        let mut prog = Program(PhantomData);
        let mut e = ev(&mut prog);
        e.value_stack.push(ValueData::Array(ArrayData::alloc(1, la))); e.value_stack.push(ValueData::Array(ArrayData::alloc(2, lb)));
        let r = e.arm_compare_value();
        assert!(e.cmp_ord_stack.len() == 1, "canary:cmp:arrays-always-decide-immediately");
        core::mem::forget(e);
    }
}
} // mod u
fn main() {}
