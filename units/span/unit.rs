// Unit span: span.rs extracted WHOLE (SpanId packing, context table, span interner).
#![allow(dead_code, unused)]
// shim: the real alias is HashMap<K, V, foldhash::fast::RandomState>; same container code, a
// deterministic hasher (foldhash seeds itself from clock_gettime, unsupported by Kani).
#[derive(Default)]
pub struct ShimHasher(u64);
impl std::hash::Hasher for ShimHasher {
    fn finish(&self) -> u64 { self.0 }
    fn write(&mut self, bytes: &[u8]) { let mut i = 0; while i < bytes.len() { self.0 = self.0.wrapping_mul(31).wrapping_add(bytes[i] as u64); i += 1; } }
    fn write_usize(&mut self, v: usize) { self.0 = self.0.wrapping_mul(1_000_003).wrapping_add(v as u64); }
    fn write_u64(&mut self, v: u64) { self.0 = self.0.wrapping_mul(1_000_003).wrapping_add(v); }
}
pub type FHashMap<K, V> = std::collections::HashMap<K, V, std::hash::BuildHasherDefault<ShimHasher>>;
mod u {
pub mod span {
//@extract file=rsjsonnet-lang/src/span.rs whole
}
use self::span::*;

#[cfg(kani)]
mod vharness {
    use super::span::*;

    fn mgr3() -> (SpanManager, [usize; 3], [SpanContextId; 3]) {
        let mut m = SpanManager::new();
        let l0: usize = kani::any();
        let l1: usize = kani::any();
        let l2: usize = kani::any();
        kani::assume(l0 <= 1usize << 40 && l1 <= 1usize << 40 && l2 <= 1usize << 40);
        let (c0, _) = m.insert_source_context(l0);
        let (c1, _) = m.insert_source_context(l1);
        let (c2, _) = m.insert_source_context(l2);
        (m, [l0, l1, l2], [c0, c1, c2])
    }

    //@harness props=C16,C14,C15 strength=bounded bound="3 source files, each of any length <= 2^40 (incl. empty); span any start <= end <= len in any of them that takes the inline encoding" clause="get_span(intern_span(c,s,e)) == (c,s,e); none of intern_span's asserts fires; ids of different files never collide" timeout=900 replay=span_roundtrip
    #[kani::proof]
    #[kani::unwind(5)]
    fn span_inline_roundtrip() {
        let (mut m, lens, ctxs) = mgr3();
        let k: usize = kani::any();
        kani::assume(k < 3);
        let (start, end): (usize, usize) = (kani::any(), kani::any());
        kani::assume(start <= end && end <= lens[k]);
        // inline encoding precondition (the other branch is the interner: separate harness)
        let base: u64 = if k == 0 { 0 } else if k == 1 { lens[0] as u64 + 1 } else { lens[0] as u64 + lens[1] as u64 + 2 };
        kani::assume((end - start) as u64 <= (1u64 << 25) - 1 && base + (start as u64) < (1u64 << 38) - 1);
        kani::cover!(k == 2 && start == lens[2] && lens[1] == 0, "cover:span:empty-span-at-eof-after-empty-file");
        kani::cover!(base + start as u64 == (1u64 << 38) - 2, "cover:span:largest-inline-offset");
        let id = m.intern_span(ctxs[k], start, end);
        let (c, s, e) = m.get_span(id);
        assert!(c == ctxs[k], "C16,C14,C15:span:roundtrip-file");
        assert!(s == start, "C16,C14,C15:span:roundtrip-start");
        assert!(e == end, "C16,C14,C15:span:roundtrip-end");
        assert!(s <= e, "C16:span:start-le-end");
    }

    //@harness props=C16,C14,C15 strength=bounded bound="3 source files, each of any length <= 2^40 (incl. empty); ANY span start <= end <= len in any of them - whichever encoding the manager chooses for it (short spans inline, long ones through the interner; the boundary is the code's own, the harness does not know it)" clause="get_span(intern_span(c,s,e)) == (c,s,e) for spans of EVERY length, in particular around the largest length the inline encoding can hold" timeout=1200 replay=span_len
    #[kani::proof]
    #[kani::unwind(5)]
    fn span_roundtrip_any_length() {
        let (mut m, lens, ctxs) = mgr3();
        let k: usize = kani::any();
        kani::assume(k < 3);
        let (start, end): (usize, usize) = (kani::any(), kani::any());
        kani::assume(start <= end && end <= lens[k]);
        let id = m.intern_span(ctxs[k], start, end);
        let (c, s, e) = m.get_span(id);
        assert!(c == ctxs[k] && s == start && e == end, "C16,C14,C15:span:roundtrip-for-every-length");
        kani::cover!(end - start == 1usize << 25, "cover:span:length-2-pow-25");
        kani::cover!(end - start > 1usize << 30, "cover:span:very-long-span");
    }

    //@-harness props=C16,C15 strength=bounded bound="3 source files of any length <= 2^40; two ANY spans a, b of the same file with a.start <= b.end, whichever encoding each takes" clause="make_surrounding_span(a, b) is the span (file, a.start, b.end) - the span of a syntax node that starts at its first token and ends at its last - for spans of every length; its two internal assertions cannot fire under the stated precondition" timeout=1500 replay=span_len
    #[kani::proof]
    #[kani::unwind(5)]
    fn make_surrounding_span_contract() {
        let (mut m, lens, ctxs) = mgr3();
        let k: usize = kani::any();
        kani::assume(k < 3);
        let (s1, e1, s2, e2): (usize, usize, usize, usize) = (kani::any(), kani::any(), kani::any(), kani::any());
        kani::assume(s1 <= e1 && e1 <= lens[k] && s2 <= e2 && e2 <= lens[k] && s1 <= e2);
        let a = m.intern_span(ctxs[k], s1, e1);
        let b = m.intern_span(ctxs[k], s2, e2);
        let r = m.make_surrounding_span(a, b);
        assert!(m.get_span(r) == (ctxs[k], s1, e2), "C16,C15:span:surrounding-span-is-first-start-to-last-end");
    }

    //@-harness props=C16 strength=bounded bound="3 source files of any length <= 2^40; ANY span, interned twice" clause="registering the same (file, start, end) twice yields the same identifier, and both read back the triple" timeout=1500
    #[kani::proof]
    #[kani::unwind(5)]
    fn intern_span_is_idempotent() {
        let (mut m, lens, ctxs) = mgr3();
        let k: usize = kani::any();
        kani::assume(k < 3);
        let (start, end): (usize, usize) = (kani::any(), kani::any());
        kani::assume(start <= end && end <= lens[k]);
        let a = m.intern_span(ctxs[k], start, end);
        let b = m.intern_span(ctxs[k], start, end);
        assert!(a == b, "C16:span:same-triple-same-identifier");
        assert!(m.get_span(b) == (ctxs[k], start, end), "C16:span:roundtrip-for-every-length");
    }

    // Interned path, minimal: ONE concrete span beyond the inline encoding, interned and read back.
    // (The 4-span version with idempotence/distinctness timed out at 1200 s: the real hashbrown
    //  code behind hash_map::Entry is too heavy for CBMC, and span.rs names that type by full path,
    //  so the container cannot be rebound without editing the extracted text.)
    //@harness props=C16 strength=bounded bound="1 file of length 2^39 (concrete), 1 concrete span whose offset exceeds the inline encoding" clause="an interned span round-trips through get_span" timeout=300
    #[kani::proof]
    #[kani::unwind(8)]
    fn span_interned_roundtrip_minimal() {
        let mut m = SpanManager::new();
        let (c0, _) = m.insert_source_context(1usize << 39);
        let a = m.intern_span(c0, (1usize << 38) - 1, (1usize << 38) + 5);
        assert!(m.get_span(a) == (c0, (1usize << 38) - 1, (1usize << 38) + 5), "C16:span:interned-roundtrip-offset");
    }

    // make_surrounding_span is NOT under contract: a harness for it timed out at 900 s (symbolic file
    // index) and again at 300 s after narrowing to a concrete file index, so it was removed rather
    // than given a longer timeout.  That it returns (file, a.start, b.end) follows on paper from the
    // round-trip contract above plus its two asserts, but that argument is not machine-checked.

    //@harness props=C16 strength=bounded expect=fail clause="canary"
    #[kani::proof]
    #[kani::unwind(5)]
    fn span_canary() {
        let (mut m, lens, ctxs) = mgr3();
        kani::assume(lens[1] >= 1 && lens[1] < 100 && lens[0] < 100);
        let id = m.intern_span(ctxs[1], 0, 1);
        assert!(m.get_span(id).0 == ctxs[0], "canary:span:always-first-file");
    }
}
} // mod u
fn main() {}
