// Unit fmthex: Evaluator::render_hex (%x / %X of std.format), extracted verbatim together with render_int (which a
// refactoring may make it call), onto an empty receiver.  Separate from unit fmt so that a signature change of
// render_int does not take this unit down with it.  Only the value ZERO can be decided: the digit loop uses f64 `%`,
// which CBMC over-approximates even for constants.
#![allow(dead_code, unused)]
mod u {
use std::marker::PhantomData;
//@include shim/bstr.rs
impl BStr {
    pub fn extend<I: IntoIterator<Item = char>>(&mut self, it: I) { for c in it { self.push(c); } }
}
use self::BStr as String;
pub struct Evaluator<'a, 'p>(PhantomData<(&'a (), &'p ())>);
//@extract file=rsjsonnet-lang/src/program/eval/format.rs impl=Evaluator methods=render_int,render_hex

#[cfg(kani)]
mod vharness {
    use super::*;
    fn zero_layout(hex: bool) {
        let (min_chars, min_digits): (usize, usize) = (kani::any(), kani::any());
        kani::assume(min_chars <= 8 && min_digits <= 8);
        let (blank, plus, alt, capitals, neg): (bool, bool, bool, bool, bool) = (kani::any(), kani::any(), kani::any(), kani::any(), kani::any());
        let mut ev = Evaluator(PhantomData);
        let out = ev.render_hex(if neg { -0.0 } else { 0.0 }, min_chars, min_digits, blank, plus, alt, capitals);
        let o = out.as_bytes();
        // expected: [sign] [0x | 0X] zeros "0"   (Python / C: '%#x' % 0 == '0x0', '%#o' % 0 == '0' in C, '0o0' in Python: not pinned here)
        let sign: Option<u8> = if !hex && neg { Some(b'-') } else if plus { Some(b'+') } else if blank { Some(b' ') } else { None };
        let prefix: &[u8] = if hex && alt { if capitals { b"0X" } else { b"0x" } } else { b"" };
        let head = sign.is_some() as usize + prefix.len();
        let digits = 1usize;
        let zeros = core::cmp::max(min_digits.saturating_sub(digits), min_chars.saturating_sub(head + digits));
        assert!(o.len() == head + zeros + digits, "C19:fmt:integer-zero-length-is-sign-prefix-padding-digit");
        let mut k = 0;
        if let Some(sg) = sign { assert!(o[0] == sg, "C19:fmt:sign-comes-first"); k = 1; }
        let mut j = 0; while j < prefix.len() { assert!(o[k + j] == prefix[j], "C19:fmt:alternate-form-prefix-follows-the-sign-and-precedes-the-zero-padding"); j += 1; }
        k += prefix.len();
        let mut z = 0; while z < zeros + digits { assert!(o[k + z] == b'0', "C19:fmt:zero-padding-then-the-digit"); z += 1; }
    }
    //@harness props=C19,C01 strength=bounded bound="the value 0 (and -0), width and precision 0..8, every flag combination" clause="%x / %X of zero: [sign] then the 0x / 0X prefix of the '#' flag, then zero padding up to the precision or (with the 0 flag) the width, then the digit - printf's layout ('%#x' % 0 is '0x0', '%#06x' % 0 is '0x0000')" timeout=600 replay=fmt_hex_zero
    #[kani::proof]
    #[kani::unwind(12)]
    fn hex_zero_layout() { zero_layout(true); }

    //@harness props=C19 strength=bounded expect=fail clause="canary"
    #[kani::proof]
    #[kani::unwind(12)]
    fn fmthex_canary() {
        let mut ev = Evaluator(PhantomData);
        let out = ev.render_hex(0.0, kani::any::<u8>() as usize % 8, 0, false, false, false, false);
        assert!(out.as_bytes().len() == 1, "canary:fmthex:never-padded");
    }
}
} // mod u
fn main() {}
