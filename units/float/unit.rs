// Unit float: float.rs (number -> integer conversions used for every index, size, width,
// precision and code point; frexp for std.mantissa/std.exponent), extracted whole.
#![allow(dead_code, unused)]
mod u {
//@extract file=rsjsonnet-lang/src/float.rs whole drop=mod:tests

#[cfg(kani)]
mod vharness {
    use super::*;

    //@harness props=C01,C18,C19 strength=proof clause="try_to_u8_exact: Some(v) <=> x is exactly an integer in 0..=255, v == x; total on NaN/inf (all f64)"
    #[kani::proof]
    fn float_try_to_u8_exact() {
        let x: f64 = kani::any();
        match try_to_u8_exact(x) {
            Some(v) => assert!(v as f64 == x, "C01,C18,C19:float:u8-exact-value"),
            None => assert!(!(x >= 0.0 && x <= 255.0 && x.trunc() == x), "C01,C18,C19:float:u8-exact-none-only-if-not-a-byte"),
        }
    }

    //@harness props=C01,C18,C19 strength=proof clause="try_to_u32: Some(v) <=> -1 < x < 2^32 (not NaN), v == trunc(x) (all f64)"
    #[kani::proof]
    fn float_try_to_u32() {
        let x: f64 = kani::any();
        match try_to_u32(x) {
            Some(v) => { assert!(x > -1.0 && x < 4294967296.0, "C01,C18,C19:float:u32-some-implies-range"); assert!(v as f64 == x.trunc(), "C01,C18,C19:float:u32-is-trunc"); }
            None => assert!(!(x > -1.0 && x < 4294967296.0), "C01,C18,C19:float:u32-none-only-if-out-of-range"),
        }
    }

    //@harness props=C01,C18 strength=proof clause="try_to_i32_exact: Some(v) <=> x exactly an integer in i32 range (all f64)"
    #[kani::proof]
    fn float_try_to_i32_exact() {
        let x: f64 = kani::any();
        match try_to_i32_exact(x) {
            Some(v) => assert!(v as f64 == x, "C01,C18:float:i32-exact-value"),
            None => assert!(!(x >= -2147483648.0 && x <= 2147483647.0 && x.trunc() == x), "C01,C18:float:i32-none-only-if-not-i32"),
        }
    }

    // usize conversions.  Contract: below 2^64 the result is exactly trunc(x).  At x == 2^64 the
    // code answers Some(usize::MAX) (saturating cast, and usize::MAX as f64 rounds up to 2^64): an
    // off-by-one in a value no collection can have as index or size (observable only as the number
    // quoted in an out-of-range message); none of the listed properties is affected, so the
    // contract admits it explicitly instead of demanding more than the properties state.
    //@harness props=C01,C18 strength=proof clause="try_to_usize: -1 < x < 2^64 => Some(trunc(x)) exactly; x == 2^64 => Some(usize::MAX) or None; otherwise None (all f64)"
    #[kani::proof]
    fn float_try_to_usize() {
        let x: f64 = kani::any();
        let top = 18446744073709551616.0f64;
        match try_to_usize(x) {
            Some(v) => {
                assert!(x > -1.0 && x <= top, "C01,C18:float:usize-some-implies-range");
                if x < top { assert!(v as u128 == x.trunc() as u128, "C01,C18:float:usize-is-trunc-exactly-below-2^64"); }
                else { assert!(v == usize::MAX, "C01,C18:float:usize-saturates-at-2^64"); }
            }
            None => assert!(!(x > -1.0 && x < top), "C01,C18:float:usize-none-only-if-out-of-range"),
        }
    }
    //@harness props=C01,C18 strength=proof clause="try_to_usize_exact: integer 0 <= x < 2^64 => Some(x) exactly; x == 2^64 => Some(usize::MAX) or None; otherwise None (all f64)"
    #[kani::proof]
    fn float_try_to_usize_exact() {
        let x: f64 = kani::any();
        let top = 18446744073709551616.0f64;
        match try_to_usize_exact(x) {
            Some(v) => {
                assert!(x >= 0.0 && x <= top && x.trunc() == x, "C01,C18:float:usize-exact-some-implies-integer-in-range");
                if x < top { assert!(v as u128 == x as u128, "C01,C18:float:usize-exact-value-below-2^64"); }
                else { assert!(v == usize::MAX, "C01,C18:float:usize-exact-saturates-at-2^64"); }
            }
            None => assert!(!(x >= 0.0 && x < top && x.trunc() == x), "C01,C18:float:usize-exact-none-only-if-not-usize"),
        }
    }

    fn pow2(k: i32) -> f64 { f64::from_bits(((k + 1023) as u64) << 52) }

    //@harness props=C01,C06 strength=proof clause="frexp: total; finite nonzero x => x == mant * 2^exp with 0.5 <= |mant| < 1; zero => (x, 0); exp in -1073..=1024 (all f64)" timeout=900
    #[kani::proof]
    fn float_frexp() {
        let x: f64 = kani::any();
        let (mant, exp) = frexp(x);
        if x == 0.0 {
            assert!(mant == 0.0 && exp == 0 && mant.is_sign_negative() == x.is_sign_negative(), "C01,C06:float:frexp-zero");
        } else if x.is_finite() {
            assert!(mant.abs() >= 0.5 && mant.abs() < 1.0, "C01,C06:float:frexp-mantissa-normalised");
            assert!(exp >= -1073 && exp <= 1024, "C01,C06:float:frexp-exponent-range");
            let e1 = (exp as i32) / 2;
            let e2 = exp as i32 - e1;
            assert!((mant * pow2(e1)) * pow2(e2) == x, "C01,C06:float:frexp-reconstructs-x");
        }
        assert!(!mant.is_infinite() || !x.is_finite(), "C01,C06:float:frexp-finite-mantissa-for-finite-input");
    }

    //@harness props=C01 strength=proof expect=fail clause="canary"
    #[kani::proof]
    fn float_canary() {
        let x: f64 = kani::any();
        assert!(try_to_u32(x).is_some(), "canary:float:always-some");
    }
}
} // mod u
fn main() {}
