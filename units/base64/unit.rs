// Unit base64: encode_base64 and decode_base64 (with its nested chr_to_index), the kernels of std.base64,
// std.base64Decode and std.base64DecodeBytes, extracted verbatim from program/eval/stdlib.rs.
// Hand-written environment: String bound to BStr; `format!` (used only for the text of the 'invalid
// character' error) bound to a local macro that yields an empty BStr - the message text is not part of any
// contract here; EvalError is an opaque token.
#![allow(dead_code, unused)]
mod u {
//@include shim/bstr.rs
use self::BStr as String;
macro_rules! format { ($($t:tt)*) => { BStr::new() } }
pub struct EvalError;
type EvalResult<T> = Result<T, Box<EvalError>>;

//@extract file=rsjsonnet-lang/src/program/eval/stdlib.rs item=fn:encode_base64
//@extract file=rsjsonnet-lang/src/program/eval/stdlib.rs item=fn:decode_base64

#[cfg(kani)]
mod vharness {
    use super::*;

    // ---- specification: RFC 4648 section 4, written independently of the code ----------------------------
    fn alpha(v: u8) -> u8 {          // value 0..63 -> character
        if v < 26 { b'A' + v } else if v < 52 { b'a' + (v - 26) } else if v < 62 { b'0' + (v - 52) } else if v == 62 { b'+' } else { b'/' }
    }
    fn value(c: char) -> Option<u8> { // character -> value
        let x = c as u32;
        if x >= 'A' as u32 && x <= 'Z' as u32 { Some((x - 'A' as u32) as u8) }
        else if x >= 'a' as u32 && x <= 'z' as u32 { Some((x - 'a' as u32) as u8 + 26) }
        else if x >= '0' as u32 && x <= '9' as u32 { Some((x - '0' as u32) as u8 + 52) }
        else if c == '+' { Some(62) } else if c == '/' { Some(63) } else { None }
    }
    /// the 24-bit group of up to three bytes, as four 6-bit values
    fn sextets(b: &[u8; 3]) -> [u8; 4] {
        let w = ((b[0] as u32) << 16) | ((b[1] as u32) << 8) | b[2] as u32;
        [((w >> 18) & 63) as u8, ((w >> 12) & 63) as u8, ((w >> 6) & 63) as u8, (w & 63) as u8]
    }

    fn encode_group(n: usize) {
        // n = number of input bytes of the (only, hence last) group: 0..=3
        let b: [u8; 3] = [kani::any(), kani::any(), kani::any()];
        let src: [EvalResult<u8>; 3] = [Ok(b[0]), Ok(b[1]), Ok(b[2])];
        let r = match n { 0 => encode_base64(src.into_iter().take(0)), 1 => encode_base64(src.into_iter().take(1)), 2 => encode_base64(src.into_iter().take(2)), _ => encode_base64(src.into_iter().take(3)) };
        let out = match r { Ok(s) => s, Err(_) => { assert!(false, "C20:base64:encoding-bytes-never-fails"); return; } };
        let o = out.as_bytes();
        if n == 0 { assert!(o.len() == 0, "C20:base64:empty-input-encodes-to-empty-text"); return; }
        let padded = [b[0], if n >= 2 { b[1] } else { 0 }, if n >= 3 { b[2] } else { 0 }];
        let s = sextets(&padded);
        assert!(o.len() == 4, "C20:base64:every-group-is-four-characters");
        assert!(o[0] == alpha(s[0]) && o[1] == alpha(s[1]), "C20:base64:first-two-characters-are-the-top-12-bits");
        assert!(o[2] == if n >= 2 { alpha(s[2]) } else { b'=' }, "C20:base64:third-character-or-padding");
        assert!(o[3] == if n >= 3 { alpha(s[3]) } else { b'=' }, "C20:base64:fourth-character-or-padding");
    }
    //@harness props=C20,C01 quickfor=C20 strength=proof clause="std.base64 on an empty input: empty text"
    #[kani::proof]
    #[kani::unwind(6)]
    fn base64_encode_group_0() { encode_group(0); }
    //@harness props=C20,C01 quickfor=C20 strength=proof clause="std.base64 on a final group of 1 byte, EVERY byte value: two alphabet characters for the top 12 bits (low bits zero) and '==' (RFC 4648)" replay=base64
    #[kani::proof]
    #[kani::unwind(6)]
    fn base64_encode_group_1() { encode_group(1); }
    //@harness props=C20,C01 quickfor=C20 strength=proof clause="std.base64 on a final group of 2 bytes, EVERY pair: three alphabet characters and '=' (RFC 4648)" replay=base64
    #[kani::proof]
    #[kani::unwind(6)]
    fn base64_encode_group_2() { encode_group(2); }
    //@harness props=C20,C01 quickfor=C20 strength=proof clause="std.base64 on a group of 3 bytes, EVERY triple: the four alphabet characters of its 24 bits, no padding (RFC 4648)" replay=base64
    #[kani::proof]
    #[kani::unwind(6)]
    fn base64_encode_group_3() { encode_group(3); }

    //@harness props=C20,C01 quickfor=C20 strength=proof clause="std.base64Decode on one group of four ARBITRARY characters (every Unicode scalar value in every position): accepted exactly when it is c c c c, c c c = or c c = = with c in the base64 alphabet, and then yields exactly the 3 / 2 / 1 bytes of its bits; anything else (a non-alphabet character, '=' in the first two positions or before a non-'=') is an error, never a wrong answer" timeout=900 replay=base64
    #[kani::proof]
    #[kani::unwind(6)]
    fn base64_decode_last_group() {
        let c: [char; 4] = [kani::any(), kani::any(), kani::any(), kani::any()];
        let r = decode_base64(&c[..]);
        let v = [value(c[0]), value(c[1]), value(c[2]), value(c[3])];
        let n_data = if c[2] == '=' && c[3] == '=' { 2 } else if c[3] == '=' { 3 } else { 4 };
        let mut ok = true; let mut i = 0; while i < n_data { if v[i].is_none() { ok = false; } i += 1; }
        match r {
            Err(_) => assert!(!ok, "C20:base64:wellformed-group-is-accepted"),
            Ok(bytes) => {
                assert!(ok, "C20:base64:malformed-group-is-rejected");
                let s = [v[0].unwrap_or(0), v[1].unwrap_or(0), if n_data >= 3 { v[2].unwrap_or(0) } else { 0 }, if n_data >= 4 { v[3].unwrap_or(0) } else { 0 }];
                let w = ((s[0] as u32) << 18) | ((s[1] as u32) << 12) | ((s[2] as u32) << 6) | s[3] as u32;
                assert!(bytes.len() == n_data - 1, "C20:base64:padding-determines-the-number-of-bytes");
                assert!(bytes[0] == (w >> 16) as u8, "C20:base64:decoded-bytes-are-the-bits-of-the-characters");
                if n_data >= 3 { assert!(bytes[1] == (w >> 8) as u8, "C20:base64:decoded-bytes-are-the-bits-of-the-characters"); }
                if n_data >= 4 { assert!(bytes[2] == w as u8, "C20:base64:decoded-bytes-are-the-bits-of-the-characters"); }
            }
        }
    }

    //@harness props=C20,C01 quickfor=C20 strength=proof clause="std.base64Decode rejects every text whose length is not a multiple of four (lengths 1, 2, 3, 5 of arbitrary characters), and accepts the empty text as zero bytes" timeout=600
    #[kani::proof]
    #[kani::unwind(50)]
    fn base64_decode_length_rule() {
        let c: [char; 5] = [kani::any(), kani::any(), kani::any(), kani::any(), kani::any()];
        assert!(decode_base64(&c[..1]).is_err() && decode_base64(&c[..2]).is_err() && decode_base64(&c[..3]).is_err() && decode_base64(&c[..5]).is_err(), "C20:base64:length-not-a-multiple-of-four-is-rejected");
        assert!(matches!(decode_base64(&c[..0]), Ok(ref b) if b.is_empty()), "C20:base64:empty-text-decodes-to-no-bytes");
    }

    fn round_trip(n: usize) {
        let b: [u8; 5] = [kani::any(), kani::any(), kani::any(), kani::any(), kani::any()];
        let src: [EvalResult<u8>; 5] = [Ok(b[0]), Ok(b[1]), Ok(b[2]), Ok(b[3]), Ok(b[4])];
        let enc = match (match n { 1 => encode_base64(src.into_iter().take(1)), 2 => encode_base64(src.into_iter().take(2)), 3 => encode_base64(src.into_iter().take(3)), 4 => encode_base64(src.into_iter().take(4)), _ => encode_base64(src.into_iter().take(5)) }) { Ok(s) => s, Err(_) => { assert!(false, "C20:base64:encoding-bytes-never-fails"); return; } };
        let eb = enc.as_bytes();
        assert!(eb.len() == 4 * ((n + 2) / 3), "C20:base64:encoded-length-is-four-per-started-group");
        // loop-free copy (eb.len() is 4 or 8 here)
        let at = |i: usize| -> char { if i < eb.len() { eb[i] as char } else { '\0' } };
        let chars = [at(0), at(1), at(2), at(3), at(4), at(5), at(6), at(7)];
        match decode_base64(&chars[..eb.len()]) {
            Ok(back) => { assert!(back.len() == n && back[0] == b[0] && (n < 2 || back[1] == b[1]) && (n < 3 || back[2] == b[2]) && (n < 4 || back[3] == b[3]) && (n < 5 || back[4] == b[4]), "C20:base64:decoder-inverts-encoder"); }
            Err(_) => assert!(false, "C20:base64:decoder-accepts-what-the-encoder-emits"),
        }
    }
    //@harness props=C20 strength=bounded bound="byte strings of exactly 1 byte, every value" clause="std.base64DecodeBytes(std.base64(bytes)) == bytes" timeout=600
    #[kani::proof]
    #[kani::unwind(5)]
    fn base64_round_trip_1() { round_trip(1); }
    //@harness props=C20 strength=bounded bound="byte strings of exactly 2 bytes, every value" clause="std.base64DecodeBytes(std.base64(bytes)) == bytes" timeout=600
    #[kani::proof]
    #[kani::unwind(5)]
    fn base64_round_trip_2() { round_trip(2); }
    //@harness props=C20 strength=bounded bound="byte strings of exactly 4 bytes (two groups, the second padded), every value" clause="std.base64DecodeBytes(std.base64(bytes)) == bytes" timeout=900
    #[kani::proof]
    #[kani::unwind(5)]
    fn base64_round_trip_4() { round_trip(4); }

    //@harness props=C20 strength=proof expect=fail clause="canary"
    #[kani::proof]
    #[kani::unwind(6)]
    fn base64_canary() {
        let c: [char; 4] = [kani::any(), kani::any(), kani::any(), kani::any()];
        assert!(decode_base64(&c[..]).is_ok(), "canary:base64:every-group-decodes");
    }
}
} // mod u
fn main() {}
