// Unit utf8: the lexer's UTF-8 decoder, extracted verbatim, against the
// first-error semantics of core::str::from_utf8 (= String::from_utf8_lossy chunking).
#![allow(dead_code, unused)]
mod u {
use std::marker::PhantomData;

// ---- shim receiver: the subset of `Lexer`'s fields the extracted methods touch ----
pub struct Lexer<'a, 'p, 'ast> {
    input: &'a [u8],
    start_pos: usize,
    end_pos: usize,
    _p: PhantomData<(&'p (), &'ast ())>,
}

//@extract file=rsjsonnet-lang/src/lexer/mod.rs impl=Lexer methods=decode_cont_char,eat_any_byte,eat_cont_any_char,eat_any_char

// ---- specification: Unicode Table 3-7 well-formed sequences, maximal-subpart error length
// (what core::str::from_utf8 / Utf8Chunks implement; written independently of the code) ----
#[derive(PartialEq, Eq, Clone, Copy)]
enum Dec { Char(u32, usize), Bad(usize) }

fn is_cont(b: u8) -> bool { b >= 0x80 && b <= 0xBF }

fn spec_decode(w: &[u8; 4], n: usize) -> Dec {
    // n >= 1 bytes available in w[..n]; bytes beyond n are absent
    let b0 = w[0];
    let get = |i: usize| -> Option<u8> { if i < n { Some(w[i]) } else { None } };
    if b0 < 0x80 { return Dec::Char(b0 as u32, 1); }
    if b0 >= 0xC2 && b0 <= 0xDF {
        return match get(1) { Some(b1) if is_cont(b1) => Dec::Char(((b0 as u32 & 0x1F) << 6) | (b1 as u32 & 0x3F), 2), _ => Dec::Bad(1) };
    }
    if b0 >= 0xE0 && b0 <= 0xEF {
        let (lo, hi) = if b0 == 0xE0 { (0xA0, 0xBF) } else if b0 == 0xED { (0x80, 0x9F) } else { (0x80, 0xBF) };
        let b1 = match get(1) { Some(b1) if b1 >= lo && b1 <= hi => b1, _ => return Dec::Bad(1) };
        let b2 = match get(2) { Some(b2) if is_cont(b2) => b2, _ => return Dec::Bad(2) };
        return Dec::Char(((b0 as u32 & 0x0F) << 12) | ((b1 as u32 & 0x3F) << 6) | (b2 as u32 & 0x3F), 3);
    }
    if b0 >= 0xF0 && b0 <= 0xF4 {
        let (lo, hi) = if b0 == 0xF0 { (0x90, 0xBF) } else if b0 == 0xF4 { (0x80, 0x8F) } else { (0x80, 0xBF) };
        let b1 = match get(1) { Some(b1) if b1 >= lo && b1 <= hi => b1, _ => return Dec::Bad(1) };
        let b2 = match get(2) { Some(b2) if is_cont(b2) => b2, _ => return Dec::Bad(2) };
        let b3 = match get(3) { Some(b3) if is_cont(b3) => b3, _ => return Dec::Bad(3) };
        return Dec::Char(((b0 as u32 & 0x07) << 18) | ((b1 as u32 & 0x3F) << 12) | ((b2 as u32 & 0x3F) << 6) | (b3 as u32 & 0x3F), 4);
    }
    Dec::Bad(1)
}

#[cfg(kani)]
mod vharness {
    use super::*;

    //@harness props=C14,C01 strength=proof clause="eat_any_char == from_utf8 first-chunk semantics, all windows" timeout=600 replay=utf8_string
    #[kani::proof]
    fn utf8_decode_matches_spec() {
        let w: [u8; 4] = kani::any();
        let n: usize = kani::any();
        kani::assume(n <= 4);
        let input = &w[..n];
        let mut lx = Lexer { input, start_pos: 0, end_pos: 0, _p: PhantomData };
        let r = lx.eat_any_char();
        if n == 0 {
            assert!(r.is_none(), "C14:utf8:eof-none");
            assert!(lx.end_pos == 0, "C14:utf8:eof-no-advance");
        } else {
            let spec = spec_decode(&w, n);
            kani::cover!(matches!(spec, Dec::Char(_, 4)), "cover:utf8:4-byte-char");
            kani::cover!(matches!(spec, Dec::Bad(3)), "cover:utf8:bad-len-3");
            kani::cover!(matches!(spec, Dec::Bad(1)) && n == 1, "cover:utf8:truncated");
            match (r, spec) {
                (Some(Ok(c)), Dec::Char(cp, len)) => {
                    assert!(c as u32 == cp, "C14:utf8:char-value");
                    assert!(lx.end_pos == len, "C14:utf8:char-consumed-len");
                }
                (Some(Err(el)), Dec::Bad(len)) => {
                    assert!(el == len, "C14:utf8:error-len");
                    assert!(lx.end_pos == len, "C14:utf8:error-consumed-len");
                }
                _ => assert!(false, "C14:utf8:valid-iff-wellformed"),
            }
            assert!(lx.end_pos >= 1 && lx.end_pos <= n, "C14:utf8:progress-in-bounds");
        }
        assert!(lx.start_pos == 0, "C14:utf8:frame-start_pos");
    }

    // The spec function itself agrees with core::str::from_utf8 on every window (so the
    // specification is the standard one, not my reading of it).
    //@harness props=C14 strength=proof clause="spec_decode == core::str::from_utf8 error_len/valid_up_to" timeout=900 tier=thorough
    #[kani::proof]
    #[kani::unwind(6)]
    fn utf8_spec_is_std() {
        let w: [u8; 4] = kani::any();
        let n: usize = kani::any();
        kani::assume(n >= 1 && n <= 4);
        match spec_decode(&w, n) {
            Dec::Char(cp, len) => {
                let s = core::str::from_utf8(&w[..len]);
                assert!(s.is_ok(), "C14:utf8:spec-char-is-valid-std");
                assert!(char::from_u32(cp).is_some(), "C14:utf8:spec-char-is-scalar");
            }
            Dec::Bad(len) => {
                match core::str::from_utf8(&w[..n]) {
                    Ok(_) => assert!(false, "C14:utf8:spec-bad-but-std-ok"),
                    Err(e) => {
                        assert!(e.valid_up_to() == 0, "C14:utf8:spec-bad-valid_up_to");
                        let el = match e.error_len() { Some(l) => l, None => n };
                        assert!(el == len, "C14:utf8:spec-bad-error_len");
                    }
                }
            }
        }
    }

    //@harness props=C14 strength=proof expect=fail clause="canary: must fail" timeout=300
    #[kani::proof]
    fn utf8_canary() {
        let w: [u8; 4] = kani::any();
        let mut lx = Lexer { input: &w[..], start_pos: 0, end_pos: 0, _p: PhantomData };
        let r = lx.eat_any_char();
        assert!(lx.end_pos == 1, "canary:utf8:always-one-byte");
    }
}
} // mod u
fn main() {}
