// Unit crop: the --max-trace cropping of stack traces.  Extracted verbatim:
// SessionInner::print_stack_trace (rsjsonnet-front/src/session.rs), onto a shim SessionInner that has
// the two fields the method reads (max_trace, custom_stack_trace) and shims for the renderer
// (crate::report::stack_trace::render records WHICH sub-slice it was given) and the printers.
// A stack-trace item is a zero-sized token (so a slice of ANY length exists).
#![allow(dead_code, unused)]
//@harness-prefix vharness::
use std::cell::RefCell;
pub mod rsjsonnet_lang { pub mod program { pub struct EvalStackTraceItem; } }
pub struct SpanManager;
pub struct SrcManager;
pub struct Program<'p>(pub std::marker::PhantomData<&'p ()>);
impl<'p> Program<'p> { pub fn span_manager(&self) -> &SpanManager { &SpanManager } }
/// what the renderer / printers were asked to do, in order
pub enum Ev { Render { len: usize, first_addr: usize }, Note }
pub static mut LOG: Vec<Ev> = Vec::new();
pub mod report { pub mod stack_trace {
    use crate::*;
    pub fn render<T>(items: &[T], _sm: &SpanManager, _src: &SrcManager) -> usize {
        unsafe { (*std::ptr::addr_of_mut!(LOG)).push(Ev::Render { len: items.len(), first_addr: items.as_ptr() as usize }); }
        0
    }
} }
pub struct SessionInner<'p> { src_mgr: SrcManager, custom_stack_trace: Vec<String>, max_trace: usize, _p: std::marker::PhantomData<&'p ()> }
impl<'p> SessionInner<'p> {
    fn print_rich_message(&self, _msg: &usize) {}
    // shim: the note's text is not rendered (symbolic integer formatting is outside CBMC's reach); the
    // hidden-items count is re-computed by the harness from the same operands and checked for underflow
    fn print_note<T: std::fmt::Display>(&self, _msg: T) { unsafe { (*std::ptr::addr_of_mut!(LOG)).push(Ev::Note); } }
}
//@extract file=rsjsonnet-front/src/session.rs impl=SessionInner methods=print_stack_trace

#[cfg(kani)]
mod vharness {
    use super::*;
    use super::rsjsonnet_lang::program::EvalStackTraceItem;

    fn log() -> &'static Vec<Ev> { unsafe { &*std::ptr::addr_of!(LOG) } }

    //@harness props=C16,C01 strength=proof clause="--max-trace cropping, for a stack trace of ANY length and ANY crop size (incl. 0, 1 and usize::MAX): rendering never fails (no slice index out of range, no arithmetic underflow/overflow); a trace not longer than the crop size is rendered whole, once; a longer one is rendered as two disjoint parts of the trace that together show at most the crop size, with one 'items hidden' note between them (how the crop size is split between the parts is not prescribed)" replay=crop
    #[kani::proof]
    #[kani::unwind(3)]
    fn crop_any_len_any_max_trace() {
        let n: usize = kani::any();
        let max_trace: usize = kani::any();
        // zero-sized items: a slice of any length is a valid object
        let stack: &[EvalStackTraceItem] = unsafe { std::slice::from_raw_parts(std::ptr::NonNull::dangling().as_ptr(), n) };
        let s = SessionInner { src_mgr: SrcManager, custom_stack_trace: Vec::new(), max_trace, _p: std::marker::PhantomData };
        s.print_stack_trace(&Program(std::marker::PhantomData), stack);
        let l = log();
        if n <= max_trace {
            assert!(l.len() == 1 && matches!(l[0], Ev::Render { len, .. } if len == n), "C16:crop:short-trace-is-rendered-whole-once");
        } else {
            assert!(l.len() == 3 && matches!(l[1], Ev::Note), "C16:crop:long-trace-is-two-parts-with-a-hidden-note-between");
            let (a, b) = match (&l[0], &l[2]) { (Ev::Render { len: a, .. }, Ev::Render { len: b, .. }) => (*a, *b), _ => (usize::MAX, usize::MAX) };
            // what the property needs: the two parts are sub-slices that exist (their lengths fit the trace
            // without overlapping) and respect the crop size; how the crop size is split is not prescribed
            assert!(a != usize::MAX && a <= max_trace && b <= max_trace - a, "C16:crop:the-two-parts-together-show-at-most-max-trace-items");
            assert!(a <= n && b <= n - a, "C16:crop:the-two-parts-are-disjoint-sub-slices-of-the-trace");
        }
        kani::cover!(n > max_trace && max_trace == 0, "cover:crop:zero-crop");
        kani::cover!(n > max_trace && max_trace % 2 == 0 && max_trace > 0, "cover:crop:even-crop");
    }

    //@harness props=C16 strength=proof expect=fail clause="canary"
    #[kani::proof]
    #[kani::unwind(3)]
    fn crop_canary() {
        let n: usize = kani::any();
        let max_trace: usize = kani::any();
        let stack: &[EvalStackTraceItem] = unsafe { std::slice::from_raw_parts(std::ptr::NonNull::dangling().as_ptr(), n) };
        let s = SessionInner { src_mgr: SrcManager, custom_stack_trace: Vec::new(), max_trace, _p: std::marker::PhantomData };
        s.print_stack_trace(&Program(std::marker::PhantomData), stack);
        assert!(log().len() == 1, "canary:crop:never-cropped");
    }
}
fn main() {}
