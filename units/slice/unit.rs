// Unit slice: get_slice_range (index arithmetic of every string / array slice), verbatim.
#![allow(dead_code, unused)]
mod u {
use std::marker::PhantomData;
pub type SpanId = u32;
pub enum EvalErrorKind { Other { span: Option<SpanId>, message: &'static str } }
pub struct EvalError { pub kind: EvalErrorKind }
type EvalResult<T> = Result<T, Box<EvalError>>;
pub struct Evaluator<'a, 'p> { _p: PhantomData<(&'a (), &'p ())> }
impl<'a, 'p> Evaluator<'a, 'p> {
    fn report_error(&self, kind: EvalErrorKind) -> Box<EvalError> { Box::new(EvalError { kind }) }
}
// error-message text is not part of the contract (formatting a symbolic f64 does not terminate in CBMC)
macro_rules! format { ($($t:tt)*) => { "<message elided by shim>" } }

//@extract file=rsjsonnet-lang/src/program/eval/expr.rs impl=Evaluator methods=get_slice_range

#[cfg(kani)]
mod vharness {
    use super::*;

    fn is_int(v: f64) -> bool { v.is_finite() && v.trunc() == v }
    /// Python slice bound, clamped to [0, len]
    fn spec_bound(len: usize, v: f64) -> usize {
        let lf = len as f64;          // exact: len <= 2^40
        if v < 0.0 { if -v >= lf { 0 } else { len - (-v) as usize } } else if v >= lf { len } else { v as usize }
    }
    fn opt_f64() -> Option<f64> { if kani::any() { Some(kani::any()) } else { None } }

    //@harness props=C18,C01 strength=proof clause="get_slice_range: Ok((s,e,k)) => s <= e, k >= 1 (so skip/take/step_by cannot panic), and [min(s,len), min(e,len)) step k is the Python slice; Err exactly when an argument is not an integer / step < 1 (all f64 options, len <= 2^40)" timeout=900 replay=slice_range
    #[kani::proof]
    fn slice_range_contract() {
        let len: usize = kani::any();
        kani::assume(len <= 1usize << 40);
        let (start, end, step) = (opt_f64(), opt_f64(), opt_f64());
        let mut ev = Evaluator { _p: PhantomData };
        let r = ev.get_slice_range(len, start, end, step, None);
        let valid = start.map_or(true, is_int) && end.map_or(true, is_int) && step.map_or(true, |k| is_int(k) && k >= 1.0);
        match r {
            Err(_) => assert!(!valid, "C18,C01:slice:error-only-for-invalid-arguments"),
            Ok((s, e, k)) => {
                assert!(valid, "C18,C01:slice:ok-only-for-valid-arguments");
                assert!(s <= e, "C18,C01:slice:start-le-end");
                assert!(k >= 1, "C18,C01:slice:step-at-least-one");
                let want_s = match start { None => 0, Some(v) => spec_bound(len, v) };
                let want_e0 = match end { None => len, Some(v) => spec_bound(len, v) };
                let want_e = if want_e0 < want_s { want_s } else { want_e0 };
                assert!(s.min(len) == want_s, "C18:slice:start-is-python-slice-start");
                assert!(e.min(len) == want_e, "C18:slice:end-is-python-slice-end");
                match step { None => assert!(k == 1, "C18:slice:default-step-1"),
                             Some(v) => if v < 18446744073709551616.0 { assert!(k as f64 == v, "C18:slice:step-value") } }
            }
        }
    }

    //@harness props=C18,C01 strength=proof expect=fail clause="canary"
    #[kani::proof]
    fn slice_canary() {
        let mut ev = Evaluator { _p: PhantomData };
        let r = ev.get_slice_range(kani::any(), opt_f64(), None, None, None);
        assert!(r.is_ok(), "canary:slice:always-ok");
    }
}
} // mod u
fn main() {}
