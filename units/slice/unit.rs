// Unit slice: get_slice_range (index arithmetic of every string / array slice) and do_slice_string (string
// slicing: s[a:b:c] and std.slice on strings) from expr.rs and do_std_substr (std.substr) from stdlib.rs, verbatim.
// String is bound to BStr.
#![allow(dead_code, unused)]
mod u {
use std::marker::PhantomData;
//@include shim/bstr.rs
impl FromIterator<char> for BStr { fn from_iter<I: IntoIterator<Item = char>>(it: I) -> Self { let mut r = BStr::new(); for c in it { r.push(c); } r } }
use self::BStr as String;
pub enum ValueData<'p> { String(String), Number(f64), _P(PhantomData<&'p ()>) }
pub type SpanId = u32;
pub enum EvalErrorKind { Other { span: Option<SpanId>, message: &'static str } }
pub struct EvalError { pub kind: EvalErrorKind }
type EvalResult<T> = Result<T, Box<EvalError>>;
pub struct Evaluator<'a, 'p> { value_stack: Vec<ValueData<'p>>, _p: PhantomData<(&'a (), &'p ())> }
impl<'a, 'p> Evaluator<'a, 'p> {
    fn report_error(&self, kind: EvalErrorKind) -> Box<EvalError> { Box::new(EvalError { kind }) }
    // shims of the argument-type checks: the right type is unwrapped, anything else is the type error
    fn expect_std_func_arg_string(&self, v: ValueData<'p>, _f: &str, _i: usize) -> EvalResult<String> { match v { ValueData::String(s) => Ok(s), _ => Err(Box::new(EvalError { kind: EvalErrorKind::Other { span: None, message: "type" } })) } }
    fn expect_std_func_arg_number(&self, v: ValueData<'p>, _f: &str, _i: usize) -> EvalResult<f64> { match v { ValueData::Number(x) => Ok(x), _ => Err(Box::new(EvalError { kind: EvalErrorKind::Other { span: None, message: "type" } })) } }
}
// error-message text is not part of the contract (formatting a symbolic f64 does not terminate in CBMC)
macro_rules! format { ($($t:tt)*) => { "<message elided by shim>" } }

//@extract file=rsjsonnet-lang/src/program/eval/expr.rs impl=Evaluator methods=get_slice_range,do_slice_string
//@extract file=rsjsonnet-lang/src/program/eval/stdlib.rs impl=Evaluator methods=do_std_substr

#[cfg(kani)]
mod vharness {
    use super::*;

    fn is_int(v: f64) -> bool { v.is_finite() && v.trunc() == v }
    /// Python slice bound, clamped to [0, len]
    fn spec_bound(len: usize, v: f64) -> usize {
        let lf = len as f64;          // exact: len <= 2^40
        if v < 0.0 { if -v >= lf { 0 } else { len - (-v) as usize } } else if v >= lf { len } else { v as usize }
    }
    fn opt_f64() -> Option<f64> { if kani::any() { Some(kani::any()) } else { None } }

    //@harness props=C18,C01 strength=proof clause="get_slice_range: Ok((s,e,k)) => s <= e, k >= 1 (so skip/take/step_by cannot panic), and [min(s,len), min(e,len)) step k is the Python slice; Err exactly when an argument is not an integer / step < 1 (all f64 options, len <= 2^40)" timeout=900 replay=slice_range
    #[kani::proof]
    fn slice_range_contract() {
        let len: usize = kani::any();
        kani::assume(len <= 1usize << 40);
        let (start, end, step) = (opt_f64(), opt_f64(), opt_f64());
        let mut ev = Evaluator { value_stack: Vec::new(), _p: PhantomData };
        let r = ev.get_slice_range(len, start, end, step, None);
        let valid = start.map_or(true, is_int) && end.map_or(true, is_int) && step.map_or(true, |k| is_int(k) && k >= 1.0);
        match r {
            Err(_) => assert!(!valid, "C18,C01:slice:error-only-for-invalid-arguments"),
            Ok((s, e, k)) => {
                assert!(valid, "C18,C01:slice:ok-only-for-valid-arguments");
                assert!(s <= e, "C18,C01:slice:start-le-end");
                assert!(k >= 1, "C18,C01:slice:step-at-least-one");
                let want_s = match start { None => 0, Some(v) => spec_bound(len, v) };
                let want_e0 = match end { None => len, Some(v) => spec_bound(len, v) };
                let want_e = if want_e0 < want_s { want_s } else { want_e0 };
                assert!(s.min(len) == want_s, "C18:slice:start-is-python-slice-start");
                assert!(e.min(len) == want_e, "C18:slice:end-is-python-slice-end");
                match step { None => assert!(k == 1, "C18:slice:default-step-1"),
                             Some(v) => if v < 18446744073709551616.0 { assert!(k as f64 == v, "C18:slice:step-value") } }
            }
        }
    }

    /// string slicing against Python's s[a:b:c] on CODE POINTS, for one concrete string (symbolic text is out of
    /// CBMC's reach) and small integer bounds
    fn slice_string(text: &'static str, chars: &[char]) {
        let n = chars.len();
        // small integer bounds (a symbolic f64 bound makes Chars::advance_by's chunk loops unwind without end: measured);
        // get_slice_range itself is proved for every f64 in slice_range_contract
        let small = || -> Option<f64> { if kani::any() { let v: i8 = kani::any(); kani::assume(v >= -6 && v <= 6); Some(v as f64) } else { None } };
        let (start, end) = (small(), small());
        let step: Option<f64> = if kani::any() { let v: u8 = kani::any(); kani::assume(v <= 3); Some(v as f64) } else { None };
        let valid = step.map_or(true, |k| k >= 1.0);
        let mut ev = Evaluator { value_stack: Vec::with_capacity(1), _p: PhantomData };
        let r = ev.do_slice_string(text, start, end, step, None);
        if !valid { assert!(r.is_err(), "C18,C01:slice:error-only-for-invalid-arguments"); return; }
        assert!(r.is_ok() && ev.value_stack.len() == 1, "C18,C01:slice:ok-only-for-valid-arguments");
        let s0 = match start { None => 0, Some(v) => spec_bound(n, v) };
        let e0 = match end { None => n, Some(v) => spec_bound(n, v) };
        let k: usize = match step { None => 1, Some(v) => if v >= 16.0 { 16 } else { v as usize } };
        let mut want = BStr::new();
        let mut i = s0; while i < e0 { want.push(chars[i]); i += k; }
        match &ev.value_stack[0] {
            ValueData::String(got) => { let (g, w) = (got.as_bytes(), want.as_bytes()); assert!(g.len() == w.len(), "C18:slice:string-slice-is-the-python-slice-on-code-points"); let mut j = 0; while j < g.len() { assert!(g[j] == w[j], "C18:slice:string-slice-is-the-python-slice-on-code-points"); j += 1; } }
            _ => assert!(false, "C18:slice:string-slice-yields-a-string"),
        }
    }
    // DISABLED: symbolic bounds through skip / take / step_by: passed once in 5.5 min, then ran out of 20 GB after 23 min with smaller bounds - too fragile to register
    //@-harness props=C18,C01 strength=bounded tier=thorough bound="the string 'h\u00e9llo' (5 code points, 6 bytes), start / end null or any integer in -6..6, step null or 0..3" clause="s[a:b:c] on a string counts code points for every bound, negative ones included: the result is Python's slice of the code-point sequence" timeout=900 replay=slice_string
    #[kani::proof]
    #[kani::unwind(10)]
    fn slice_string_hello() { slice_string("h\u{e9}llo", &['h', '\u{e9}', 'l', 'l', 'o']); }
    // DISABLED: symbolic bounds through skip / take / step_by: passed once in 5.5 min, then ran out of 20 GB after 23 min with smaller bounds - too fragile to register
    //@-harness props=C18,C01 strength=bounded tier=thorough bound="the string 'a\U0001F60Eb\u20ac' (4 code points, 9 bytes), start / end null or any integer in -6..6, step null or 0..3" clause="s[a:b:c] on a string counts code points for every bound, negative ones included: the result is Python's slice of the code-point sequence" timeout=900 replay=slice_string
    #[kani::proof]
    #[kani::unwind(12)]
    fn slice_string_astral() { slice_string("a\u{1F60E}b\u{20ac}", &['a', '\u{1F60E}', 'b', '\u{20ac}']); }

    // DISABLED: did not finish in 900 s on a loaded machine (skip/take with symbolic counts); kept for a quiet re-measurement
    //@-harness props=C18,C01 strength=bounded bound="the string 'h\u00e9l\U0001F60Eo' (5 code points, 9 bytes); from and len any integer in 0..8 (other numbers: the error path)" clause="std.substr(s, from, len) is the len code points starting at code point from (clipped at the end of the string) - counted in code points, not bytes" timeout=900 replay=substr
    #[kani::proof]
    #[kani::unwind(20)]
    fn substr_counts_code_points() {
        let chars = ['h', '\u{e9}', 'l', '\u{1F60E}', 'o'];
        let (f, l): (u8, u8) = (kani::any(), kani::any());
        kani::assume(f <= 8 && l <= 8);
        let mut ev = Evaluator { value_stack: Vec::with_capacity(3), _p: PhantomData };
        ev.value_stack.push(ValueData::String(BStr::from("h\u{e9}l\u{1F60E}o")));
        ev.value_stack.push(ValueData::Number(f as f64));
        ev.value_stack.push(ValueData::Number(l as f64));
        let r = ev.do_std_substr();
        assert!(r.is_ok() && ev.value_stack.len() == 1, "C18,C01:slice:substr-of-valid-arguments-succeeds");
        let mut want = BStr::new();
        let mut i = f as usize; let mut k = 0usize; while i < 5 && k < l as usize { want.push(chars[i]); i += 1; k += 1; }
        match &ev.value_stack[0] {
            ValueData::String(got) => { let (g, w) = (got.as_bytes(), want.as_bytes()); assert!(g.len() == w.len(), "C18:slice:substr-is-the-code-point-substring"); let mut j = 0; while j < g.len() { assert!(g[j] == w[j], "C18:slice:substr-is-the-code-point-substring"); j += 1; } }
            _ => assert!(false, "C18:slice:substr-yields-a-string"),
        }
    }

    /// ONE concrete slice of the 3-code-point string 'h e-acute EURO' (6 bytes): symbolic bounds make the
    /// skip / take / step_by chain too slow for CBMC (7+ min even on a 2-code-point string: measured), so the quick
    /// tier enumerates concrete (start, end) pairs, negative ones included; expected value = Python's slice
    fn slice_case(start: Option<f64>, end: Option<f64>, want: &'static str) {
        let mut ev = Evaluator { value_stack: Vec::with_capacity(1), _p: PhantomData };
        let r = ev.do_slice_string("h\u{e9}\u{20ac}", start, end, None, None);
        assert!(r.is_ok() && ev.value_stack.len() == 1, "C18,C01:slice:ok-only-for-valid-arguments");
        match &ev.value_stack[0] {
            ValueData::String(got) => { let (g, w) = (got.as_bytes(), want.as_bytes()); assert!(g.len() == w.len(), "C18:slice:string-slice-is-the-python-slice-on-code-points"); let mut j = 0; while j < g.len() && j < w.len() { assert!(g[j] == w[j], "C18:slice:string-slice-is-the-python-slice-on-code-points"); j += 1; } }
            _ => assert!(false, "C18:slice:string-slice-yields-a-string"),
        }
    }
    //@harness props=C18,C01 strength=bounded bound="ONE execution: ('h' e-acute EURO)[:-1]" clause="s[a:b] on a string counts code points, negative bounds included: this instance must give Python's slice" timeout=300 replay=slice_string
    #[kani::proof]
    #[kani::unwind(10)]
    fn slice_case_none_m1() { slice_case(None, Some(-1.0), "h\u{e9}"); }
    //@harness props=C18,C01 strength=bounded bound="ONE execution: ('h' e-acute EURO)[-1:]" clause="s[a:b] on a string counts code points, negative bounds included: this instance must give Python's slice" timeout=300 replay=slice_string
    #[kani::proof]
    #[kani::unwind(10)]
    fn slice_case_m1_none() { slice_case(Some(-1.0), None, "\u{20ac}"); }
    //@harness props=C18,C01 strength=bounded bound="ONE execution: ('h' e-acute EURO)[-2:]" clause="s[a:b] on a string counts code points, negative bounds included: this instance must give Python's slice" timeout=300 replay=slice_string
    #[kani::proof]
    #[kani::unwind(10)]
    fn slice_case_m2_none() { slice_case(Some(-2.0), None, "\u{e9}\u{20ac}"); }
    //@harness props=C18,C01 strength=bounded bound="ONE execution: ('h' e-acute EURO)[:-2]" clause="s[a:b] on a string counts code points, negative bounds included: this instance must give Python's slice" timeout=300 replay=slice_string
    #[kani::proof]
    #[kani::unwind(10)]
    fn slice_case_none_m2() { slice_case(None, Some(-2.0), "h"); }
    //@harness props=C18,C01 strength=bounded bound="ONE execution: ('h' e-acute EURO)[-2:-1]" clause="s[a:b] on a string counts code points, negative bounds included: this instance must give Python's slice" timeout=300 replay=slice_string
    #[kani::proof]
    #[kani::unwind(10)]
    fn slice_case_m2_m1() { slice_case(Some(-2.0), Some(-1.0), "\u{e9}"); }
    //@harness props=C18,C01 strength=bounded bound="ONE execution: ('h' e-acute EURO)[1:2]" clause="s[a:b] on a string counts code points, negative bounds included: this instance must give Python's slice" timeout=300 replay=slice_string
    #[kani::proof]
    #[kani::unwind(10)]
    fn slice_case_p1_p2() { slice_case(Some(1.0), Some(2.0), "\u{e9}"); }
    //@harness props=C18,C01 strength=bounded bound="ONE execution: ('h' e-acute EURO)[-3:9]" clause="s[a:b] on a string counts code points, negative bounds included: this instance must give Python's slice" timeout=300 replay=slice_string
    #[kani::proof]
    #[kani::unwind(10)]
    fn slice_case_m3_p9() { slice_case(Some(-3.0), Some(9.0), "h\u{e9}\u{20ac}"); }

    //@harness props=C18,C01 strength=proof expect=fail clause="canary"
    #[kani::proof]
    fn slice_canary() {
        let mut ev = Evaluator { value_stack: Vec::new(), _p: PhantomData };
        let r = ev.get_slice_range(kani::any(), opt_f64(), None, None, None);
        assert!(r.is_ok(), "canary:slice:always-ok");
    }
}
} // mod u
fn main() {}
