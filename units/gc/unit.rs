// Unit gc: gc/mod.rs and gc/trace.rs extracted WHOLE.
//
// STATUS: NOT A CHECK.  The harness below is kept as a record of the attempt; its directive is
// disabled (`//@-harness`) so that ./check does not discover it.  Measured on the unchanged tree:
//   run 1, no stubs ............................. timeout 300 s, symbolic execution never ended
//                                                 (do_count_chars 210, memchr 148, memcmp 31 unwindings)
//   run 2, core::fmt::write stubbed (confirmed
//          "- Stub: core :: fmt :: write") ...... timeout 300 s, symbolic execution never ended
//                                                 (memchr_naive 408, fmt::builders::PadAdapter::write_str 97)
// i.e. Debug/Display formatting on std's panic paths (swap_remove, RefCell, expect/unwrap), reached
// for ONE FULLY CONCRETE 2-node heap.  The solver was never reached; nothing about the collector
// itself was decided either way.  See DESIGN.md section 11.
// Restructuring done by the extraction (module DECLARATIONS only, no statement is touched):
//   * the file-module declarations `mod trace;` and `#[cfg(test)] mod tests;` of gc/mod.rs are
//     dropped (a single-file unit has no sibling files);
//   * gc/trace.rs is spliced in as the inline child module `gc::trace`, where `mod trace;` put it.
// The harness uses only the crate-visible API (alloc, alloc_view, view, num_objects, gc); it never
// reads GcBox::visits / GcBox::mark.
#![allow(dead_code, unused)]
mod u {
pub mod gc {
//@extract file=rsjsonnet-lang/src/gc/mod.rs whole drop=mod:trace,mod:tests
mod trace {
//@extract file=rsjsonnet-lang/src/gc/trace.rs whole
}
}
use self::gc::*;
use std::cell::RefCell;

// TRUSTED harness code: the node type. Its `trace` must visit each Gc field exactly once - the
// specification's notion of "edge" is exactly what this visits. It goes through the real
// RefCell / Option impls of gc/trace.rs.
pub struct Node { next: RefCell<Option<Gc<Node>>> }
impl GcTrace for Node {
    fn trace<'a>(&self, ctx: &mut impl GcTraceCtx<'a>) where Self: 'a { self.next.trace(ctx); }
}

#[cfg(kani)]
mod vharness {
    use super::*;

    // Panic-message formatting on std's error paths (swap_remove's "index (is {}) should be < len
    // (is {})", RefCell's already-borrowed message, expect) is not part of any contract here and
    // dominated symbolic execution (do_count_chars / memchr / memcmp: 400+ unwindings, no end in
    // 200 s).  core::fmt::write is therefore stubbed; no postcondition reads message text.
    fn stub_fmt_write(_o: &mut dyn core::fmt::Write, _a: core::fmt::Arguments<'_>) -> core::fmt::Result { Ok(()) }

    // MEASUREMENT INSTANCE (one concrete heap): A -> B -> A, every external handle dropped.
    //@-harness props=C03 strength=bounded bound="ONE concrete heap: 2 nodes in a cycle, no external handle" clause="a cycle with no external handle is reclaimed entirely" timeout=300 args="-Z stubbing"
    #[kani::proof]
    #[kani::unwind(6)]
    #[kani::stub(core::fmt::write, stub_fmt_write)]
    fn gc_cycle2_unrooted() {
        let ctx = GcContext::new();
        let a = ctx.alloc(Node { next: RefCell::new(None) });
        let b = ctx.alloc(Node { next: RefCell::new(Some(a.clone())) });
        *a.view().next.borrow_mut() = Some(b.clone());
        assert!(ctx.num_objects() == 2, "C03:gc:two-allocated");
        drop(a);
        drop(b);
        ctx.gc();
        assert!(ctx.num_objects() == 0, "C03:gc:unrooted-cycle-is-reclaimed");
    }
}
} // mod u
fn main() {}
