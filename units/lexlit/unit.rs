// Unit lexlit: literal decoding in the lexer.  lex_quoted_string / lex_verbatim_string / lex_text_block /
// lex_number (and everything they call) extracted verbatim from lexer/mod.rs onto the same shim
// receiver and collaborators as unit lexstep (span manager returning the pair, arena / interner copying
// the text, String bound to BStr).  The harnesses call the literal functions DIRECTLY, in the state in
// which next_token calls them (delimiter already consumed), on inputs of a fixed shape with symbolic
// payload (code units, escape letters) - not on arbitrary byte strings.
#![allow(dead_code, unused)]
pub mod span {
    #[derive(Copy, Clone, Debug, PartialEq, Eq, PartialOrd, Ord, Hash)]
    pub struct SpanId(pub usize, pub usize);
    #[derive(Copy, Clone, Debug, PartialEq, Eq, PartialOrd, Ord, Hash)]
    pub struct SpanContextId(pub usize);
    pub struct SpanManager { pub len: usize }
    impl SpanManager {
        pub fn intern_span(&mut self, _context: SpanContextId, start: usize, end: usize) -> SpanId {
            // precondition of the real SpanManager::intern_span (its three assert!s)
            assert!(start <= end, "C14,C01,C16:lexstep:span-handed-to-span-manager-has-start-le-end");
            assert!(end <= self.len, "C14,C01,C16:lexstep:span-handed-to-span-manager-lies-within-the-file");
            SpanId(start, end)
        }
    }
}
pub mod arena {
    pub struct Arena;
    impl Arena {
        pub fn alloc_str(&self, value: &str) -> &str { Box::leak(Box::<str>::from(value)) }
    }
}
pub mod interner {
    use crate::arena::Arena;
    #[derive(Copy, Clone, Debug, PartialEq, Eq, PartialOrd, Ord, Hash)]
    pub struct InternedStr<'a>(pub &'a str);
    pub struct StrInterner<'a>(pub core::marker::PhantomData<&'a ()>);
    impl<'a> StrInterner<'a> {
        pub fn intern(&self, arena: &'a Arena, value: &str) -> InternedStr<'a> { InternedStr(arena.alloc_str(value)) }
    }
}
pub mod token {
//@extract file=rsjsonnet-lang/src/token.rs whole
}
mod u {
use crate::arena::Arena;
use crate::interner::StrInterner;
use crate::span::{SpanContextId, SpanId, SpanManager};
use crate::token::{Number, STokenKind, Token, TokenKind};
//@include shim/bstr.rs
use self::BStr as String;

//@extract file=rsjsonnet-lang/src/lexer/error.rs item=enum:LexError

// shim receiver: the real struct's fields, same names, same types (collaborators are the shims above)
pub struct Lexer<'a, 'p, 'ast> {
    arena: &'p Arena,
    ast_arena: &'ast Arena,
    str_interner: &'a StrInterner<'p>,
    span_mgr: &'a mut SpanManager,
    span_ctx: SpanContextId,
    input: &'a [u8],
    start_pos: usize,
    end_pos: usize,
}

//@extract file=rsjsonnet-lang/src/lexer/mod.rs impl=Lexer methods=next_token,lex_single_line_comment,lex_multi_line_comment,lex_operator,lex_ident,lex_number,lex_quoted_string,lex_verbatim_string,lex_text_block,eat_byte,eat_byte_if,eat_get_byte_if,eat_map_byte,eat_slice,decode_cont_char,eat_any_byte,eat_cont_any_char,eat_any_char,commit_token,make_span

#[cfg(kani)]
mod vharness {
    use super::*;

    fn lexer<'a>(arena: &'a Arena, interner: &'a StrInterner<'a>, mgr: &'a mut SpanManager, input: &'a [u8], consumed: usize) -> Lexer<'a, 'a, 'a> {
        Lexer { arena, ast_arena: arena, str_interner: interner, span_mgr: mgr, span_ctx: SpanContextId(0), input, start_pos: 0, end_pos: consumed }
    }
    const HEXL: [u8; 16] = *b"0123456789abcdef";
    const HEXU: [u8; 16] = *b"0123456789ABCDEF";
    fn hex4(out: &mut [u8], at: usize, cu: u16, upper: bool) {
        let t = if upper { &HEXU } else { &HEXL };
        out[at] = t[(cu >> 12) as usize & 15]; out[at + 1] = t[(cu >> 8) as usize & 15]; out[at + 2] = t[(cu >> 4) as usize & 15]; out[at + 3] = t[cu as usize & 15];
    }
    /// loop-free: is `a` exactly the first n (<= 8) bytes of w?  (keeps the harness's own loops out of the global unwinding bound)
    fn same8(a: &[u8], w: &[u8; 8], n: usize) -> bool {
        a.len() == n && (n < 1 || a[0] == w[0]) && (n < 2 || a[1] == w[1]) && (n < 3 || a[2] == w[2]) && (n < 4 || a[3] == w[3])
            && (n < 5 || a[4] == w[4]) && (n < 6 || a[5] == w[5]) && (n < 7 || a[6] == w[6]) && (n < 8 || a[7] == w[7])
    }
    fn is_sur(cu: u16) -> bool { cu >= 0xD800 && cu <= 0xDFFF }
    fn enc(buf: &mut [u8; 8], n: &mut usize, cp: u32) {
        // independent UTF-8 encoder (specification side)
        if cp < 0x80 { buf[*n] = cp as u8; *n += 1; }
        else if cp < 0x800 { buf[*n] = 0xC0 | (cp >> 6) as u8; buf[*n + 1] = 0x80 | (cp & 0x3F) as u8; *n += 2; }
        else if cp < 0x10000 { buf[*n] = 0xE0 | (cp >> 12) as u8; buf[*n + 1] = 0x80 | ((cp >> 6) & 0x3F) as u8; buf[*n + 2] = 0x80 | (cp & 0x3F) as u8; *n += 3; }
        else { buf[*n] = 0xF0 | (cp >> 18) as u8; buf[*n + 1] = 0x80 | ((cp >> 12) & 0x3F) as u8; buf[*n + 2] = 0x80 | ((cp >> 6) & 0x3F) as u8; buf[*n + 3] = 0x80 | (cp & 0x3F) as u8; *n += 4; }
    }
    fn same(a: &[u8], b: &[u8]) -> bool { if a.len() != b.len() { return false; } let mut i = 0; while i < a.len() { if a[i] != b[i] { return false; } i += 1; } true }

    //@harness props=C14,C01 quickfor=C14 strength=proof clause="two adjacent \\uXXXX escapes in a quoted string, for EVERY pair of 16-bit code units and either hex-digit case: a non-surrogate first unit is that code point and the second escape is decoded independently (a lone surrogate there is an InvalidUtf16EscapeSequence error); a high surrogate followed by a low surrogate is the one supplementary code point 0x10000 + ((hi - 0xD800) << 10) + (lo - 0xDC00); any other surrogate combination is an InvalidUtf16EscapeSequence error naming both units; nothing is dropped or merged otherwise; the token spans the whole literal" timeout=900 replay=lex_unicode_pair
    #[kani::proof]
    #[kani::unwind(4)]
    fn quoted_unicode_escape_pair() {
        let (cu1, cu2): (u16, u16) = (kani::any(), kani::any());
        let upper: bool = kani::any();
        let mut input = *b"\"\\u0000\\u0000\"";
        hex4(&mut input, 3, cu1, upper); hex4(&mut input, 9, cu2, upper);
        let arena = Arena; let interner = StrInterner(core::marker::PhantomData); let mut mgr = SpanManager { len: 14 };
        let mut lx = lexer(&arena, &interner, &mut mgr, &input[..], 1);
        let r = lx.lex_quoted_string(b'"');
        let mut want = [0u8; 8]; let mut n = 0usize;
        let mut want_err: Option<(u16, Option<u16>)> = None;
        if !is_sur(cu1) {
            enc(&mut want, &mut n, cu1 as u32);
            if !is_sur(cu2) { enc(&mut want, &mut n, cu2 as u32); } else { want_err = Some((cu2, None)); }
        } else if cu1 < 0xDC00 && cu2 >= 0xDC00 && cu2 <= 0xDFFF {
            enc(&mut want, &mut n, 0x10000 + (((cu1 - 0xD800) as u32) << 10) + (cu2 - 0xDC00) as u32);
        } else {
            want_err = Some((cu1, Some(cu2)));
        }
        match r {
            Ok(tok) => {
                assert!(want_err.is_none(), "C14:lexlit:invalid-surrogate-combination-is-an-error");
                match tok.kind {
                    TokenKind::String(s) => assert!(same8(s.as_bytes(), &want, n), "C14:lexlit:unicode-escapes-decode-to-exactly-the-code-points-the-grammar-assigns"),
                    _ => assert!(false, "C14:lexlit:quoted-string-yields-a-string-token"),
                }
                assert!(tok.span == SpanId(0, 14), "C14:lexlit:string-token-spans-the-whole-literal");
            }
            Err(LexError::InvalidUtf16EscapeSequence { cu1: a, cu2: b, .. }) => {
                assert!(want_err == Some((a, b)), "C14:lexlit:valid-escapes-are-not-rejected-and-the-error-names-the-offending-units");
            }
            Err(_) => assert!(false, "C14:lexlit:no-other-error-for-wellformed-hex-escapes"),
        }
        kani::cover!(cu1 >= 0xD000 && cu1 < 0xD800, "cover:lexlit:hangul-range-first-unit");
    }

    //@harness props=C14,C01 quickfor=C14 strength=proof clause="ONE \\uXXXX escape in a quoted string, EVERY 16-bit code unit, either hex case: a non-surrogate unit decodes to that code point; a surrogate not followed by another escape is an InvalidUtf16EscapeSequence error" timeout=900 replay=lex_unicode_pair
    #[kani::proof]
    #[kani::unwind(4)]
    fn quoted_unicode_escape_single() {
        let cu1: u16 = kani::any();
        let upper: bool = kani::any();
        let mut input = *b"\"\\u0000\"";
        hex4(&mut input, 3, cu1, upper);
        let arena = Arena; let interner = StrInterner(core::marker::PhantomData); let mut mgr = SpanManager { len: 8 };
        let mut lx = lexer(&arena, &interner, &mut mgr, &input[..], 1);
        let r = lx.lex_quoted_string(b'"');
        let mut want = [0u8; 8]; let mut n = 0usize;
        if !is_sur(cu1) { enc(&mut want, &mut n, cu1 as u32); }
        match r {
            Ok(tok) => {
                assert!(!is_sur(cu1), "C14:lexlit:invalid-surrogate-combination-is-an-error");
                match tok.kind { TokenKind::String(s) => assert!(same8(s.as_bytes(), &want, n), "C14:lexlit:unicode-escapes-decode-to-exactly-the-code-points-the-grammar-assigns"), _ => assert!(false, "C14:lexlit:quoted-string-yields-a-string-token") }
                assert!(tok.span == SpanId(0, 8), "C14:lexlit:string-token-spans-the-whole-literal");
            }
            Err(LexError::InvalidUtf16EscapeSequence { cu1: a, cu2: b, .. }) => assert!(is_sur(cu1) && a == cu1 && b.is_none(), "C14:lexlit:valid-escapes-are-not-rejected-and-the-error-names-the-offending-units"),
            Err(_) => assert!(false, "C14:lexlit:no-other-error-for-wellformed-hex-escapes"),
        }
    }

    //@harness props=C14,C01 quickfor=C14 strength=proof clause="\\uXXXX\\uYYYY in a quoted string whose first unit lies in U+D000..U+DFFF (all 4096: the surrogates and the 2048 code points below them that share their leading hex digit) and whose second unit is ANY 16-bit value (lower-case hex): a non-surrogate first unit is its own code point and the second escape is decoded independently; a high surrogate followed by a low surrogate is the one supplementary code point; any other surrogate combination is an error naming both units" timeout=1200 replay=lex_unicode_pair
    #[kani::proof]
    #[kani::unwind(4)]
    fn quoted_unicode_escape_pair_d_block() {
        let lo12: u16 = kani::any(); kani::assume(lo12 < 0x1000);
        let cu1: u16 = 0xD000 | lo12;
        let cu2: u16 = kani::any();
        let mut input = *b"\"\\ud000\\u0000\"";
        input[4] = HEXL[(cu1 >> 8) as usize & 15]; input[5] = HEXL[(cu1 >> 4) as usize & 15]; input[6] = HEXL[cu1 as usize & 15];
        hex4(&mut input, 9, cu2, false);
        let arena = Arena; let interner = StrInterner(core::marker::PhantomData); let mut mgr = SpanManager { len: 14 };
        let mut lx = lexer(&arena, &interner, &mut mgr, &input[..], 1);
        let r = lx.lex_quoted_string(b'"');
        let mut want = [0u8; 8]; let mut n = 0usize;
        let mut want_err: Option<(u16, Option<u16>)> = None;
        if !is_sur(cu1) {
            enc(&mut want, &mut n, cu1 as u32);
            if !is_sur(cu2) { enc(&mut want, &mut n, cu2 as u32); } else { want_err = Some((cu2, None)); }
        } else if cu1 < 0xDC00 && cu2 >= 0xDC00 && cu2 <= 0xDFFF {
            enc(&mut want, &mut n, 0x10000 + (((cu1 - 0xD800) as u32) << 10) + (cu2 - 0xDC00) as u32);
        } else { want_err = Some((cu1, Some(cu2))); }
        match r {
            Ok(tok) => {
                assert!(want_err.is_none(), "C14:lexlit:invalid-surrogate-combination-is-an-error");
                match tok.kind { TokenKind::String(s) => assert!(same8(s.as_bytes(), &want, n), "C14:lexlit:unicode-escapes-decode-to-exactly-the-code-points-the-grammar-assigns"), _ => assert!(false, "C14:lexlit:quoted-string-yields-a-string-token") }
            }
            Err(LexError::InvalidUtf16EscapeSequence { cu1: a, cu2: b, .. }) => assert!(want_err == Some((a, b)), "C14:lexlit:valid-escapes-are-not-rejected-and-the-error-names-the-offending-units"),
            Err(_) => assert!(false, "C14:lexlit:no-other-error-for-wellformed-hex-escapes"),
        }
    }

    //@harness props=C14,C01 quickfor=C14 strength=proof clause="single-character escapes, for EVERY byte after the backslash: \\\" \\' \\\\ \\/ \\b \\f \\n \\r \\t decode to exactly \" ' \\ / U+0008 U+000C U+000A U+000D U+0009; every other byte is an error (never silently kept or dropped)" timeout=600
    #[kani::proof]
    #[kani::unwind(4)]
    fn quoted_single_escape() {
        let x: u8 = kani::any();
        let input = [b'"', b'\\', x, b'"', b'"'];      // trailing byte: must not be consumed
        let arena = Arena; let interner = StrInterner(core::marker::PhantomData); let mut mgr = SpanManager { len: 5 };
        let mut lx = lexer(&arena, &interner, &mut mgr, &input[..], 1);
        let r = lx.lex_quoted_string(b'"');
        let want: Option<u8> = match x { b'"' => Some(b'"'), b'\'' => Some(b'\''), b'\\' => Some(b'\\'), b'/' => Some(b'/'), b'b' => Some(8), b'f' => Some(12), b'n' => Some(10), b'r' => Some(13), b't' => Some(9), _ => None };
        match (r, want) {
            (Ok(tok), Some(w)) => {
                let end = 4;      // the literal ends at the first unescaped quote; the fifth byte is never reached
                match tok.kind { TokenKind::String(s) => assert!(s.as_bytes().len() == 1 && s.as_bytes()[0] == w, "C14:lexlit:single-escapes-decode-per-the-grammar"), _ => assert!(false, "C14:lexlit:quoted-string-yields-a-string-token") }
                assert!(tok.span == SpanId(0, end), "C14:lexlit:string-token-spans-the-whole-literal");
            }
            (Ok(_), None) => assert!(false, "C14:lexlit:unknown-escape-is-an-error"),
            (Err(_), Some(_)) => assert!(false, "C14:lexlit:known-escape-is-accepted"),
            (Err(_), None) => {}
        }
    }

    //@harness props=C14,C01 quickfor=C14 strength=bounded bound="text blocks of the shape ||| T '  a' T T '  b' T |||  with each of the four line terminators T either LF or CRLF (16 concrete inputs), and the same with |||-" clause="text-block value: indentation stripped, every line terminator - including that of a fully empty line - kept exactly as written (LF or CRLF), |||- drops only the final LF; the token spans the whole block" timeout=900 replay=lex_textblock
    #[kani::proof]
    #[kani::unwind(40)]
    fn textblock_line_terminators() {
        let mut k = 0usize;
        while k < 32 {
            let strip = k >= 16;
            let mut input = [0u8; 32]; let mut n = 0usize;
            let mut want = [0u8; 16]; let mut wn = 0usize;
            let put = |buf: &mut [u8], n: &mut usize, s: &[u8]| { let mut i = 0; while i < s.len() { buf[*n] = s[i]; *n += 1; i += 1; } };
            let t = |bit: usize| -> &'static [u8] { if (k >> bit) & 1 == 1 { b"\r\n" } else { b"\n" } };
            put(&mut input, &mut n, b"|||"); if strip { put(&mut input, &mut n, b"-"); }
            put(&mut input, &mut n, t(0));
            put(&mut input, &mut n, b"  a"); put(&mut input, &mut n, t(1)); put(&mut want, &mut wn, b"a"); put(&mut want, &mut wn, t(1));
            put(&mut input, &mut n, t(2)); put(&mut want, &mut wn, t(2));
            put(&mut input, &mut n, b"  b"); put(&mut input, &mut n, t(3)); put(&mut want, &mut wn, b"b"); put(&mut want, &mut wn, t(3));
            put(&mut input, &mut n, b"|||");
            if strip { wn -= 1; }
            let arena = Arena; let interner = StrInterner(core::marker::PhantomData); let mut mgr = SpanManager { len: n };
            let mut lx = lexer(&arena, &interner, &mut mgr, &input[..n], 3);
            match lx.lex_text_block() {
                Ok(tok) => {
                    match tok.kind { TokenKind::TextBlock(s) => assert!(same(s.as_bytes(), &want[..wn]), "C14:lexlit:text-block-keeps-every-line-terminator-as-written"), _ => assert!(false, "C14:lexlit:text-block-yields-a-text-block-token") }
                    assert!(tok.span == SpanId(0, n), "C14:lexlit:text-block-token-spans-the-whole-block");
                }
                Err(_) => assert!(false, "C14:lexlit:wellformed-text-block-is-accepted"),
            }
            k += 1;
        }
    }

    //@harness props=C14,C01 strength=proof expect=fail clause="canary"
    #[kani::proof]
    #[kani::unwind(4)]
    fn lexlit_canary() {
        let (cu1, cu2): (u16, u16) = (kani::any(), kani::any());
        let mut input = *b"\"\\u0000\\u0000\"";
        hex4(&mut input, 3, cu1, false); hex4(&mut input, 9, cu2, false);
        let arena = Arena; let interner = StrInterner(core::marker::PhantomData); let mut mgr = SpanManager { len: 14 };
        let mut lx = lexer(&arena, &interner, &mut mgr, &input[..], 1);
        assert!(lx.lex_quoted_string(b'"').is_ok(), "canary:lexlit:every-escape-pair-is-accepted");
    }
}
} // mod u
fn main() {}
