// Unit evalcore: (a) the thunk state machine (ThunkData / ThunkState / PendingThunk and the DoThunk /
// GotThunk arms of Evaluator::run) - call-by-need memoisation, C04; (b) the stack-trace length
// accounting (push_trace_item, delay_trace_item, inc/dec_trace_len and the TraceItem /
// DelayedTraceItem arms of Evaluator::run) - the counter the frame limit is tested against, C10.
// All of these are extracted verbatim.  Hand-written environment: Gc/GcView (Rc), the value and
// expression payload types (opaque tokens), a State enum with only the variants these fragments
// construct, an Evaluator with only the fields they touch.
#![allow(dead_code, unused)]
mod u {
use std::cell::RefCell;
use std::marker::PhantomData;
use std::rc::Rc;
pub type SpanId = u32;
#[derive(Clone, Copy, PartialEq, Eq, Debug)]
pub struct InternedStr<'p>(pub u8, pub PhantomData<&'p ()>);
pub mod ir { pub struct Expr<'p>(pub u8, pub std::marker::PhantomData<&'p ()>); }
pub mod ast { #[derive(Clone, Copy, PartialEq, Eq)] pub enum BinaryOp { Add } }
// shim for crate::gc: a handle / a view is a raw pointer to a leaked allocation.  Deliberately NOT
// Rc: with Rc the drop glue of State -> ThunkData -> PendingThunk::Call{args: Box<[Gc<ThunkData>]>}
// is recursive and CBMC never finished unwinding it (measured: every harness of this unit timed out,
// including ones that create no thunk).  Nothing is ever freed, as under a collector that never runs.
pub struct Gc<T>(pub *const T);
impl<T> Clone for Gc<T> { fn clone(&self) -> Self { Gc(self.0) } }
impl<T> Gc<T> { pub fn new(v: T) -> Self { Gc(Box::into_raw(Box::new(v))) } pub fn view(&self) -> GcView<T> { GcView(self.0) } }
pub struct GcView<T>(pub *const T);
impl<T> Clone for GcView<T> { fn clone(&self) -> Self { GcView(self.0) } }
impl<T> std::ops::Deref for GcView<T> { type Target = T; fn deref(&self) -> &T { unsafe { &*self.0 } } }
#[derive(Clone, PartialEq, Debug)]
pub enum ValueData<'p> { Tok(u64, PhantomData<&'p ()>) }
pub struct ObjectData<'p>(pub PhantomData<&'p ()>);
pub struct FuncData<'p>(pub u8, pub PhantomData<&'p ()>);
pub struct ThunkEnv<'p> { pub obj: Gc<ObjectData<'p>>, pub layer: usize }
impl<'p> ThunkEnv<'p> { pub fn get_object(&self) -> (Gc<ObjectData<'p>>, usize) { (self.obj.clone(), self.layer) } }
pub enum EvalErrorKind { InfiniteRecursion, StackOverflow }
pub struct EvalError { pub kind: EvalErrorKind }
type EvalResult<T> = Result<T, Box<EvalError>>;
pub enum TraceItem<'p> { ObjectField { span: Option<SpanId>, name: InternedStr<'p> }, Other }
// only the variants the extracted fragments construct or match
pub enum State<'a, 'p> {
    TraceItem(TraceItem<'p>),
    DelayedTraceItem,
    DoThunk(GcView<ThunkData<'p>>),
    GotThunk(GcView<ThunkData<'p>>),
    Expr { expr: &'p ir::Expr<'p>, env: GcView<ThunkEnv<'p>> },
    BinaryOp { span: Option<SpanId>, op: ast::BinaryOp },
    CallMarker(PhantomData<&'a ()>),
}
pub struct Program<'p> {
//@extract file=rsjsonnet-lang/src/program/mod.rs struct=Program fields=max_stack
    pub super_field: Option<GcView<ThunkData<'p>>> }
impl<'p> Program<'p> {
    // shim: the real lookup walks the object's layers; here the answer is a harness-chosen value
    pub fn find_object_field_thunk(&self, object: &GcView<ObjectData<'p>>, layer: usize, name: InternedStr<'p>) -> Option<GcView<ThunkData<'p>>> { self.super_field.clone() }
}
pub struct Evaluator<'a, 'p> {
    program: &'a mut Program<'p>,
//@extract file=rsjsonnet-lang/src/program/eval/mod.rs struct=Evaluator fields=stack_trace_len
    state_stack: Vec<State<'a, 'p>>,
    value_stack: Vec<ValueData<'p>>,
}
impl<'a, 'p> Evaluator<'a, 'p> {
    // shim: the real one also captures the stack trace
    fn report_error(&self, kind: EvalErrorKind) -> Box<EvalError> { Box::new(EvalError { kind }) }
    // shim: the real one binds arguments and pushes the body; what matters here is that it pushes work
    fn execute_call(&mut self, func: &GcView<FuncData<'p>>, args: Box<[Gc<ThunkData<'p>>]>) { self.state_stack.push(State::CallMarker(PhantomData)); }
}

// ---- extracted, verbatim -------------------------------------------------------------------
//@extract file=rsjsonnet-lang/src/program/data.rs item=struct:ThunkData
//@extract file=rsjsonnet-lang/src/program/data.rs impl=ThunkData methods=new_done,new_pending_expr,new_pending_field_plus,new_pending_call,state,switch_state,set_done,get_value
//@extract file=rsjsonnet-lang/src/program/data.rs item=enum:ThunkState
//@extract file=rsjsonnet-lang/src/program/data.rs item=enum:PendingThunk
//@extract file=rsjsonnet-lang/src/program/eval/mod.rs impl=Evaluator methods=push_trace_item,delay_trace_item,inc_trace_len,dec_trace_len,want_thunk_direct

impl<'a, 'p> Evaluator<'a, 'p> {
    fn arm_do_thunk(&mut self, thunk: GcView<ThunkData<'p>>) -> EvalResult<()> {
//@extract file=rsjsonnet-lang/src/program/eval/mod.rs in=impl:Evaluator/fn:run arm="State::DoThunk(thunk)"
        Ok(())
    }
    fn arm_got_thunk(&mut self, thunk: GcView<ThunkData<'p>>) {
//@extract file=rsjsonnet-lang/src/program/eval/mod.rs in=impl:Evaluator/fn:run arm="State::GotThunk(thunk)"
    }
    fn arm_trace_item(&mut self) {
//@extract file=rsjsonnet-lang/src/program/eval/mod.rs in=impl:Evaluator/fn:run arm="State::TraceItem(_)"
    }
    fn arm_delayed_trace_item(&mut self) {
//@extract file=rsjsonnet-lang/src/program/eval/mod.rs in=impl:Evaluator/fn:run arm="State::DelayedTraceItem"
    }
    /// the frame-limit test at the end of every iteration of Evaluator::run
    fn limit_test(&mut self) -> EvalResult<()> {
//@extract file=rsjsonnet-lang/src/program/eval/mod.rs in=impl:Evaluator/fn:run from="if self.stack_trace_len > self.program.max_stack"
        Ok(())
    }
}

#[cfg(kani)]
mod vharness {
    use super::*;

    fn tok<'p>(v: u64) -> ValueData<'p> { ValueData::Tok(v, PhantomData) }
    fn env<'p>() -> Gc<ThunkEnv<'p>> { Gc::new(ThunkEnv { obj: Gc::new(ObjectData(PhantomData)), layer: 0 }) }
    static EXPR: ir::Expr<'static> = ir::Expr(7, PhantomData);

    /// any thunk in any of its three states (every kind of pending payload); returns (thunk, state tag, value token)
    fn any_thunk() -> (GcView<ThunkData<'static>>, u8, u64) {
        let tag: u8 = kani::any();
        kani::assume(tag < 5);
        let v: u64 = kani::any();
        let t = match tag {
            0 => ThunkData::new_done(tok(v)),
            1 => ThunkData::new_pending_expr(&EXPR, env()),
            2 => ThunkData::new_pending_field_plus(&EXPR, InternedStr(3, PhantomData), env()),
            3 => ThunkData::new_pending_call(Gc::new(FuncData(1, PhantomData)), Vec::new().into_boxed_slice()),
            _ => { let t = ThunkData::new_pending_expr(&EXPR, env()); let _ = t.switch_state(); t }   // InProgress
        };
        (Gc::new(t).view(), tag, v)
    }
    fn tag_of(t: &ThunkData<'_>) -> u8 { match *t.state() { ThunkState::Done(_) => 0, ThunkState::Pending(_) => 1, ThunkState::InProgress => 4 } }
    fn is_pending_tag(tag: u8) -> bool { tag >= 1 && tag <= 3 }

    //@harness props=C04,C01 quickfor=C04,C10 strength=proof clause="thunk state machine, for a thunk in ANY state: switch_state hands out the pending computation exactly when the thunk was Pending and then marks it InProgress; a Done thunk returns its stored value and stays Done; an InProgress thunk reports InProgress and stays so; get_value is Some(v) exactly for Done(v)"
    #[kani::proof]
    #[kani::unwind(6)]
    fn thunk_switch_state_contract() {
        let (t, tag, v) = any_thunk();
        let got = t.switch_state();
        match got {
            ThunkState::Done(x) => { assert!(tag == 0 && x == tok(v), "C04:evalcore:done-thunk-returns-its-stored-value"); assert!(tag_of(&t) == 0 && t.get_value() == Some(tok(v)), "C04:evalcore:done-thunk-stays-done-with-the-same-value"); }
            ThunkState::Pending(_) => { assert!(is_pending_tag(tag), "C04:evalcore:pending-is-handed-out-only-by-a-pending-thunk"); assert!(tag_of(&t) == 4, "C04:evalcore:handing-out-marks-the-thunk-in-progress"); assert!(t.get_value().is_none(), "C04:evalcore:no-value-before-done"); }
            ThunkState::InProgress => { assert!(tag == 4 && tag_of(&t) == 4, "C04:evalcore:in-progress-thunk-is-reported-and-unchanged"); }
        }
        // a second request never hands the computation out again
        let again = t.switch_state();
        assert!(!matches!(again, ThunkState::Pending(_)), "C04:evalcore:computation-is-handed-out-at-most-once");
    }

    //@harness props=C04,C01 quickfor=C04,C10 strength=proof clause="set_done on an InProgress thunk stores exactly the given value; afterwards every read (get_value, switch_state, state) yields that value and nothing is pending"
    #[kani::proof]
    #[kani::unwind(6)]
    fn thunk_set_done_contract() {
        let (t, tag, _) = any_thunk();
        kani::assume(tag == 4);        // requires: InProgress (the real assert! inside set_done states the same)
        let v: u64 = kani::any();
        t.set_done(tok(v));
        assert!(t.get_value() == Some(tok(v)), "C04:evalcore:set-done-stores-the-value");
        assert!(matches!(t.switch_state(), ThunkState::Done(x) if x == tok(v)), "C04:evalcore:after-done-every-read-yields-the-value");
        assert!(tag_of(&t) == 0, "C04:evalcore:done-is-final");
    }

    // The counter's TYPE is the real struct's (spliced in by `fields=`); the harness speaks about it only through
    // these three helpers, so a change of its width is verified as changed instead of breaking the unit.
    fn ev<'a>(p: &'a mut Program<'static>, len: u128) -> Evaluator<'a, 'static> {
        Evaluator { program: p, stack_trace_len: len as _, state_stack: Vec::new(), value_stack: Vec::new() }
    }
    fn ctr(e: &Evaluator<'_, '_>) -> i128 { e.stack_trace_len as i128 }
    /// largest value the counter can hold
    fn ctr_max() -> u128 { let mut p = Program { max_stack: 0, super_field: None }; let mut e = ev(&mut p, 0); e.stack_trace_len = !0; e.stack_trace_len as u128 }
    /// weighted sum of the invariant T over the state stack: TraceItem +1, DelayedTraceItem -1
    fn weight(ev: &Evaluator<'_, '_>) -> i64 {
        let mut w = 0i64; let mut i = 0;
        while i < ev.state_stack.len() { match ev.state_stack[i] { State::TraceItem(_) => w += 1, State::DelayedTraceItem => w -= 1, _ => {} } i += 1; }
        w
    }

    //@harness props=C04,C10,C01 quickfor=C04,C10 strength=proof clause="DoThunk arm, thunk in ANY state: Done => exactly its value is pushed, no work scheduled (evaluated at most once); Pending => the thunk becomes InProgress, GotThunk(this thunk) is scheduled BELOW the work that computes it, at least one work item is scheduled, no value pushed yet; InProgress => InfiniteRecursion error. In every case the trace-length counter moves exactly as the pushed trace items do (invariant T), and a thunk forced from within the arm (the inherited field of a `+:` field) is scheduled together with one counted trace frame (thunk chains are bounded by the frame limit)" replay=thunk_chain timeout=900
    #[kani::proof]
    #[kani::unwind(6)]
    fn do_thunk_arm_contract() {
        let (t, tag, v) = any_thunk();
        let has_super: bool = kani::any();
        let sup = if has_super { Some(any_thunk().0) } else { None };
        let mut prog = Program { max_stack: kani::any(), super_field: sup };
        let len0: u128 = kani::any(); kani::assume(len0 < ctr_max() / 2);
        let mut e = ev(&mut prog, len0);
        let r = e.arm_do_thunk(t.clone());
        match r {
            Err(err) => { assert!(tag == 4 && matches!(err.kind, EvalErrorKind::InfiniteRecursion), "C04,C10:evalcore:self-dependent-thunk-is-reported-as-infinite-recursion"); }
            Ok(()) => {
                assert!(tag != 4, "C10:evalcore:in-progress-thunk-must-not-be-re-entered");
                if tag == 0 {
                    assert!(e.value_stack.len() == 1 && e.value_stack[0] == tok(v) && e.state_stack.is_empty(), "C04:evalcore:done-thunk-pushes-its-value-and-schedules-nothing");
                } else {
                    assert!(tag_of(&t) == 4, "C04:evalcore:evaluation-start-marks-in-progress");
                    assert!(e.state_stack.len() >= 2, "C04:evalcore:pending-thunk-schedules-its-computation");
                    assert!(matches!(&e.state_stack[0], State::GotThunk(g) if std::ptr::eq(g.0, t.0)), "C04:evalcore:result-is-stored-back-into-this-thunk-after-the-computation");
                }
                assert!(ctr(&e) - len0 as i128 == weight(&e) as i128, "C10:evalcore:trace-length-tracks-pushed-trace-items");
                // thunk chains (C10): forcing a thunk from within a thunk is a nesting level, so every
                // DoThunk this arm schedules comes with one counted trace frame
                let mut n_nested = 0i64; let mut i = 0;
                while i < e.state_stack.len() { if matches!(e.state_stack[i], State::DoThunk(_)) { n_nested += 1; } i += 1; }
                assert!(n_nested <= 1 && ctr(&e) - len0 as i128 == n_nested as i128, "C10:evalcore:a-thunk-forced-from-within-a-thunk-is-a-counted-frame");
            }
        }
    }

    //@harness props=C04,C01 quickfor=C04,C10 strength=proof clause="GotThunk arm: requires an InProgress thunk and a value on the stack; stores exactly that value, leaves it on the stack, schedules nothing"
    #[kani::proof]
    #[kani::unwind(6)]
    fn got_thunk_arm_contract() {
        let (t, tag, _) = any_thunk();
        kani::assume(tag == 4);
        let mut prog = Program { max_stack: 0, super_field: None };
        let mut e = ev(&mut prog, 0);
        let v: u64 = kani::any();
        let below: u64 = kani::any();
        e.value_stack.push(tok(below));
        e.value_stack.push(tok(v));
        e.arm_got_thunk(t.clone());
        assert!(t.get_value() == Some(tok(v)), "C04:evalcore:thunk-memoises-the-value-on-top-of-the-stack");
        assert!(e.value_stack.len() == 2 && e.value_stack[1] == tok(v) && e.value_stack[0] == tok(below), "C04:evalcore:value-stays-on-the-stack");
        assert!(e.state_stack.is_empty(), "C04:evalcore:got-thunk-schedules-nothing");
    }

    //@harness props=C10,C01 quickfor=C04,C10 strength=proof clause="invariant T (stack_trace_len == #TraceItem - #DelayedTraceItem on the state stack) is preserved by each of the four primitives that touch either side: push_trace_item, delay_trace_item, popping a TraceItem, popping a DelayedTraceItem; under T the counter never underflows (dec_trace_len's unwrap cannot fail)"
    #[kani::proof]
    #[kani::unwind(6)]
    fn trace_len_invariant_step() {
        let mut prog = Program { max_stack: kani::any(), super_field: None };
        // an arbitrary state-stack suffix of up to 2 accounting items and a counter satisfying T with an arbitrary rest-of-stack sum
        let rest: u128 = kani::any(); kani::assume(rest < ctr_max() / 2);
        let mut e = ev(&mut prog, 0);
        let a: u8 = kani::any();
        if a == 1 { e.state_stack.push(State::TraceItem(TraceItem::Other)); } else if a == 2 { e.state_stack.push(State::DelayedTraceItem); }
        let w0 = weight(&e);
        kani::assume(rest as i128 + w0 as i128 >= 0);
        e.stack_trace_len = (rest as i128 + w0 as i128) as _;        // T holds: len = rest + weight(visible part)
        let op: u8 = kani::any();
        match op {
            0 => { e.push_trace_item(TraceItem::Other); }
            1 => { kani::assume(e.stack_trace_len >= 1); e.delay_trace_item(); }   // requires: inside a traced frame (callers push a trace item first)
            2 => { kani::assume(a == 1); e.state_stack.pop(); e.arm_trace_item(); }
            _ => { kani::assume(a == 2); e.state_stack.pop(); e.arm_delayed_trace_item(); }
        }
        assert!(ctr(&e) == rest as i128 + weight(&e) as i128, "C10:evalcore:invariant-T-preserved-by-every-accounting-primitive");
    }

    //@harness props=C10 strength=proof clause="frame-limit test: an evaluation step ends with StackOverflow exactly when the counter exceeds the configured limit; hence a run that never exceeds s passes the same tests under any s' >= s (raising the limit never changes a successful outcome)" replay=limit
    #[kani::proof]
    #[kani::unwind(6)]
    fn limit_test_contract() {
        // the limit is whatever type the real Program::max_stack has (spliced in), the depth any value the counter can hold
        let mut p1 = Program { max_stack: kani::any(), super_field: None };
        let s = p1.max_stack as u128;
        let len: u128 = kani::any(); kani::assume(len <= ctr_max());
        let r1 = ev(&mut p1, len).limit_test();
        match &r1 { Err(e) => assert!(len > s && matches!(e.kind, EvalErrorKind::StackOverflow), "C10:evalcore:overflow-reported-only-above-the-limit"),
                    Ok(()) => assert!(len <= s, "C10:evalcore:depth-above-the-limit-is-always-stopped") }
        let mut p2 = Program { max_stack: kani::any(), super_field: None };
        kani::assume(p2.max_stack as u128 >= s);
        let r2 = ev(&mut p2, len).limit_test();
        assert!(!(r1.is_ok() && r2.is_err()), "C10:evalcore:raising-the-limit-never-turns-success-into-overflow");
    }

    //@harness props=C04,C10,C01 strength=proof expect=fail clause="canary"
    #[kani::proof]
    #[kani::unwind(6)]
    fn evalcore_canary() {
        let (t, tag, _) = any_thunk();
        let got = t.switch_state();
        assert!(!matches!(got, ThunkState::Pending(_)), "canary:evalcore:pending-is-never-handed-out");
    }
}
} // mod u
fn main() {}
