#!/usr/bin/env python3
"""Regenerates the per-execution harness instances of unit sortset between the @@GEN markers of
unit.rs.  Measured reason: ONE concrete execution of a step function costs CBMC ~9 s, three in one
harness 58 s, 27 in one harness > 6 min and > 20 GB; a symbolic index / ordering is worse (29-35 GB).
So every instance is one execution: all indices and comparison outcomes concrete.  The instance set
is an exhaustive enumeration of a small finite domain (stated in each directive), not a sample."""
import os, re
here = os.path.dirname(os.path.abspath(__file__))
p = os.path.join(here, "unit.rs")
s = open(p).read()

def region(name, body):
    global s
    a = s.index("    // @@GEN-BEGIN %s\n" % name) + len("    // @@GEN-BEGIN %s\n" % name)
    b = s.index("    // @@GEN-END %s" % name)
    s = s[:a] + body + s[b:]

ORD = ["less", "equal", "greater"]
# ---- two-pointer walks ---------------------------------------------------------------------
CL = {"Inter": "setInter step: equal keys => the element of A is emitted and both sides advance; less => A advances; greater => B advances; the walk ends when either side is exhausted, else the keys of the new heads are compared next",
      "Union": "setUnion step: less => A's element emitted; equal => A's element emitted once, both advance; greater => B's element emitted; when one side is exhausted the rest of the other is appended in order",
      "Diff": "setDiff step: less => A's element emitted; equal => dropped, both advance; greater => B advances; when B is exhausted the rest of A is appended, when A is exhausted the walk ends"}
out = []
for w in ("Inter", "Union", "Diff"):
    for (na, nb) in ((2, 2), (1, 2), (2, 1), (3, 3), (1, 1), (2, 3), (3, 2), (1, 3), (3, 1)):
        tier = "" if (na, nb) == (2, 2) else " tier=thorough"
        for i in range(na):
            for j in range(nb):
                for k in range(3):
                    nm = "set_%s_%d_%d_at_%d_%d_%s" % (w.lower(), na, nb, i, j, ORD[k])
                    out.append('    //@harness props=C17,C01 quickfor=C17 strength=bounded%s bound="ONE execution: sets of %d and %d elements, positions (%d, %d), comparison outcome %s (the instances of this family enumerate every position and outcome for these sizes)" clause="%s" timeout=300 replay=sort_stable' % (tier, na, nb, i, j, ORD[k], CL[w]))
                    out.append("    #[kani::proof]\n    #[kani::unwind(8)]\n    fn %s() { two_pointer_at(W::%s, %d, %d, %d, %d, ord_of(%d)); }" % (nm, w, na, nb, i, j, k))
region("two_pointer", "\n".join(out) + "\n")

# ---- partition --------------------------------------------------------------------------------
CLQ = "quick sort step 2 (partition): afterwards the window holds the elements that compared less than the pivot, in their original relative order, then the pivot, then the others in their original relative order (stability); positions outside the window are untouched; exactly the comparison results of this window are consumed; the two sides are scheduled for sorting exactly when they have more than one element"
out = []
for (ln, starts, quick_codes) in ((2, (0, 5), None), (3, (1,), None), (4, (2,), {13})):
    for st in starts:
        for code in range(3 ** (ln - 1)):
            tier = "" if (quick_codes is None or code in quick_codes) and st == starts[0] else " tier=thorough"
            digs = []; c = code
            for _ in range(ln - 1):
                digs.append(ORD[c % 3]); c //= 3
            nm = "quick_sort_2_len%d_at%d_code%d" % (ln, st, code)
            out.append('    //@harness props=C17,C01 quickfor=C17 strength=bounded%s bound="ONE execution: window of %d positions at offset %d of a 7-element index vector, comparison outcomes (%s) (the instances of this family enumerate every outcome vector for this window)" clause="%s" timeout=300 replay=sort_stable' % (tier, ln, st, ", ".join(digs), CLQ))
            out.append("    #[kani::proof]\n    #[kani::unwind(9)]\n    fn %s() { quick_sort_2_at(%d, %d, %d); }" % (nm, st, ln, code))
region("quick_sort_2", "\n".join(out) + "\n")

# ---- merge, step before a comparison ------------------------------------------------------------
CLM = "merge step before a comparison: when one run is exhausted the rest of the other is copied in order to the positions that remain and the merge ends; otherwise the keys of the two run heads are requested for comparison (left head first operand) and the step after the comparison is scheduled"
out = []
for (nl, nr) in ((2, 2), (1, 3), (3, 1), (3, 3), (1, 1), (2, 3), (3, 2), (1, 2), (2, 1)):
    tier = "" if (nl, nr) == (2, 2) else " tier=thorough"
    for li in range(nl + 1):
        for ri in range(nr + 1):
            nm = "merge_pre_%d_%d_at_%d_%d" % (nl, nr, li, ri)
            out.append('    //@harness props=C17,C01 quickfor=C17 strength=bounded%s bound="ONE execution: runs of %d and %d elements, progress (%d, %d) (the instances of this family enumerate every progress pair for these run lengths)" clause="%s" timeout=300 replay=sort_stable' % (tier, nl, nr, li, ri, CLM))
            out.append("    #[kani::proof]\n    #[kani::unwind(9)]\n    fn %s() { merge_pre_at(%d, %d, %d, %d); }" % (nm, nl, nr, li, ri))
region("merge_pre", "\n".join(out) + "\n")
open(p, "w").write(s)
print("sortset instances regenerated")
