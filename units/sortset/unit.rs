// Unit sortset: the step functions of std.sort (dispatch, quick-sort partition, merge) and of the
// set builtins (setInter / setUnion / setDiff two-pointer walks, setMember binary search,
// minArray / maxArray scans), extracted verbatim from program/eval/stdlib.rs.
// Hand-written environment: Gc / GcView (raw pointers), thunks labelled (array, index), a State enum
// with only the variants these functions construct, an Evaluator with only the stacks they touch;
// calling the key function is a marker state (CallKey) - what is verified is WHICH element's key is
// requested and compared, not the key function.
#![allow(dead_code, unused)]
mod u {
use std::cell::{Cell, OnceCell};
use std::marker::PhantomData;
use std::rc::Rc;
pub type SpanId = u32;
#[derive(Clone, Copy, PartialEq, Eq, Debug)]
pub struct InternedStr<'p>(pub u8, pub PhantomData<&'p ()>);
pub struct Gc<T>(pub *const T);
impl<T> Clone for Gc<T> { fn clone(&self) -> Self { Gc(self.0) } }
impl<T> Gc<T> { pub fn new(v: T) -> Self { Gc(Box::into_raw(Box::new(v))) } pub fn view(&self) -> GcView<T> { GcView(self.0) } }
impl<T> PartialEq for Gc<T> { fn eq(&self, o: &Self) -> bool { std::ptr::eq(self.0, o.0) } }
impl<T> std::fmt::Debug for Gc<T> { fn fmt(&self, f: &mut std::fmt::Formatter<'_>) -> std::fmt::Result { Ok(()) } }
impl<T> From<&GcView<T>> for Gc<T> { fn from(v: &GcView<T>) -> Self { Gc(v.0) } }
pub struct GcView<T>(pub *const T);
impl<T> Clone for GcView<T> { fn clone(&self) -> Self { GcView(self.0) } }
impl<T> std::ops::Deref for GcView<T> { type Target = T; fn deref(&self) -> &T { unsafe { &*self.0 } } }
pub struct FuncData<'p>(pub u8, pub PhantomData<&'p ()>);
pub struct ThunkData<'p> { pub src: u8, pub idx: usize, pub _p: PhantomData<&'p ()> }
pub type ArrayData<'p> = Box<[Gc<ThunkData<'p>>]>;     // as in the real crate
#[derive(Clone, PartialEq, Debug)]
pub enum ValueData<'p> { Number(f64), Bool(bool), Array(Gc<ArrayData<'p>>), Function(Gc<FuncData<'p>>), _P(PhantomData<&'p ()>) }
pub struct EvalError;
type EvalResult<T> = Result<T, Box<EvalError>>;
type Keys<'p> = Rc<Vec<OnceCell<ValueData<'p>>>>;
type Sorted = Rc<Vec<Cell<usize>>>;
type Unmerged = Rc<(Cell<usize>, Box<[usize]>, Cell<usize>, Box<[usize]>)>;
pub enum State<'a, 'p> {
    CompareValue,
    ArrayToValue,
    DoThunk(GcView<ThunkData<'p>>),
    CallKey(GcView<ThunkData<'p>>, PhantomData<&'a ()>),
    StdSortFinish { orig_array: GcView<ArrayData<'p>>, sorted: Sorted },
    StdSortSetKey { keys: Keys<'p>, index: usize },
    StdSortCompare { keys: Keys<'p>, lhs: usize, rhs: usize },
    StdSortSlice { keys: Keys<'p>, sorted: Sorted, range: std::ops::Range<usize> },
    StdSortQuickSort1 { keys: Keys<'p>, sorted: Sorted, range: std::ops::Range<usize> },
    StdSortQuickSort2 { keys: Keys<'p>, sorted: Sorted, range: std::ops::Range<usize> },
    StdSortMergePrepare { keys: Keys<'p>, sorted: Sorted, range: std::ops::Range<usize>, mid: usize },
    StdSortMergePreCompare { keys: Keys<'p>, sorted: Sorted, start: usize, unmerged: Unmerged },
    StdSortMergePostCompare { keys: Keys<'p>, sorted: Sorted, start: usize, unmerged: Unmerged },
    StdSetInterAux { keyf: GcView<FuncData<'p>>, a: GcView<ArrayData<'p>>, b: GcView<ArrayData<'p>>, i: usize, j: usize },
    StdSetUnionAux { keyf: GcView<FuncData<'p>>, a: GcView<ArrayData<'p>>, b: GcView<ArrayData<'p>>, i: usize, j: usize },
    StdSetDiffAux { keyf: GcView<FuncData<'p>>, a: GcView<ArrayData<'p>>, b: GcView<ArrayData<'p>>, i: usize, j: usize },
    StdSetMemberSlice { keyf: GcView<FuncData<'p>>, arr: GcView<ArrayData<'p>>, start: usize, end: usize },
    StdSetMemberCheck { keyf: GcView<FuncData<'p>>, arr: GcView<ArrayData<'p>>, start: usize, end: usize, mid: usize },
    StdMinArrayCompareItem { keyf: GcView<FuncData<'p>>, array: GcView<ArrayData<'p>>, cur_index: usize, max_index: usize },
    StdMinArrayCheckItem { keyf: GcView<FuncData<'p>>, array: GcView<ArrayData<'p>>, cur_index: usize, max_index: usize },
    StdMaxArrayCompareItem { keyf: GcView<FuncData<'p>>, array: GcView<ArrayData<'p>>, cur_index: usize, max_index: usize },
    StdMaxArrayCheckItem { keyf: GcView<FuncData<'p>>, array: GcView<ArrayData<'p>>, cur_index: usize, max_index: usize },
}
pub struct Evaluator<'a, 'p> {
    state_stack: Vec<State<'a, 'p>>,
    value_stack: Vec<ValueData<'p>>,
    cmp_ord_stack: Vec<std::cmp::Ordering>,
    array_stack: Vec<Vec<Gc<ThunkData<'p>>>>,
}
impl<'a, 'p> Evaluator<'a, 'p> {
    // shims of the argument-type checks: the right type is unwrapped, anything else is the type error
    fn expect_std_func_arg_array(&self, v: ValueData<'p>, _f: &str, _i: usize) -> EvalResult<GcView<ArrayData<'p>>> { match v { ValueData::Array(a) => Ok(a.view()), _ => Err(Box::new(EvalError)) } }
    fn expect_std_func_arg_func(&self, v: ValueData<'p>, _f: &str, _i: usize) -> EvalResult<GcView<FuncData<'p>>> { match v { ValueData::Function(f) => Ok(f.view()), _ => Err(Box::new(EvalError)) } }
    // shim: the real one binds the argument and schedules the call of the key function on it
    fn check_thunk_args_and_execute_call(&mut self, func: &FuncData<'p>, positional_args: &[GcView<ThunkData<'p>>], named_args: &[(InternedStr<'p>, GcView<ThunkData<'p>>)], call_span: Option<SpanId>) -> EvalResult<()> {
        self.state_stack.push(State::CallKey(positional_args[0].clone(), PhantomData)); Ok(())
    }
}

// ---- extracted, verbatim -------------------------------------------------------------------
//@extract file=rsjsonnet-lang/src/program/eval/stdlib.rs impl=Evaluator methods=do_std_sort,do_std_sort_compare,do_std_sort_slice,do_std_sort_quick_sort_1,do_std_sort_quick_sort_2,do_std_sort_merge_prepare,do_std_sort_merge_pre_compare,do_std_sort_merge_post_compare,do_std_set_inter_aux,do_std_set_union_aux,do_std_set_diff_aux,do_std_set_member_slice,do_std_set_member_check,do_std_min_array_compare_item,do_std_min_array_check_item,do_std_max_array_compare_item,do_std_max_array_check_item

#[cfg(kani)]
mod vharness {
    use super::*;
    use std::cmp::Ordering;

    fn ev() -> Evaluator<'static, 'static> { Evaluator { state_stack: Vec::new(), value_stack: Vec::new(), cmp_ord_stack: Vec::new(), array_stack: Vec::new() } }
    fn keys(n: usize) -> Keys<'static> { let mut v = Vec::with_capacity(n); let mut i = 0; while i < n { let c = OnceCell::new(); let _ = c.set(ValueData::Number(i as f64 * 10.0)); v.push(c); i += 1; } Rc::new(v) }
    fn sorted_of(p: &[usize]) -> Sorted { let mut v = Vec::with_capacity(p.len()); let mut i = 0; while i < p.len() { v.push(Cell::new(p[i])); i += 1; } Rc::new(v) }
    fn ord_of(k: u8) -> Ordering { if k == 0 { Ordering::Less } else if k == 1 { Ordering::Equal } else { Ordering::Greater } }
    fn any_ord() -> Ordering { let k: u8 = kani::any(); kani::assume(k < 3); if k == 0 { Ordering::Less } else if k == 1 { Ordering::Equal } else { Ordering::Greater } }
    fn arr(src: u8, n: usize) -> Gc<ArrayData<'static>> {
        let mut v: Vec<Gc<ThunkData<'static>>> = Vec::with_capacity(n); let mut i = 0;
        while i < n { v.push(Gc::new(ThunkData { src, idx: i, _p: PhantomData })); i += 1; }
        Gc::new(v.into_boxed_slice())
    }
    fn is_key_call(s: &State<'_, '_>, src: u8, idx: usize) -> bool { matches!(s, State::CallKey(t, _) if t.src == src && t.idx == idx) }
    fn is_item(g: &Gc<ThunkData<'_>>, src: u8, idx: usize) -> bool { let t = g.view(); t.src == src && t.idx == idx }

    //@harness props=C17,C01 strength=proof clause="std.sort dispatch, for ANY range: more than 30 elements => sort the left half, then the right half, then merge them at mid = start + len/2 (in that execution order); 2..30 elements => quick sort of exactly that range; 0 or 1 => nothing to do" replay=sort_stable
    #[kani::proof]
    #[kani::unwind(4)]
    fn sort_slice_dispatch_contract() {
        let (start, end): (usize, usize) = (kani::any(), kani::any());
        kani::assume(start <= end);
        let mut e = ev();
        e.do_std_sort_slice(keys(0), sorted_of(&[]), start..end);
        let len = end - start;
        if len > 30 {
            let mid = start + len / 2;
            assert!(e.state_stack.len() == 3, "C17:sortset:long-range-schedules-left-right-merge");
            assert!(matches!(&e.state_stack[2], State::StdSortSlice { range, .. } if range.start == start && range.end == mid), "C17:sortset:left-half-is-sorted-first");
            assert!(matches!(&e.state_stack[1], State::StdSortSlice { range, .. } if range.start == mid && range.end == end), "C17:sortset:right-half-is-sorted-second");
            assert!(matches!(&e.state_stack[0], State::StdSortMergePrepare { range, mid: m, .. } if range.start == start && range.end == end && *m == mid), "C17:sortset:halves-are-merged-last-at-the-midpoint");
            assert!(start < mid && mid < end, "C17:sortset:both-halves-are-non-empty");
        } else if len > 1 {
            assert!(e.state_stack.len() == 1 && matches!(&e.state_stack[0], State::StdSortQuickSort1 { range, .. } if range.start == start && range.end == end), "C17:sortset:short-range-is-quick-sorted-whole");
        } else {
            assert!(e.state_stack.is_empty(), "C17:sortset:trivial-range-needs-no-work");
        }
        core::mem::forget(e);
    }

    fn sort_entry(n: usize) {
        let a = arr(1, n);
        let mut e = ev();
        e.value_stack.push(ValueData::Array(a.clone()));
        e.value_stack.push(ValueData::Function(Gc::new(FuncData(0, PhantomData))));
        let r = e.do_std_sort();
        assert!(r.is_ok(), "C17,C01:sortset:sort-entry-succeeds");
        if n <= 1 {
            // nothing to order: the array is returned as it is and NOTHING is scheduled - neither the element
            // nor keyF applied to it is evaluated (call-by-need, C04)
            assert!(e.state_stack.is_empty(), "C04,C17:sortset:sorting-fewer-than-two-elements-evaluates-nothing");
            assert!(e.value_stack.len() == 1 && matches!(&e.value_stack[0], ValueData::Array(g) if std::ptr::eq(g.0, a.0)), "C04,C17:sortset:sorting-fewer-than-two-elements-returns-the-array-itself");
        } else {
            assert!(e.value_stack.is_empty() && e.state_stack.len() == 2 + 2 * n, "C17:sortset:sort-schedules-one-key-per-element-then-the-sort-then-the-finish");
            assert!(matches!(&e.state_stack[0], State::StdSortFinish { orig_array, sorted } if std::ptr::eq(orig_array.0, a.0) && sorted.len() == n), "C17:sortset:finish-builds-the-result-from-the-original-array");
            assert!(matches!(&e.state_stack[1], State::StdSortSlice { range, sorted, keys } if range.start == 0 && range.end == n && sorted.len() == n && keys.len() == n), "C17:sortset:whole-range-is-sorted");
            let mut i = 0;
            while i < n {
                // execution order = pop order: element 0's key first
                let at = 2 + 2 * (n - 1 - i);
                assert!(matches!(&e.state_stack[at], State::StdSortSetKey { index, .. } if *index == i) && is_key_call(&e.state_stack[at + 1], 1, i), "C17:sortset:key-of-element-i-is-computed-and-stored-at-i");
                i += 1;
            }
            if let State::StdSortSlice { sorted, .. } = &e.state_stack[1] { let mut k = 0; while k < n { assert!(sorted[k].get() == k, "C17:sortset:initial-order-is-the-input-order"); k += 1; } }
        }
        core::mem::forget(e);
    }
    //@harness props=C17,C04,C01 quickfor=C17,C04 strength=bounded bound="ONE instance: array of 0 element(s) (the family covers 0..3)" clause="std.sort entry: an array of fewer than two elements is returned as it is and nothing is evaluated (neither elements nor keyF); otherwise the key of every element is requested in input order and stored at its index, then the whole range is sorted starting from the input order (so equal keys keep input order), then the result is built from the original array" timeout=300 replay=sort_entry
    #[kani::proof]
    #[kani::unwind(6)]
    fn sort_entry_n0() { sort_entry(0); }
    //@harness props=C17,C04,C01 quickfor=C17,C04 strength=bounded bound="ONE instance: array of 1 element(s) (the family covers 0..3)" clause="std.sort entry: an array of fewer than two elements is returned as it is and nothing is evaluated (neither elements nor keyF); otherwise the key of every element is requested in input order and stored at its index, then the whole range is sorted starting from the input order (so equal keys keep input order), then the result is built from the original array" timeout=300 replay=sort_entry
    #[kani::proof]
    #[kani::unwind(6)]
    fn sort_entry_n1() { sort_entry(1); }
    //@harness props=C17,C04,C01 quickfor=C17,C04 strength=bounded bound="ONE instance: array of 2 element(s) (the family covers 0..3)" clause="std.sort entry: an array of fewer than two elements is returned as it is and nothing is evaluated (neither elements nor keyF); otherwise the key of every element is requested in input order and stored at its index, then the whole range is sorted starting from the input order (so equal keys keep input order), then the result is built from the original array" timeout=300 replay=sort_entry
    #[kani::proof]
    #[kani::unwind(6)]
    fn sort_entry_n2() { sort_entry(2); }
    //@harness props=C17,C04,C01 quickfor=C17,C04 strength=bounded bound="ONE instance: array of 3 element(s) (the family covers 0..3)" clause="std.sort entry: an array of fewer than two elements is returned as it is and nothing is evaluated (neither elements nor keyF); otherwise the key of every element is requested in input order and stored at its index, then the whole range is sorted starting from the input order (so equal keys keep input order), then the result is built from the original array" timeout=300 replay=sort_entry
    #[kani::proof]
    #[kani::unwind(6)]
    fn sort_entry_n3() { sort_entry(3); }

    const N: usize = 5;   // bound on a partition / merge window in the bounded harnesses
    //@harness props=C17,C01 strength=bounded bound="window of 2..5 positions inside a 7-element index vector" clause="quick sort step 1: schedules, in execution order, the comparison of every element after the pivot with the pivot (element key vs pivot key), then step 2 on the same range" timeout=900 replay=sort_stable
    #[kani::proof]
    #[kani::unwind(9)]
    fn quick_sort_1_contract() {
        let perm = [3usize, 0, 6, 2, 5, 1, 4];
        let (start, len): (usize, usize) = (kani::any(), kani::any());
        kani::assume(len >= 2 && len <= N && start <= 7 - len);
        let mut e = ev();
        e.do_std_sort_quick_sort_1(keys(7), sorted_of(&perm), start..start + len);
        assert!(e.state_stack.len() == len, "C17:sortset:one-comparison-per-non-pivot-element-plus-step-2");
        assert!(matches!(&e.state_stack[0], State::StdSortQuickSort2 { range, .. } if range.start == start && range.end == start + len), "C17:sortset:partition-step-runs-after-the-comparisons");
        let mut k = 1;
        while k < len {
            // execution order = pop order: the top of the stack is the first element after the pivot
            assert!(matches!(&e.state_stack[len - k], State::StdSortCompare { lhs, rhs, .. } if *lhs == perm[start + k] && *rhs == perm[start]), "C17:sortset:element-k-is-compared-with-the-pivot-in-order");
            k += 1;
        }
        core::mem::forget(e);
    }

    fn quick_sort_2_at(start: usize, len: usize, code: usize) {
        let perm = [3usize, 0, 6, 2, 5, 1, 4];
        let mut e = ev();
        e.cmp_ord_stack.push(Ordering::Greater);                      // belongs to an enclosing computation
        let mut ords = [Ordering::Equal; N];
        let mut c = code; let mut k = 1; while k < len { ords[k] = ord_of((c % 3) as u8); c /= 3; e.cmp_ord_stack.push(ords[k]); k += 1; }
        let sorted = sorted_of(&perm);
        e.do_std_sort_quick_sort_2(keys(7), sorted.clone(), start..start + len);
        assert!(e.cmp_ord_stack.len() == 1 && e.cmp_ord_stack[0] == Ordering::Greater, "C17,C01:sortset:partition-consumes-exactly-its-own-comparison-results");
        // expected layout
        let mut want = [0usize; N]; let mut w = 0;
        k = 1; while k < len { if ords[k] == Ordering::Less { want[w] = perm[start + k]; w += 1; } k += 1; }
        let n_lt = w;
        want[w] = perm[start]; w += 1;
        k = 1; while k < len { if ords[k] != Ordering::Less { want[w] = perm[start + k]; w += 1; } k += 1; }
        let n_ge = len - 1 - n_lt;
        k = 0; while k < len { assert!(sorted[start + k].get() == want[k], "C17:sortset:partition-is-less-then-pivot-then-rest-each-in-original-order"); k += 1; }
        k = 0; while k < 7 { if k < start || k >= start + len { assert!(sorted[k].get() == perm[k], "C17:sortset:partition-touches-only-its-window"); } k += 1; }
        let mut want_states = 0; if n_lt > 1 { want_states += 1; } if n_ge > 1 { want_states += 1; }
        assert!(e.state_stack.len() == want_states, "C17:sortset:sides-with-more-than-one-element-are-sorted-next");
        let mut i = 0;
        while i < e.state_stack.len() {
            match &e.state_stack[i] {
                State::StdSortQuickSort1 { range, .. } => assert!((range.start == start && range.end == start + n_lt && n_lt > 1) || (range.start == start + n_lt + 1 && range.end == start + len && n_ge > 1), "C17:sortset:recursion-ranges-are-exactly-the-two-sides"),
                _ => assert!(false, "C17:sortset:recursion-ranges-are-exactly-the-two-sides"),
            }
            i += 1;
        }
        core::mem::forget(e);
    }


    // @@GEN-BEGIN quick_sort_2
    //@harness props=C17,C01 quickfor=C17 strength=bounded bound="ONE execution: window of 2 positions at offset 0 of a 7-element index vector, comparison outcomes (less) (the instances of this family enumerate every outcome vector for this window)" clause="quick sort step 2 (partition): afterwards the window holds the elements that compared less than the pivot, in their original relative order, then the pivot, then the others in their original relative order (stability); positions outside the window are untouched; exactly the comparison results of this window are consumed; the two sides are scheduled for sorting exactly when they have more than one element" timeout=300 replay=sort_stable
    #[kani::proof]
    #[kani::unwind(9)]
    fn quick_sort_2_len2_at0_code0() { quick_sort_2_at(0, 2, 0); }
    //@harness props=C17,C01 quickfor=C17 strength=bounded bound="ONE execution: window of 2 positions at offset 0 of a 7-element index vector, comparison outcomes (equal) (the instances of this family enumerate every outcome vector for this window)" clause="quick sort step 2 (partition): afterwards the window holds the elements that compared less than the pivot, in their original relative order, then the pivot, then the others in their original relative order (stability); positions outside the window are untouched; exactly the comparison results of this window are consumed; the two sides are scheduled for sorting exactly when they have more than one element" timeout=300 replay=sort_stable
    #[kani::proof]
    #[kani::unwind(9)]
    fn quick_sort_2_len2_at0_code1() { quick_sort_2_at(0, 2, 1); }
    //@harness props=C17,C01 quickfor=C17 strength=bounded bound="ONE execution: window of 2 positions at offset 0 of a 7-element index vector, comparison outcomes (greater) (the instances of this family enumerate every outcome vector for this window)" clause="quick sort step 2 (partition): afterwards the window holds the elements that compared less than the pivot, in their original relative order, then the pivot, then the others in their original relative order (stability); positions outside the window are untouched; exactly the comparison results of this window are consumed; the two sides are scheduled for sorting exactly when they have more than one element" timeout=300 replay=sort_stable
    #[kani::proof]
    #[kani::unwind(9)]
    fn quick_sort_2_len2_at0_code2() { quick_sort_2_at(0, 2, 2); }
    //@harness props=C17,C01 quickfor=C17 strength=bounded tier=thorough bound="ONE execution: window of 2 positions at offset 5 of a 7-element index vector, comparison outcomes (less) (the instances of this family enumerate every outcome vector for this window)" clause="quick sort step 2 (partition): afterwards the window holds the elements that compared less than the pivot, in their original relative order, then the pivot, then the others in their original relative order (stability); positions outside the window are untouched; exactly the comparison results of this window are consumed; the two sides are scheduled for sorting exactly when they have more than one element" timeout=300 replay=sort_stable
    #[kani::proof]
    #[kani::unwind(9)]
    fn quick_sort_2_len2_at5_code0() { quick_sort_2_at(5, 2, 0); }
    //@harness props=C17,C01 quickfor=C17 strength=bounded tier=thorough bound="ONE execution: window of 2 positions at offset 5 of a 7-element index vector, comparison outcomes (equal) (the instances of this family enumerate every outcome vector for this window)" clause="quick sort step 2 (partition): afterwards the window holds the elements that compared less than the pivot, in their original relative order, then the pivot, then the others in their original relative order (stability); positions outside the window are untouched; exactly the comparison results of this window are consumed; the two sides are scheduled for sorting exactly when they have more than one element" timeout=300 replay=sort_stable
    #[kani::proof]
    #[kani::unwind(9)]
    fn quick_sort_2_len2_at5_code1() { quick_sort_2_at(5, 2, 1); }
    //@harness props=C17,C01 quickfor=C17 strength=bounded tier=thorough bound="ONE execution: window of 2 positions at offset 5 of a 7-element index vector, comparison outcomes (greater) (the instances of this family enumerate every outcome vector for this window)" clause="quick sort step 2 (partition): afterwards the window holds the elements that compared less than the pivot, in their original relative order, then the pivot, then the others in their original relative order (stability); positions outside the window are untouched; exactly the comparison results of this window are consumed; the two sides are scheduled for sorting exactly when they have more than one element" timeout=300 replay=sort_stable
    #[kani::proof]
    #[kani::unwind(9)]
    fn quick_sort_2_len2_at5_code2() { quick_sort_2_at(5, 2, 2); }
    //@harness props=C17,C01 quickfor=C17 strength=bounded bound="ONE execution: window of 3 positions at offset 1 of a 7-element index vector, comparison outcomes (less, less) (the instances of this family enumerate every outcome vector for this window)" clause="quick sort step 2 (partition): afterwards the window holds the elements that compared less than the pivot, in their original relative order, then the pivot, then the others in their original relative order (stability); positions outside the window are untouched; exactly the comparison results of this window are consumed; the two sides are scheduled for sorting exactly when they have more than one element" timeout=300 replay=sort_stable
    #[kani::proof]
    #[kani::unwind(9)]
    fn quick_sort_2_len3_at1_code0() { quick_sort_2_at(1, 3, 0); }
    //@harness props=C17,C01 quickfor=C17 strength=bounded bound="ONE execution: window of 3 positions at offset 1 of a 7-element index vector, comparison outcomes (equal, less) (the instances of this family enumerate every outcome vector for this window)" clause="quick sort step 2 (partition): afterwards the window holds the elements that compared less than the pivot, in their original relative order, then the pivot, then the others in their original relative order (stability); positions outside the window are untouched; exactly the comparison results of this window are consumed; the two sides are scheduled for sorting exactly when they have more than one element" timeout=300 replay=sort_stable
    #[kani::proof]
    #[kani::unwind(9)]
    fn quick_sort_2_len3_at1_code1() { quick_sort_2_at(1, 3, 1); }
    //@harness props=C17,C01 quickfor=C17 strength=bounded bound="ONE execution: window of 3 positions at offset 1 of a 7-element index vector, comparison outcomes (greater, less) (the instances of this family enumerate every outcome vector for this window)" clause="quick sort step 2 (partition): afterwards the window holds the elements that compared less than the pivot, in their original relative order, then the pivot, then the others in their original relative order (stability); positions outside the window are untouched; exactly the comparison results of this window are consumed; the two sides are scheduled for sorting exactly when they have more than one element" timeout=300 replay=sort_stable
    #[kani::proof]
    #[kani::unwind(9)]
    fn quick_sort_2_len3_at1_code2() { quick_sort_2_at(1, 3, 2); }
    //@harness props=C17,C01 quickfor=C17 strength=bounded bound="ONE execution: window of 3 positions at offset 1 of a 7-element index vector, comparison outcomes (less, equal) (the instances of this family enumerate every outcome vector for this window)" clause="quick sort step 2 (partition): afterwards the window holds the elements that compared less than the pivot, in their original relative order, then the pivot, then the others in their original relative order (stability); positions outside the window are untouched; exactly the comparison results of this window are consumed; the two sides are scheduled for sorting exactly when they have more than one element" timeout=300 replay=sort_stable
    #[kani::proof]
    #[kani::unwind(9)]
    fn quick_sort_2_len3_at1_code3() { quick_sort_2_at(1, 3, 3); }
    //@harness props=C17,C01 quickfor=C17 strength=bounded bound="ONE execution: window of 3 positions at offset 1 of a 7-element index vector, comparison outcomes (equal, equal) (the instances of this family enumerate every outcome vector for this window)" clause="quick sort step 2 (partition): afterwards the window holds the elements that compared less than the pivot, in their original relative order, then the pivot, then the others in their original relative order (stability); positions outside the window are untouched; exactly the comparison results of this window are consumed; the two sides are scheduled for sorting exactly when they have more than one element" timeout=300 replay=sort_stable
    #[kani::proof]
    #[kani::unwind(9)]
    fn quick_sort_2_len3_at1_code4() { quick_sort_2_at(1, 3, 4); }
    //@harness props=C17,C01 quickfor=C17 strength=bounded bound="ONE execution: window of 3 positions at offset 1 of a 7-element index vector, comparison outcomes (greater, equal) (the instances of this family enumerate every outcome vector for this window)" clause="quick sort step 2 (partition): afterwards the window holds the elements that compared less than the pivot, in their original relative order, then the pivot, then the others in their original relative order (stability); positions outside the window are untouched; exactly the comparison results of this window are consumed; the two sides are scheduled for sorting exactly when they have more than one element" timeout=300 replay=sort_stable
    #[kani::proof]
    #[kani::unwind(9)]
    fn quick_sort_2_len3_at1_code5() { quick_sort_2_at(1, 3, 5); }
    //@harness props=C17,C01 quickfor=C17 strength=bounded bound="ONE execution: window of 3 positions at offset 1 of a 7-element index vector, comparison outcomes (less, greater) (the instances of this family enumerate every outcome vector for this window)" clause="quick sort step 2 (partition): afterwards the window holds the elements that compared less than the pivot, in their original relative order, then the pivot, then the others in their original relative order (stability); positions outside the window are untouched; exactly the comparison results of this window are consumed; the two sides are scheduled for sorting exactly when they have more than one element" timeout=300 replay=sort_stable
    #[kani::proof]
    #[kani::unwind(9)]
    fn quick_sort_2_len3_at1_code6() { quick_sort_2_at(1, 3, 6); }
    //@harness props=C17,C01 quickfor=C17 strength=bounded bound="ONE execution: window of 3 positions at offset 1 of a 7-element index vector, comparison outcomes (equal, greater) (the instances of this family enumerate every outcome vector for this window)" clause="quick sort step 2 (partition): afterwards the window holds the elements that compared less than the pivot, in their original relative order, then the pivot, then the others in their original relative order (stability); positions outside the window are untouched; exactly the comparison results of this window are consumed; the two sides are scheduled for sorting exactly when they have more than one element" timeout=300 replay=sort_stable
    #[kani::proof]
    #[kani::unwind(9)]
    fn quick_sort_2_len3_at1_code7() { quick_sort_2_at(1, 3, 7); }
    //@harness props=C17,C01 quickfor=C17 strength=bounded bound="ONE execution: window of 3 positions at offset 1 of a 7-element index vector, comparison outcomes (greater, greater) (the instances of this family enumerate every outcome vector for this window)" clause="quick sort step 2 (partition): afterwards the window holds the elements that compared less than the pivot, in their original relative order, then the pivot, then the others in their original relative order (stability); positions outside the window are untouched; exactly the comparison results of this window are consumed; the two sides are scheduled for sorting exactly when they have more than one element" timeout=300 replay=sort_stable
    #[kani::proof]
    #[kani::unwind(9)]
    fn quick_sort_2_len3_at1_code8() { quick_sort_2_at(1, 3, 8); }
    //@harness props=C17,C01 quickfor=C17 strength=bounded tier=thorough bound="ONE execution: window of 4 positions at offset 2 of a 7-element index vector, comparison outcomes (less, less, less) (the instances of this family enumerate every outcome vector for this window)" clause="quick sort step 2 (partition): afterwards the window holds the elements that compared less than the pivot, in their original relative order, then the pivot, then the others in their original relative order (stability); positions outside the window are untouched; exactly the comparison results of this window are consumed; the two sides are scheduled for sorting exactly when they have more than one element" timeout=300 replay=sort_stable
    #[kani::proof]
    #[kani::unwind(9)]
    fn quick_sort_2_len4_at2_code0() { quick_sort_2_at(2, 4, 0); }
    //@harness props=C17,C01 quickfor=C17 strength=bounded tier=thorough bound="ONE execution: window of 4 positions at offset 2 of a 7-element index vector, comparison outcomes (equal, less, less) (the instances of this family enumerate every outcome vector for this window)" clause="quick sort step 2 (partition): afterwards the window holds the elements that compared less than the pivot, in their original relative order, then the pivot, then the others in their original relative order (stability); positions outside the window are untouched; exactly the comparison results of this window are consumed; the two sides are scheduled for sorting exactly when they have more than one element" timeout=300 replay=sort_stable
    #[kani::proof]
    #[kani::unwind(9)]
    fn quick_sort_2_len4_at2_code1() { quick_sort_2_at(2, 4, 1); }
    //@harness props=C17,C01 quickfor=C17 strength=bounded tier=thorough bound="ONE execution: window of 4 positions at offset 2 of a 7-element index vector, comparison outcomes (greater, less, less) (the instances of this family enumerate every outcome vector for this window)" clause="quick sort step 2 (partition): afterwards the window holds the elements that compared less than the pivot, in their original relative order, then the pivot, then the others in their original relative order (stability); positions outside the window are untouched; exactly the comparison results of this window are consumed; the two sides are scheduled for sorting exactly when they have more than one element" timeout=300 replay=sort_stable
    #[kani::proof]
    #[kani::unwind(9)]
    fn quick_sort_2_len4_at2_code2() { quick_sort_2_at(2, 4, 2); }
    //@harness props=C17,C01 quickfor=C17 strength=bounded tier=thorough bound="ONE execution: window of 4 positions at offset 2 of a 7-element index vector, comparison outcomes (less, equal, less) (the instances of this family enumerate every outcome vector for this window)" clause="quick sort step 2 (partition): afterwards the window holds the elements that compared less than the pivot, in their original relative order, then the pivot, then the others in their original relative order (stability); positions outside the window are untouched; exactly the comparison results of this window are consumed; the two sides are scheduled for sorting exactly when they have more than one element" timeout=300 replay=sort_stable
    #[kani::proof]
    #[kani::unwind(9)]
    fn quick_sort_2_len4_at2_code3() { quick_sort_2_at(2, 4, 3); }
    //@harness props=C17,C01 quickfor=C17 strength=bounded tier=thorough bound="ONE execution: window of 4 positions at offset 2 of a 7-element index vector, comparison outcomes (equal, equal, less) (the instances of this family enumerate every outcome vector for this window)" clause="quick sort step 2 (partition): afterwards the window holds the elements that compared less than the pivot, in their original relative order, then the pivot, then the others in their original relative order (stability); positions outside the window are untouched; exactly the comparison results of this window are consumed; the two sides are scheduled for sorting exactly when they have more than one element" timeout=300 replay=sort_stable
    #[kani::proof]
    #[kani::unwind(9)]
    fn quick_sort_2_len4_at2_code4() { quick_sort_2_at(2, 4, 4); }
    //@harness props=C17,C01 quickfor=C17 strength=bounded tier=thorough bound="ONE execution: window of 4 positions at offset 2 of a 7-element index vector, comparison outcomes (greater, equal, less) (the instances of this family enumerate every outcome vector for this window)" clause="quick sort step 2 (partition): afterwards the window holds the elements that compared less than the pivot, in their original relative order, then the pivot, then the others in their original relative order (stability); positions outside the window are untouched; exactly the comparison results of this window are consumed; the two sides are scheduled for sorting exactly when they have more than one element" timeout=300 replay=sort_stable
    #[kani::proof]
    #[kani::unwind(9)]
    fn quick_sort_2_len4_at2_code5() { quick_sort_2_at(2, 4, 5); }
    //@harness props=C17,C01 quickfor=C17 strength=bounded tier=thorough bound="ONE execution: window of 4 positions at offset 2 of a 7-element index vector, comparison outcomes (less, greater, less) (the instances of this family enumerate every outcome vector for this window)" clause="quick sort step 2 (partition): afterwards the window holds the elements that compared less than the pivot, in their original relative order, then the pivot, then the others in their original relative order (stability); positions outside the window are untouched; exactly the comparison results of this window are consumed; the two sides are scheduled for sorting exactly when they have more than one element" timeout=300 replay=sort_stable
    #[kani::proof]
    #[kani::unwind(9)]
    fn quick_sort_2_len4_at2_code6() { quick_sort_2_at(2, 4, 6); }
    //@harness props=C17,C01 quickfor=C17 strength=bounded tier=thorough bound="ONE execution: window of 4 positions at offset 2 of a 7-element index vector, comparison outcomes (equal, greater, less) (the instances of this family enumerate every outcome vector for this window)" clause="quick sort step 2 (partition): afterwards the window holds the elements that compared less than the pivot, in their original relative order, then the pivot, then the others in their original relative order (stability); positions outside the window are untouched; exactly the comparison results of this window are consumed; the two sides are scheduled for sorting exactly when they have more than one element" timeout=300 replay=sort_stable
    #[kani::proof]
    #[kani::unwind(9)]
    fn quick_sort_2_len4_at2_code7() { quick_sort_2_at(2, 4, 7); }
    //@harness props=C17,C01 quickfor=C17 strength=bounded tier=thorough bound="ONE execution: window of 4 positions at offset 2 of a 7-element index vector, comparison outcomes (greater, greater, less) (the instances of this family enumerate every outcome vector for this window)" clause="quick sort step 2 (partition): afterwards the window holds the elements that compared less than the pivot, in their original relative order, then the pivot, then the others in their original relative order (stability); positions outside the window are untouched; exactly the comparison results of this window are consumed; the two sides are scheduled for sorting exactly when they have more than one element" timeout=300 replay=sort_stable
    #[kani::proof]
    #[kani::unwind(9)]
    fn quick_sort_2_len4_at2_code8() { quick_sort_2_at(2, 4, 8); }
    //@harness props=C17,C01 quickfor=C17 strength=bounded tier=thorough bound="ONE execution: window of 4 positions at offset 2 of a 7-element index vector, comparison outcomes (less, less, equal) (the instances of this family enumerate every outcome vector for this window)" clause="quick sort step 2 (partition): afterwards the window holds the elements that compared less than the pivot, in their original relative order, then the pivot, then the others in their original relative order (stability); positions outside the window are untouched; exactly the comparison results of this window are consumed; the two sides are scheduled for sorting exactly when they have more than one element" timeout=300 replay=sort_stable
    #[kani::proof]
    #[kani::unwind(9)]
    fn quick_sort_2_len4_at2_code9() { quick_sort_2_at(2, 4, 9); }
    //@harness props=C17,C01 quickfor=C17 strength=bounded tier=thorough bound="ONE execution: window of 4 positions at offset 2 of a 7-element index vector, comparison outcomes (equal, less, equal) (the instances of this family enumerate every outcome vector for this window)" clause="quick sort step 2 (partition): afterwards the window holds the elements that compared less than the pivot, in their original relative order, then the pivot, then the others in their original relative order (stability); positions outside the window are untouched; exactly the comparison results of this window are consumed; the two sides are scheduled for sorting exactly when they have more than one element" timeout=300 replay=sort_stable
    #[kani::proof]
    #[kani::unwind(9)]
    fn quick_sort_2_len4_at2_code10() { quick_sort_2_at(2, 4, 10); }
    //@harness props=C17,C01 quickfor=C17 strength=bounded tier=thorough bound="ONE execution: window of 4 positions at offset 2 of a 7-element index vector, comparison outcomes (greater, less, equal) (the instances of this family enumerate every outcome vector for this window)" clause="quick sort step 2 (partition): afterwards the window holds the elements that compared less than the pivot, in their original relative order, then the pivot, then the others in their original relative order (stability); positions outside the window are untouched; exactly the comparison results of this window are consumed; the two sides are scheduled for sorting exactly when they have more than one element" timeout=300 replay=sort_stable
    #[kani::proof]
    #[kani::unwind(9)]
    fn quick_sort_2_len4_at2_code11() { quick_sort_2_at(2, 4, 11); }
    //@harness props=C17,C01 quickfor=C17 strength=bounded tier=thorough bound="ONE execution: window of 4 positions at offset 2 of a 7-element index vector, comparison outcomes (less, equal, equal) (the instances of this family enumerate every outcome vector for this window)" clause="quick sort step 2 (partition): afterwards the window holds the elements that compared less than the pivot, in their original relative order, then the pivot, then the others in their original relative order (stability); positions outside the window are untouched; exactly the comparison results of this window are consumed; the two sides are scheduled for sorting exactly when they have more than one element" timeout=300 replay=sort_stable
    #[kani::proof]
    #[kani::unwind(9)]
    fn quick_sort_2_len4_at2_code12() { quick_sort_2_at(2, 4, 12); }
    //@harness props=C17,C01 quickfor=C17 strength=bounded bound="ONE execution: window of 4 positions at offset 2 of a 7-element index vector, comparison outcomes (equal, equal, equal) (the instances of this family enumerate every outcome vector for this window)" clause="quick sort step 2 (partition): afterwards the window holds the elements that compared less than the pivot, in their original relative order, then the pivot, then the others in their original relative order (stability); positions outside the window are untouched; exactly the comparison results of this window are consumed; the two sides are scheduled for sorting exactly when they have more than one element" timeout=300 replay=sort_stable
    #[kani::proof]
    #[kani::unwind(9)]
    fn quick_sort_2_len4_at2_code13() { quick_sort_2_at(2, 4, 13); }
    //@harness props=C17,C01 quickfor=C17 strength=bounded tier=thorough bound="ONE execution: window of 4 positions at offset 2 of a 7-element index vector, comparison outcomes (greater, equal, equal) (the instances of this family enumerate every outcome vector for this window)" clause="quick sort step 2 (partition): afterwards the window holds the elements that compared less than the pivot, in their original relative order, then the pivot, then the others in their original relative order (stability); positions outside the window are untouched; exactly the comparison results of this window are consumed; the two sides are scheduled for sorting exactly when they have more than one element" timeout=300 replay=sort_stable
    #[kani::proof]
    #[kani::unwind(9)]
    fn quick_sort_2_len4_at2_code14() { quick_sort_2_at(2, 4, 14); }
    //@harness props=C17,C01 quickfor=C17 strength=bounded tier=thorough bound="ONE execution: window of 4 positions at offset 2 of a 7-element index vector, comparison outcomes (less, greater, equal) (the instances of this family enumerate every outcome vector for this window)" clause="quick sort step 2 (partition): afterwards the window holds the elements that compared less than the pivot, in their original relative order, then the pivot, then the others in their original relative order (stability); positions outside the window are untouched; exactly the comparison results of this window are consumed; the two sides are scheduled for sorting exactly when they have more than one element" timeout=300 replay=sort_stable
    #[kani::proof]
    #[kani::unwind(9)]
    fn quick_sort_2_len4_at2_code15() { quick_sort_2_at(2, 4, 15); }
    //@harness props=C17,C01 quickfor=C17 strength=bounded tier=thorough bound="ONE execution: window of 4 positions at offset 2 of a 7-element index vector, comparison outcomes (equal, greater, equal) (the instances of this family enumerate every outcome vector for this window)" clause="quick sort step 2 (partition): afterwards the window holds the elements that compared less than the pivot, in their original relative order, then the pivot, then the others in their original relative order (stability); positions outside the window are untouched; exactly the comparison results of this window are consumed; the two sides are scheduled for sorting exactly when they have more than one element" timeout=300 replay=sort_stable
    #[kani::proof]
    #[kani::unwind(9)]
    fn quick_sort_2_len4_at2_code16() { quick_sort_2_at(2, 4, 16); }
    //@harness props=C17,C01 quickfor=C17 strength=bounded tier=thorough bound="ONE execution: window of 4 positions at offset 2 of a 7-element index vector, comparison outcomes (greater, greater, equal) (the instances of this family enumerate every outcome vector for this window)" clause="quick sort step 2 (partition): afterwards the window holds the elements that compared less than the pivot, in their original relative order, then the pivot, then the others in their original relative order (stability); positions outside the window are untouched; exactly the comparison results of this window are consumed; the two sides are scheduled for sorting exactly when they have more than one element" timeout=300 replay=sort_stable
    #[kani::proof]
    #[kani::unwind(9)]
    fn quick_sort_2_len4_at2_code17() { quick_sort_2_at(2, 4, 17); }
    //@harness props=C17,C01 quickfor=C17 strength=bounded tier=thorough bound="ONE execution: window of 4 positions at offset 2 of a 7-element index vector, comparison outcomes (less, less, greater) (the instances of this family enumerate every outcome vector for this window)" clause="quick sort step 2 (partition): afterwards the window holds the elements that compared less than the pivot, in their original relative order, then the pivot, then the others in their original relative order (stability); positions outside the window are untouched; exactly the comparison results of this window are consumed; the two sides are scheduled for sorting exactly when they have more than one element" timeout=300 replay=sort_stable
    #[kani::proof]
    #[kani::unwind(9)]
    fn quick_sort_2_len4_at2_code18() { quick_sort_2_at(2, 4, 18); }
    //@harness props=C17,C01 quickfor=C17 strength=bounded tier=thorough bound="ONE execution: window of 4 positions at offset 2 of a 7-element index vector, comparison outcomes (equal, less, greater) (the instances of this family enumerate every outcome vector for this window)" clause="quick sort step 2 (partition): afterwards the window holds the elements that compared less than the pivot, in their original relative order, then the pivot, then the others in their original relative order (stability); positions outside the window are untouched; exactly the comparison results of this window are consumed; the two sides are scheduled for sorting exactly when they have more than one element" timeout=300 replay=sort_stable
    #[kani::proof]
    #[kani::unwind(9)]
    fn quick_sort_2_len4_at2_code19() { quick_sort_2_at(2, 4, 19); }
    //@harness props=C17,C01 quickfor=C17 strength=bounded tier=thorough bound="ONE execution: window of 4 positions at offset 2 of a 7-element index vector, comparison outcomes (greater, less, greater) (the instances of this family enumerate every outcome vector for this window)" clause="quick sort step 2 (partition): afterwards the window holds the elements that compared less than the pivot, in their original relative order, then the pivot, then the others in their original relative order (stability); positions outside the window are untouched; exactly the comparison results of this window are consumed; the two sides are scheduled for sorting exactly when they have more than one element" timeout=300 replay=sort_stable
    #[kani::proof]
    #[kani::unwind(9)]
    fn quick_sort_2_len4_at2_code20() { quick_sort_2_at(2, 4, 20); }
    //@harness props=C17,C01 quickfor=C17 strength=bounded tier=thorough bound="ONE execution: window of 4 positions at offset 2 of a 7-element index vector, comparison outcomes (less, equal, greater) (the instances of this family enumerate every outcome vector for this window)" clause="quick sort step 2 (partition): afterwards the window holds the elements that compared less than the pivot, in their original relative order, then the pivot, then the others in their original relative order (stability); positions outside the window are untouched; exactly the comparison results of this window are consumed; the two sides are scheduled for sorting exactly when they have more than one element" timeout=300 replay=sort_stable
    #[kani::proof]
    #[kani::unwind(9)]
    fn quick_sort_2_len4_at2_code21() { quick_sort_2_at(2, 4, 21); }
    //@harness props=C17,C01 quickfor=C17 strength=bounded tier=thorough bound="ONE execution: window of 4 positions at offset 2 of a 7-element index vector, comparison outcomes (equal, equal, greater) (the instances of this family enumerate every outcome vector for this window)" clause="quick sort step 2 (partition): afterwards the window holds the elements that compared less than the pivot, in their original relative order, then the pivot, then the others in their original relative order (stability); positions outside the window are untouched; exactly the comparison results of this window are consumed; the two sides are scheduled for sorting exactly when they have more than one element" timeout=300 replay=sort_stable
    #[kani::proof]
    #[kani::unwind(9)]
    fn quick_sort_2_len4_at2_code22() { quick_sort_2_at(2, 4, 22); }
    //@harness props=C17,C01 quickfor=C17 strength=bounded tier=thorough bound="ONE execution: window of 4 positions at offset 2 of a 7-element index vector, comparison outcomes (greater, equal, greater) (the instances of this family enumerate every outcome vector for this window)" clause="quick sort step 2 (partition): afterwards the window holds the elements that compared less than the pivot, in their original relative order, then the pivot, then the others in their original relative order (stability); positions outside the window are untouched; exactly the comparison results of this window are consumed; the two sides are scheduled for sorting exactly when they have more than one element" timeout=300 replay=sort_stable
    #[kani::proof]
    #[kani::unwind(9)]
    fn quick_sort_2_len4_at2_code23() { quick_sort_2_at(2, 4, 23); }
    //@harness props=C17,C01 quickfor=C17 strength=bounded tier=thorough bound="ONE execution: window of 4 positions at offset 2 of a 7-element index vector, comparison outcomes (less, greater, greater) (the instances of this family enumerate every outcome vector for this window)" clause="quick sort step 2 (partition): afterwards the window holds the elements that compared less than the pivot, in their original relative order, then the pivot, then the others in their original relative order (stability); positions outside the window are untouched; exactly the comparison results of this window are consumed; the two sides are scheduled for sorting exactly when they have more than one element" timeout=300 replay=sort_stable
    #[kani::proof]
    #[kani::unwind(9)]
    fn quick_sort_2_len4_at2_code24() { quick_sort_2_at(2, 4, 24); }
    //@harness props=C17,C01 quickfor=C17 strength=bounded tier=thorough bound="ONE execution: window of 4 positions at offset 2 of a 7-element index vector, comparison outcomes (equal, greater, greater) (the instances of this family enumerate every outcome vector for this window)" clause="quick sort step 2 (partition): afterwards the window holds the elements that compared less than the pivot, in their original relative order, then the pivot, then the others in their original relative order (stability); positions outside the window are untouched; exactly the comparison results of this window are consumed; the two sides are scheduled for sorting exactly when they have more than one element" timeout=300 replay=sort_stable
    #[kani::proof]
    #[kani::unwind(9)]
    fn quick_sort_2_len4_at2_code25() { quick_sort_2_at(2, 4, 25); }
    //@harness props=C17,C01 quickfor=C17 strength=bounded tier=thorough bound="ONE execution: window of 4 positions at offset 2 of a 7-element index vector, comparison outcomes (greater, greater, greater) (the instances of this family enumerate every outcome vector for this window)" clause="quick sort step 2 (partition): afterwards the window holds the elements that compared less than the pivot, in their original relative order, then the pivot, then the others in their original relative order (stability); positions outside the window are untouched; exactly the comparison results of this window are consumed; the two sides are scheduled for sorting exactly when they have more than one element" timeout=300 replay=sort_stable
    #[kani::proof]
    #[kani::unwind(9)]
    fn quick_sort_2_len4_at2_code26() { quick_sort_2_at(2, 4, 26); }
    // @@GEN-END quick_sort_2

    fn unmerged(left: &[usize], li: usize, right: &[usize], ri: usize) -> Unmerged {
        Rc::new((Cell::new(li), left.to_vec().into_boxed_slice(), Cell::new(ri), right.to_vec().into_boxed_slice()))
    }
    //@harness props=C17,C01 strength=bounded bound="two runs of 1..3 elements each, any progress (li, ri) with both runs unfinished, inside a 7-element index vector" clause="merge step after a comparison: if left key <= right key the LEFT element is placed (ties keep input order: stability), else the right one; it is placed at position start + li + ri, only that position changes, the taken run advances by one, and the merge continues" timeout=900 replay=sort_stable
    #[kani::proof]
    #[kani::unwind(9)]
    fn merge_post_compare_contract() {
        let perm = [9usize, 9, 9, 9, 9, 9, 9];
        let left = [3usize, 0, 6]; let right = [2usize, 5, 1];
        let (nl, nr, li, ri): (usize, usize, usize, usize) = (kani::any(), kani::any(), kani::any(), kani::any());
        kani::assume(nl >= 1 && nl <= 3 && nr >= 1 && nr <= 3 && li < nl && ri < nr);
        let o = any_ord();
        let mut e = ev();
        e.cmp_ord_stack.push(o);
        let sorted = sorted_of(&perm);
        let um = unmerged(&left[..nl], li, &right[..nr], ri);
        e.do_std_sort_merge_post_compare(keys(7), sorted.clone(), 1, um.clone());
        let pos = 1 + li + ri;
        if o != Ordering::Greater {
            assert!(sorted[pos].get() == left[li] && um.0.get() == li + 1 && um.2.get() == ri, "C17:sortset:merge-takes-the-left-element-on-less-or-equal-stability");
        } else {
            assert!(sorted[pos].get() == right[ri] && um.2.get() == ri + 1 && um.0.get() == li, "C17:sortset:merge-takes-the-right-element-only-when-strictly-smaller");
        }
        let mut k = 0; while k < 7 { if k != pos { assert!(sorted[k].get() == 9, "C17:sortset:merge-step-writes-one-position"); } k += 1; }
        assert!(e.cmp_ord_stack.is_empty() && e.state_stack.len() == 1 && matches!(&e.state_stack[0], State::StdSortMergePreCompare { start, .. } if *start == 1), "C17:sortset:merge-continues-after-each-placement");
        core::mem::forget(e);
    }

    fn merge_pre_at(nl: usize, nr: usize, li: usize, ri: usize) {
        let perm = [9usize, 9, 9, 9, 9, 9, 9];
        let left = [3usize, 0, 6]; let right = [2usize, 5, 1];
        let mut e = ev();
        let sorted = sorted_of(&perm);
        let ks = keys(7);
        e.do_std_sort_merge_pre_compare(ks, sorted.clone(), 1, unmerged(&left[..nl], li, &right[..nr], ri));
        let base = 1 + li + ri;
        if li == nl || ri == nr {
            assert!(e.state_stack.is_empty() && e.value_stack.is_empty(), "C17:sortset:merge-ends-when-a-run-is-exhausted");
            let mut k = 0;
            while k < 7 {
                let want = if li == nl { if k >= base && k - base < nr - ri { right[ri + (k - base)] } else { 9 } }
                           else { if k >= base && k - base < nl - li { left[li + (k - base)] } else { 9 } };
                assert!(sorted[k].get() == want, "C17:sortset:rest-of-the-other-run-is-copied-in-order");
                k += 1;
            }
        } else {
            assert!(e.state_stack.len() == 2 && matches!(&e.state_stack[0], State::StdSortMergePostCompare { start, .. } if *start == 1) && matches!(e.state_stack[1], State::CompareValue), "C17:sortset:heads-are-compared-next");
            assert!(e.value_stack.len() == 2 && e.value_stack[0] == ValueData::Number(left[li] as f64 * 10.0) && e.value_stack[1] == ValueData::Number(right[ri] as f64 * 10.0), "C17:sortset:left-head-key-then-right-head-key");
            let mut k = 0; while k < 7 { assert!(sorted[k].get() == 9, "C17:sortset:nothing-placed-before-the-comparison"); k += 1; }
        }
        core::mem::forget(e);
    }

    // @@GEN-BEGIN merge_pre
    //@harness props=C17,C01 quickfor=C17 strength=bounded bound="ONE execution: runs of 2 and 2 elements, progress (0, 0) (the instances of this family enumerate every progress pair for these run lengths)" clause="merge step before a comparison: when one run is exhausted the rest of the other is copied in order to the positions that remain and the merge ends; otherwise the keys of the two run heads are requested for comparison (left head first operand) and the step after the comparison is scheduled" timeout=300 replay=sort_stable
    #[kani::proof]
    #[kani::unwind(9)]
    fn merge_pre_2_2_at_0_0() { merge_pre_at(2, 2, 0, 0); }
    //@harness props=C17,C01 quickfor=C17 strength=bounded bound="ONE execution: runs of 2 and 2 elements, progress (0, 1) (the instances of this family enumerate every progress pair for these run lengths)" clause="merge step before a comparison: when one run is exhausted the rest of the other is copied in order to the positions that remain and the merge ends; otherwise the keys of the two run heads are requested for comparison (left head first operand) and the step after the comparison is scheduled" timeout=300 replay=sort_stable
    #[kani::proof]
    #[kani::unwind(9)]
    fn merge_pre_2_2_at_0_1() { merge_pre_at(2, 2, 0, 1); }
    //@harness props=C17,C01 quickfor=C17 strength=bounded bound="ONE execution: runs of 2 and 2 elements, progress (0, 2) (the instances of this family enumerate every progress pair for these run lengths)" clause="merge step before a comparison: when one run is exhausted the rest of the other is copied in order to the positions that remain and the merge ends; otherwise the keys of the two run heads are requested for comparison (left head first operand) and the step after the comparison is scheduled" timeout=300 replay=sort_stable
    #[kani::proof]
    #[kani::unwind(9)]
    fn merge_pre_2_2_at_0_2() { merge_pre_at(2, 2, 0, 2); }
    //@harness props=C17,C01 quickfor=C17 strength=bounded bound="ONE execution: runs of 2 and 2 elements, progress (1, 0) (the instances of this family enumerate every progress pair for these run lengths)" clause="merge step before a comparison: when one run is exhausted the rest of the other is copied in order to the positions that remain and the merge ends; otherwise the keys of the two run heads are requested for comparison (left head first operand) and the step after the comparison is scheduled" timeout=300 replay=sort_stable
    #[kani::proof]
    #[kani::unwind(9)]
    fn merge_pre_2_2_at_1_0() { merge_pre_at(2, 2, 1, 0); }
    //@harness props=C17,C01 quickfor=C17 strength=bounded bound="ONE execution: runs of 2 and 2 elements, progress (1, 1) (the instances of this family enumerate every progress pair for these run lengths)" clause="merge step before a comparison: when one run is exhausted the rest of the other is copied in order to the positions that remain and the merge ends; otherwise the keys of the two run heads are requested for comparison (left head first operand) and the step after the comparison is scheduled" timeout=300 replay=sort_stable
    #[kani::proof]
    #[kani::unwind(9)]
    fn merge_pre_2_2_at_1_1() { merge_pre_at(2, 2, 1, 1); }
    //@harness props=C17,C01 quickfor=C17 strength=bounded bound="ONE execution: runs of 2 and 2 elements, progress (1, 2) (the instances of this family enumerate every progress pair for these run lengths)" clause="merge step before a comparison: when one run is exhausted the rest of the other is copied in order to the positions that remain and the merge ends; otherwise the keys of the two run heads are requested for comparison (left head first operand) and the step after the comparison is scheduled" timeout=300 replay=sort_stable
    #[kani::proof]
    #[kani::unwind(9)]
    fn merge_pre_2_2_at_1_2() { merge_pre_at(2, 2, 1, 2); }
    //@harness props=C17,C01 quickfor=C17 strength=bounded bound="ONE execution: runs of 2 and 2 elements, progress (2, 0) (the instances of this family enumerate every progress pair for these run lengths)" clause="merge step before a comparison: when one run is exhausted the rest of the other is copied in order to the positions that remain and the merge ends; otherwise the keys of the two run heads are requested for comparison (left head first operand) and the step after the comparison is scheduled" timeout=300 replay=sort_stable
    #[kani::proof]
    #[kani::unwind(9)]
    fn merge_pre_2_2_at_2_0() { merge_pre_at(2, 2, 2, 0); }
    //@harness props=C17,C01 quickfor=C17 strength=bounded bound="ONE execution: runs of 2 and 2 elements, progress (2, 1) (the instances of this family enumerate every progress pair for these run lengths)" clause="merge step before a comparison: when one run is exhausted the rest of the other is copied in order to the positions that remain and the merge ends; otherwise the keys of the two run heads are requested for comparison (left head first operand) and the step after the comparison is scheduled" timeout=300 replay=sort_stable
    #[kani::proof]
    #[kani::unwind(9)]
    fn merge_pre_2_2_at_2_1() { merge_pre_at(2, 2, 2, 1); }
    //@harness props=C17,C01 quickfor=C17 strength=bounded bound="ONE execution: runs of 2 and 2 elements, progress (2, 2) (the instances of this family enumerate every progress pair for these run lengths)" clause="merge step before a comparison: when one run is exhausted the rest of the other is copied in order to the positions that remain and the merge ends; otherwise the keys of the two run heads are requested for comparison (left head first operand) and the step after the comparison is scheduled" timeout=300 replay=sort_stable
    #[kani::proof]
    #[kani::unwind(9)]
    fn merge_pre_2_2_at_2_2() { merge_pre_at(2, 2, 2, 2); }
    //@harness props=C17,C01 quickfor=C17 strength=bounded tier=thorough bound="ONE execution: runs of 1 and 3 elements, progress (0, 0) (the instances of this family enumerate every progress pair for these run lengths)" clause="merge step before a comparison: when one run is exhausted the rest of the other is copied in order to the positions that remain and the merge ends; otherwise the keys of the two run heads are requested for comparison (left head first operand) and the step after the comparison is scheduled" timeout=300 replay=sort_stable
    #[kani::proof]
    #[kani::unwind(9)]
    fn merge_pre_1_3_at_0_0() { merge_pre_at(1, 3, 0, 0); }
    //@harness props=C17,C01 quickfor=C17 strength=bounded tier=thorough bound="ONE execution: runs of 1 and 3 elements, progress (0, 1) (the instances of this family enumerate every progress pair for these run lengths)" clause="merge step before a comparison: when one run is exhausted the rest of the other is copied in order to the positions that remain and the merge ends; otherwise the keys of the two run heads are requested for comparison (left head first operand) and the step after the comparison is scheduled" timeout=300 replay=sort_stable
    #[kani::proof]
    #[kani::unwind(9)]
    fn merge_pre_1_3_at_0_1() { merge_pre_at(1, 3, 0, 1); }
    //@harness props=C17,C01 quickfor=C17 strength=bounded tier=thorough bound="ONE execution: runs of 1 and 3 elements, progress (0, 2) (the instances of this family enumerate every progress pair for these run lengths)" clause="merge step before a comparison: when one run is exhausted the rest of the other is copied in order to the positions that remain and the merge ends; otherwise the keys of the two run heads are requested for comparison (left head first operand) and the step after the comparison is scheduled" timeout=300 replay=sort_stable
    #[kani::proof]
    #[kani::unwind(9)]
    fn merge_pre_1_3_at_0_2() { merge_pre_at(1, 3, 0, 2); }
    //@harness props=C17,C01 quickfor=C17 strength=bounded tier=thorough bound="ONE execution: runs of 1 and 3 elements, progress (0, 3) (the instances of this family enumerate every progress pair for these run lengths)" clause="merge step before a comparison: when one run is exhausted the rest of the other is copied in order to the positions that remain and the merge ends; otherwise the keys of the two run heads are requested for comparison (left head first operand) and the step after the comparison is scheduled" timeout=300 replay=sort_stable
    #[kani::proof]
    #[kani::unwind(9)]
    fn merge_pre_1_3_at_0_3() { merge_pre_at(1, 3, 0, 3); }
    //@harness props=C17,C01 quickfor=C17 strength=bounded tier=thorough bound="ONE execution: runs of 1 and 3 elements, progress (1, 0) (the instances of this family enumerate every progress pair for these run lengths)" clause="merge step before a comparison: when one run is exhausted the rest of the other is copied in order to the positions that remain and the merge ends; otherwise the keys of the two run heads are requested for comparison (left head first operand) and the step after the comparison is scheduled" timeout=300 replay=sort_stable
    #[kani::proof]
    #[kani::unwind(9)]
    fn merge_pre_1_3_at_1_0() { merge_pre_at(1, 3, 1, 0); }
    //@harness props=C17,C01 quickfor=C17 strength=bounded tier=thorough bound="ONE execution: runs of 1 and 3 elements, progress (1, 1) (the instances of this family enumerate every progress pair for these run lengths)" clause="merge step before a comparison: when one run is exhausted the rest of the other is copied in order to the positions that remain and the merge ends; otherwise the keys of the two run heads are requested for comparison (left head first operand) and the step after the comparison is scheduled" timeout=300 replay=sort_stable
    #[kani::proof]
    #[kani::unwind(9)]
    fn merge_pre_1_3_at_1_1() { merge_pre_at(1, 3, 1, 1); }
    //@harness props=C17,C01 quickfor=C17 strength=bounded tier=thorough bound="ONE execution: runs of 1 and 3 elements, progress (1, 2) (the instances of this family enumerate every progress pair for these run lengths)" clause="merge step before a comparison: when one run is exhausted the rest of the other is copied in order to the positions that remain and the merge ends; otherwise the keys of the two run heads are requested for comparison (left head first operand) and the step after the comparison is scheduled" timeout=300 replay=sort_stable
    #[kani::proof]
    #[kani::unwind(9)]
    fn merge_pre_1_3_at_1_2() { merge_pre_at(1, 3, 1, 2); }
    //@harness props=C17,C01 quickfor=C17 strength=bounded tier=thorough bound="ONE execution: runs of 1 and 3 elements, progress (1, 3) (the instances of this family enumerate every progress pair for these run lengths)" clause="merge step before a comparison: when one run is exhausted the rest of the other is copied in order to the positions that remain and the merge ends; otherwise the keys of the two run heads are requested for comparison (left head first operand) and the step after the comparison is scheduled" timeout=300 replay=sort_stable
    #[kani::proof]
    #[kani::unwind(9)]
    fn merge_pre_1_3_at_1_3() { merge_pre_at(1, 3, 1, 3); }
    //@harness props=C17,C01 quickfor=C17 strength=bounded tier=thorough bound="ONE execution: runs of 3 and 1 elements, progress (0, 0) (the instances of this family enumerate every progress pair for these run lengths)" clause="merge step before a comparison: when one run is exhausted the rest of the other is copied in order to the positions that remain and the merge ends; otherwise the keys of the two run heads are requested for comparison (left head first operand) and the step after the comparison is scheduled" timeout=300 replay=sort_stable
    #[kani::proof]
    #[kani::unwind(9)]
    fn merge_pre_3_1_at_0_0() { merge_pre_at(3, 1, 0, 0); }
    //@harness props=C17,C01 quickfor=C17 strength=bounded tier=thorough bound="ONE execution: runs of 3 and 1 elements, progress (0, 1) (the instances of this family enumerate every progress pair for these run lengths)" clause="merge step before a comparison: when one run is exhausted the rest of the other is copied in order to the positions that remain and the merge ends; otherwise the keys of the two run heads are requested for comparison (left head first operand) and the step after the comparison is scheduled" timeout=300 replay=sort_stable
    #[kani::proof]
    #[kani::unwind(9)]
    fn merge_pre_3_1_at_0_1() { merge_pre_at(3, 1, 0, 1); }
    //@harness props=C17,C01 quickfor=C17 strength=bounded tier=thorough bound="ONE execution: runs of 3 and 1 elements, progress (1, 0) (the instances of this family enumerate every progress pair for these run lengths)" clause="merge step before a comparison: when one run is exhausted the rest of the other is copied in order to the positions that remain and the merge ends; otherwise the keys of the two run heads are requested for comparison (left head first operand) and the step after the comparison is scheduled" timeout=300 replay=sort_stable
    #[kani::proof]
    #[kani::unwind(9)]
    fn merge_pre_3_1_at_1_0() { merge_pre_at(3, 1, 1, 0); }
    //@harness props=C17,C01 quickfor=C17 strength=bounded tier=thorough bound="ONE execution: runs of 3 and 1 elements, progress (1, 1) (the instances of this family enumerate every progress pair for these run lengths)" clause="merge step before a comparison: when one run is exhausted the rest of the other is copied in order to the positions that remain and the merge ends; otherwise the keys of the two run heads are requested for comparison (left head first operand) and the step after the comparison is scheduled" timeout=300 replay=sort_stable
    #[kani::proof]
    #[kani::unwind(9)]
    fn merge_pre_3_1_at_1_1() { merge_pre_at(3, 1, 1, 1); }
    //@harness props=C17,C01 quickfor=C17 strength=bounded tier=thorough bound="ONE execution: runs of 3 and 1 elements, progress (2, 0) (the instances of this family enumerate every progress pair for these run lengths)" clause="merge step before a comparison: when one run is exhausted the rest of the other is copied in order to the positions that remain and the merge ends; otherwise the keys of the two run heads are requested for comparison (left head first operand) and the step after the comparison is scheduled" timeout=300 replay=sort_stable
    #[kani::proof]
    #[kani::unwind(9)]
    fn merge_pre_3_1_at_2_0() { merge_pre_at(3, 1, 2, 0); }
    //@harness props=C17,C01 quickfor=C17 strength=bounded tier=thorough bound="ONE execution: runs of 3 and 1 elements, progress (2, 1) (the instances of this family enumerate every progress pair for these run lengths)" clause="merge step before a comparison: when one run is exhausted the rest of the other is copied in order to the positions that remain and the merge ends; otherwise the keys of the two run heads are requested for comparison (left head first operand) and the step after the comparison is scheduled" timeout=300 replay=sort_stable
    #[kani::proof]
    #[kani::unwind(9)]
    fn merge_pre_3_1_at_2_1() { merge_pre_at(3, 1, 2, 1); }
    //@harness props=C17,C01 quickfor=C17 strength=bounded tier=thorough bound="ONE execution: runs of 3 and 1 elements, progress (3, 0) (the instances of this family enumerate every progress pair for these run lengths)" clause="merge step before a comparison: when one run is exhausted the rest of the other is copied in order to the positions that remain and the merge ends; otherwise the keys of the two run heads are requested for comparison (left head first operand) and the step after the comparison is scheduled" timeout=300 replay=sort_stable
    #[kani::proof]
    #[kani::unwind(9)]
    fn merge_pre_3_1_at_3_0() { merge_pre_at(3, 1, 3, 0); }
    //@harness props=C17,C01 quickfor=C17 strength=bounded tier=thorough bound="ONE execution: runs of 3 and 1 elements, progress (3, 1) (the instances of this family enumerate every progress pair for these run lengths)" clause="merge step before a comparison: when one run is exhausted the rest of the other is copied in order to the positions that remain and the merge ends; otherwise the keys of the two run heads are requested for comparison (left head first operand) and the step after the comparison is scheduled" timeout=300 replay=sort_stable
    #[kani::proof]
    #[kani::unwind(9)]
    fn merge_pre_3_1_at_3_1() { merge_pre_at(3, 1, 3, 1); }
    //@harness props=C17,C01 quickfor=C17 strength=bounded tier=thorough bound="ONE execution: runs of 3 and 3 elements, progress (0, 0) (the instances of this family enumerate every progress pair for these run lengths)" clause="merge step before a comparison: when one run is exhausted the rest of the other is copied in order to the positions that remain and the merge ends; otherwise the keys of the two run heads are requested for comparison (left head first operand) and the step after the comparison is scheduled" timeout=300 replay=sort_stable
    #[kani::proof]
    #[kani::unwind(9)]
    fn merge_pre_3_3_at_0_0() { merge_pre_at(3, 3, 0, 0); }
    //@harness props=C17,C01 quickfor=C17 strength=bounded tier=thorough bound="ONE execution: runs of 3 and 3 elements, progress (0, 1) (the instances of this family enumerate every progress pair for these run lengths)" clause="merge step before a comparison: when one run is exhausted the rest of the other is copied in order to the positions that remain and the merge ends; otherwise the keys of the two run heads are requested for comparison (left head first operand) and the step after the comparison is scheduled" timeout=300 replay=sort_stable
    #[kani::proof]
    #[kani::unwind(9)]
    fn merge_pre_3_3_at_0_1() { merge_pre_at(3, 3, 0, 1); }
    //@harness props=C17,C01 quickfor=C17 strength=bounded tier=thorough bound="ONE execution: runs of 3 and 3 elements, progress (0, 2) (the instances of this family enumerate every progress pair for these run lengths)" clause="merge step before a comparison: when one run is exhausted the rest of the other is copied in order to the positions that remain and the merge ends; otherwise the keys of the two run heads are requested for comparison (left head first operand) and the step after the comparison is scheduled" timeout=300 replay=sort_stable
    #[kani::proof]
    #[kani::unwind(9)]
    fn merge_pre_3_3_at_0_2() { merge_pre_at(3, 3, 0, 2); }
    //@harness props=C17,C01 quickfor=C17 strength=bounded tier=thorough bound="ONE execution: runs of 3 and 3 elements, progress (0, 3) (the instances of this family enumerate every progress pair for these run lengths)" clause="merge step before a comparison: when one run is exhausted the rest of the other is copied in order to the positions that remain and the merge ends; otherwise the keys of the two run heads are requested for comparison (left head first operand) and the step after the comparison is scheduled" timeout=300 replay=sort_stable
    #[kani::proof]
    #[kani::unwind(9)]
    fn merge_pre_3_3_at_0_3() { merge_pre_at(3, 3, 0, 3); }
    //@harness props=C17,C01 quickfor=C17 strength=bounded tier=thorough bound="ONE execution: runs of 3 and 3 elements, progress (1, 0) (the instances of this family enumerate every progress pair for these run lengths)" clause="merge step before a comparison: when one run is exhausted the rest of the other is copied in order to the positions that remain and the merge ends; otherwise the keys of the two run heads are requested for comparison (left head first operand) and the step after the comparison is scheduled" timeout=300 replay=sort_stable
    #[kani::proof]
    #[kani::unwind(9)]
    fn merge_pre_3_3_at_1_0() { merge_pre_at(3, 3, 1, 0); }
    //@harness props=C17,C01 quickfor=C17 strength=bounded tier=thorough bound="ONE execution: runs of 3 and 3 elements, progress (1, 1) (the instances of this family enumerate every progress pair for these run lengths)" clause="merge step before a comparison: when one run is exhausted the rest of the other is copied in order to the positions that remain and the merge ends; otherwise the keys of the two run heads are requested for comparison (left head first operand) and the step after the comparison is scheduled" timeout=300 replay=sort_stable
    #[kani::proof]
    #[kani::unwind(9)]
    fn merge_pre_3_3_at_1_1() { merge_pre_at(3, 3, 1, 1); }
    //@harness props=C17,C01 quickfor=C17 strength=bounded tier=thorough bound="ONE execution: runs of 3 and 3 elements, progress (1, 2) (the instances of this family enumerate every progress pair for these run lengths)" clause="merge step before a comparison: when one run is exhausted the rest of the other is copied in order to the positions that remain and the merge ends; otherwise the keys of the two run heads are requested for comparison (left head first operand) and the step after the comparison is scheduled" timeout=300 replay=sort_stable
    #[kani::proof]
    #[kani::unwind(9)]
    fn merge_pre_3_3_at_1_2() { merge_pre_at(3, 3, 1, 2); }
    //@harness props=C17,C01 quickfor=C17 strength=bounded tier=thorough bound="ONE execution: runs of 3 and 3 elements, progress (1, 3) (the instances of this family enumerate every progress pair for these run lengths)" clause="merge step before a comparison: when one run is exhausted the rest of the other is copied in order to the positions that remain and the merge ends; otherwise the keys of the two run heads are requested for comparison (left head first operand) and the step after the comparison is scheduled" timeout=300 replay=sort_stable
    #[kani::proof]
    #[kani::unwind(9)]
    fn merge_pre_3_3_at_1_3() { merge_pre_at(3, 3, 1, 3); }
    //@harness props=C17,C01 quickfor=C17 strength=bounded tier=thorough bound="ONE execution: runs of 3 and 3 elements, progress (2, 0) (the instances of this family enumerate every progress pair for these run lengths)" clause="merge step before a comparison: when one run is exhausted the rest of the other is copied in order to the positions that remain and the merge ends; otherwise the keys of the two run heads are requested for comparison (left head first operand) and the step after the comparison is scheduled" timeout=300 replay=sort_stable
    #[kani::proof]
    #[kani::unwind(9)]
    fn merge_pre_3_3_at_2_0() { merge_pre_at(3, 3, 2, 0); }
    //@harness props=C17,C01 quickfor=C17 strength=bounded tier=thorough bound="ONE execution: runs of 3 and 3 elements, progress (2, 1) (the instances of this family enumerate every progress pair for these run lengths)" clause="merge step before a comparison: when one run is exhausted the rest of the other is copied in order to the positions that remain and the merge ends; otherwise the keys of the two run heads are requested for comparison (left head first operand) and the step after the comparison is scheduled" timeout=300 replay=sort_stable
    #[kani::proof]
    #[kani::unwind(9)]
    fn merge_pre_3_3_at_2_1() { merge_pre_at(3, 3, 2, 1); }
    //@harness props=C17,C01 quickfor=C17 strength=bounded tier=thorough bound="ONE execution: runs of 3 and 3 elements, progress (2, 2) (the instances of this family enumerate every progress pair for these run lengths)" clause="merge step before a comparison: when one run is exhausted the rest of the other is copied in order to the positions that remain and the merge ends; otherwise the keys of the two run heads are requested for comparison (left head first operand) and the step after the comparison is scheduled" timeout=300 replay=sort_stable
    #[kani::proof]
    #[kani::unwind(9)]
    fn merge_pre_3_3_at_2_2() { merge_pre_at(3, 3, 2, 2); }
    //@harness props=C17,C01 quickfor=C17 strength=bounded tier=thorough bound="ONE execution: runs of 3 and 3 elements, progress (2, 3) (the instances of this family enumerate every progress pair for these run lengths)" clause="merge step before a comparison: when one run is exhausted the rest of the other is copied in order to the positions that remain and the merge ends; otherwise the keys of the two run heads are requested for comparison (left head first operand) and the step after the comparison is scheduled" timeout=300 replay=sort_stable
    #[kani::proof]
    #[kani::unwind(9)]
    fn merge_pre_3_3_at_2_3() { merge_pre_at(3, 3, 2, 3); }
    //@harness props=C17,C01 quickfor=C17 strength=bounded tier=thorough bound="ONE execution: runs of 3 and 3 elements, progress (3, 0) (the instances of this family enumerate every progress pair for these run lengths)" clause="merge step before a comparison: when one run is exhausted the rest of the other is copied in order to the positions that remain and the merge ends; otherwise the keys of the two run heads are requested for comparison (left head first operand) and the step after the comparison is scheduled" timeout=300 replay=sort_stable
    #[kani::proof]
    #[kani::unwind(9)]
    fn merge_pre_3_3_at_3_0() { merge_pre_at(3, 3, 3, 0); }
    //@harness props=C17,C01 quickfor=C17 strength=bounded tier=thorough bound="ONE execution: runs of 3 and 3 elements, progress (3, 1) (the instances of this family enumerate every progress pair for these run lengths)" clause="merge step before a comparison: when one run is exhausted the rest of the other is copied in order to the positions that remain and the merge ends; otherwise the keys of the two run heads are requested for comparison (left head first operand) and the step after the comparison is scheduled" timeout=300 replay=sort_stable
    #[kani::proof]
    #[kani::unwind(9)]
    fn merge_pre_3_3_at_3_1() { merge_pre_at(3, 3, 3, 1); }
    //@harness props=C17,C01 quickfor=C17 strength=bounded tier=thorough bound="ONE execution: runs of 3 and 3 elements, progress (3, 2) (the instances of this family enumerate every progress pair for these run lengths)" clause="merge step before a comparison: when one run is exhausted the rest of the other is copied in order to the positions that remain and the merge ends; otherwise the keys of the two run heads are requested for comparison (left head first operand) and the step after the comparison is scheduled" timeout=300 replay=sort_stable
    #[kani::proof]
    #[kani::unwind(9)]
    fn merge_pre_3_3_at_3_2() { merge_pre_at(3, 3, 3, 2); }
    //@harness props=C17,C01 quickfor=C17 strength=bounded tier=thorough bound="ONE execution: runs of 3 and 3 elements, progress (3, 3) (the instances of this family enumerate every progress pair for these run lengths)" clause="merge step before a comparison: when one run is exhausted the rest of the other is copied in order to the positions that remain and the merge ends; otherwise the keys of the two run heads are requested for comparison (left head first operand) and the step after the comparison is scheduled" timeout=300 replay=sort_stable
    #[kani::proof]
    #[kani::unwind(9)]
    fn merge_pre_3_3_at_3_3() { merge_pre_at(3, 3, 3, 3); }
    //@harness props=C17,C01 quickfor=C17 strength=bounded tier=thorough bound="ONE execution: runs of 1 and 1 elements, progress (0, 0) (the instances of this family enumerate every progress pair for these run lengths)" clause="merge step before a comparison: when one run is exhausted the rest of the other is copied in order to the positions that remain and the merge ends; otherwise the keys of the two run heads are requested for comparison (left head first operand) and the step after the comparison is scheduled" timeout=300 replay=sort_stable
    #[kani::proof]
    #[kani::unwind(9)]
    fn merge_pre_1_1_at_0_0() { merge_pre_at(1, 1, 0, 0); }
    //@harness props=C17,C01 quickfor=C17 strength=bounded tier=thorough bound="ONE execution: runs of 1 and 1 elements, progress (0, 1) (the instances of this family enumerate every progress pair for these run lengths)" clause="merge step before a comparison: when one run is exhausted the rest of the other is copied in order to the positions that remain and the merge ends; otherwise the keys of the two run heads are requested for comparison (left head first operand) and the step after the comparison is scheduled" timeout=300 replay=sort_stable
    #[kani::proof]
    #[kani::unwind(9)]
    fn merge_pre_1_1_at_0_1() { merge_pre_at(1, 1, 0, 1); }
    //@harness props=C17,C01 quickfor=C17 strength=bounded tier=thorough bound="ONE execution: runs of 1 and 1 elements, progress (1, 0) (the instances of this family enumerate every progress pair for these run lengths)" clause="merge step before a comparison: when one run is exhausted the rest of the other is copied in order to the positions that remain and the merge ends; otherwise the keys of the two run heads are requested for comparison (left head first operand) and the step after the comparison is scheduled" timeout=300 replay=sort_stable
    #[kani::proof]
    #[kani::unwind(9)]
    fn merge_pre_1_1_at_1_0() { merge_pre_at(1, 1, 1, 0); }
    //@harness props=C17,C01 quickfor=C17 strength=bounded tier=thorough bound="ONE execution: runs of 1 and 1 elements, progress (1, 1) (the instances of this family enumerate every progress pair for these run lengths)" clause="merge step before a comparison: when one run is exhausted the rest of the other is copied in order to the positions that remain and the merge ends; otherwise the keys of the two run heads are requested for comparison (left head first operand) and the step after the comparison is scheduled" timeout=300 replay=sort_stable
    #[kani::proof]
    #[kani::unwind(9)]
    fn merge_pre_1_1_at_1_1() { merge_pre_at(1, 1, 1, 1); }
    //@harness props=C17,C01 quickfor=C17 strength=bounded tier=thorough bound="ONE execution: runs of 2 and 3 elements, progress (0, 0) (the instances of this family enumerate every progress pair for these run lengths)" clause="merge step before a comparison: when one run is exhausted the rest of the other is copied in order to the positions that remain and the merge ends; otherwise the keys of the two run heads are requested for comparison (left head first operand) and the step after the comparison is scheduled" timeout=300 replay=sort_stable
    #[kani::proof]
    #[kani::unwind(9)]
    fn merge_pre_2_3_at_0_0() { merge_pre_at(2, 3, 0, 0); }
    //@harness props=C17,C01 quickfor=C17 strength=bounded tier=thorough bound="ONE execution: runs of 2 and 3 elements, progress (0, 1) (the instances of this family enumerate every progress pair for these run lengths)" clause="merge step before a comparison: when one run is exhausted the rest of the other is copied in order to the positions that remain and the merge ends; otherwise the keys of the two run heads are requested for comparison (left head first operand) and the step after the comparison is scheduled" timeout=300 replay=sort_stable
    #[kani::proof]
    #[kani::unwind(9)]
    fn merge_pre_2_3_at_0_1() { merge_pre_at(2, 3, 0, 1); }
    //@harness props=C17,C01 quickfor=C17 strength=bounded tier=thorough bound="ONE execution: runs of 2 and 3 elements, progress (0, 2) (the instances of this family enumerate every progress pair for these run lengths)" clause="merge step before a comparison: when one run is exhausted the rest of the other is copied in order to the positions that remain and the merge ends; otherwise the keys of the two run heads are requested for comparison (left head first operand) and the step after the comparison is scheduled" timeout=300 replay=sort_stable
    #[kani::proof]
    #[kani::unwind(9)]
    fn merge_pre_2_3_at_0_2() { merge_pre_at(2, 3, 0, 2); }
    //@harness props=C17,C01 quickfor=C17 strength=bounded tier=thorough bound="ONE execution: runs of 2 and 3 elements, progress (0, 3) (the instances of this family enumerate every progress pair for these run lengths)" clause="merge step before a comparison: when one run is exhausted the rest of the other is copied in order to the positions that remain and the merge ends; otherwise the keys of the two run heads are requested for comparison (left head first operand) and the step after the comparison is scheduled" timeout=300 replay=sort_stable
    #[kani::proof]
    #[kani::unwind(9)]
    fn merge_pre_2_3_at_0_3() { merge_pre_at(2, 3, 0, 3); }
    //@harness props=C17,C01 quickfor=C17 strength=bounded tier=thorough bound="ONE execution: runs of 2 and 3 elements, progress (1, 0) (the instances of this family enumerate every progress pair for these run lengths)" clause="merge step before a comparison: when one run is exhausted the rest of the other is copied in order to the positions that remain and the merge ends; otherwise the keys of the two run heads are requested for comparison (left head first operand) and the step after the comparison is scheduled" timeout=300 replay=sort_stable
    #[kani::proof]
    #[kani::unwind(9)]
    fn merge_pre_2_3_at_1_0() { merge_pre_at(2, 3, 1, 0); }
    //@harness props=C17,C01 quickfor=C17 strength=bounded tier=thorough bound="ONE execution: runs of 2 and 3 elements, progress (1, 1) (the instances of this family enumerate every progress pair for these run lengths)" clause="merge step before a comparison: when one run is exhausted the rest of the other is copied in order to the positions that remain and the merge ends; otherwise the keys of the two run heads are requested for comparison (left head first operand) and the step after the comparison is scheduled" timeout=300 replay=sort_stable
    #[kani::proof]
    #[kani::unwind(9)]
    fn merge_pre_2_3_at_1_1() { merge_pre_at(2, 3, 1, 1); }
    //@harness props=C17,C01 quickfor=C17 strength=bounded tier=thorough bound="ONE execution: runs of 2 and 3 elements, progress (1, 2) (the instances of this family enumerate every progress pair for these run lengths)" clause="merge step before a comparison: when one run is exhausted the rest of the other is copied in order to the positions that remain and the merge ends; otherwise the keys of the two run heads are requested for comparison (left head first operand) and the step after the comparison is scheduled" timeout=300 replay=sort_stable
    #[kani::proof]
    #[kani::unwind(9)]
    fn merge_pre_2_3_at_1_2() { merge_pre_at(2, 3, 1, 2); }
    //@harness props=C17,C01 quickfor=C17 strength=bounded tier=thorough bound="ONE execution: runs of 2 and 3 elements, progress (1, 3) (the instances of this family enumerate every progress pair for these run lengths)" clause="merge step before a comparison: when one run is exhausted the rest of the other is copied in order to the positions that remain and the merge ends; otherwise the keys of the two run heads are requested for comparison (left head first operand) and the step after the comparison is scheduled" timeout=300 replay=sort_stable
    #[kani::proof]
    #[kani::unwind(9)]
    fn merge_pre_2_3_at_1_3() { merge_pre_at(2, 3, 1, 3); }
    //@harness props=C17,C01 quickfor=C17 strength=bounded tier=thorough bound="ONE execution: runs of 2 and 3 elements, progress (2, 0) (the instances of this family enumerate every progress pair for these run lengths)" clause="merge step before a comparison: when one run is exhausted the rest of the other is copied in order to the positions that remain and the merge ends; otherwise the keys of the two run heads are requested for comparison (left head first operand) and the step after the comparison is scheduled" timeout=300 replay=sort_stable
    #[kani::proof]
    #[kani::unwind(9)]
    fn merge_pre_2_3_at_2_0() { merge_pre_at(2, 3, 2, 0); }
    //@harness props=C17,C01 quickfor=C17 strength=bounded tier=thorough bound="ONE execution: runs of 2 and 3 elements, progress (2, 1) (the instances of this family enumerate every progress pair for these run lengths)" clause="merge step before a comparison: when one run is exhausted the rest of the other is copied in order to the positions that remain and the merge ends; otherwise the keys of the two run heads are requested for comparison (left head first operand) and the step after the comparison is scheduled" timeout=300 replay=sort_stable
    #[kani::proof]
    #[kani::unwind(9)]
    fn merge_pre_2_3_at_2_1() { merge_pre_at(2, 3, 2, 1); }
    //@harness props=C17,C01 quickfor=C17 strength=bounded tier=thorough bound="ONE execution: runs of 2 and 3 elements, progress (2, 2) (the instances of this family enumerate every progress pair for these run lengths)" clause="merge step before a comparison: when one run is exhausted the rest of the other is copied in order to the positions that remain and the merge ends; otherwise the keys of the two run heads are requested for comparison (left head first operand) and the step after the comparison is scheduled" timeout=300 replay=sort_stable
    #[kani::proof]
    #[kani::unwind(9)]
    fn merge_pre_2_3_at_2_2() { merge_pre_at(2, 3, 2, 2); }
    //@harness props=C17,C01 quickfor=C17 strength=bounded tier=thorough bound="ONE execution: runs of 2 and 3 elements, progress (2, 3) (the instances of this family enumerate every progress pair for these run lengths)" clause="merge step before a comparison: when one run is exhausted the rest of the other is copied in order to the positions that remain and the merge ends; otherwise the keys of the two run heads are requested for comparison (left head first operand) and the step after the comparison is scheduled" timeout=300 replay=sort_stable
    #[kani::proof]
    #[kani::unwind(9)]
    fn merge_pre_2_3_at_2_3() { merge_pre_at(2, 3, 2, 3); }
    //@harness props=C17,C01 quickfor=C17 strength=bounded tier=thorough bound="ONE execution: runs of 3 and 2 elements, progress (0, 0) (the instances of this family enumerate every progress pair for these run lengths)" clause="merge step before a comparison: when one run is exhausted the rest of the other is copied in order to the positions that remain and the merge ends; otherwise the keys of the two run heads are requested for comparison (left head first operand) and the step after the comparison is scheduled" timeout=300 replay=sort_stable
    #[kani::proof]
    #[kani::unwind(9)]
    fn merge_pre_3_2_at_0_0() { merge_pre_at(3, 2, 0, 0); }
    //@harness props=C17,C01 quickfor=C17 strength=bounded tier=thorough bound="ONE execution: runs of 3 and 2 elements, progress (0, 1) (the instances of this family enumerate every progress pair for these run lengths)" clause="merge step before a comparison: when one run is exhausted the rest of the other is copied in order to the positions that remain and the merge ends; otherwise the keys of the two run heads are requested for comparison (left head first operand) and the step after the comparison is scheduled" timeout=300 replay=sort_stable
    #[kani::proof]
    #[kani::unwind(9)]
    fn merge_pre_3_2_at_0_1() { merge_pre_at(3, 2, 0, 1); }
    //@harness props=C17,C01 quickfor=C17 strength=bounded tier=thorough bound="ONE execution: runs of 3 and 2 elements, progress (0, 2) (the instances of this family enumerate every progress pair for these run lengths)" clause="merge step before a comparison: when one run is exhausted the rest of the other is copied in order to the positions that remain and the merge ends; otherwise the keys of the two run heads are requested for comparison (left head first operand) and the step after the comparison is scheduled" timeout=300 replay=sort_stable
    #[kani::proof]
    #[kani::unwind(9)]
    fn merge_pre_3_2_at_0_2() { merge_pre_at(3, 2, 0, 2); }
    //@harness props=C17,C01 quickfor=C17 strength=bounded tier=thorough bound="ONE execution: runs of 3 and 2 elements, progress (1, 0) (the instances of this family enumerate every progress pair for these run lengths)" clause="merge step before a comparison: when one run is exhausted the rest of the other is copied in order to the positions that remain and the merge ends; otherwise the keys of the two run heads are requested for comparison (left head first operand) and the step after the comparison is scheduled" timeout=300 replay=sort_stable
    #[kani::proof]
    #[kani::unwind(9)]
    fn merge_pre_3_2_at_1_0() { merge_pre_at(3, 2, 1, 0); }
    //@harness props=C17,C01 quickfor=C17 strength=bounded tier=thorough bound="ONE execution: runs of 3 and 2 elements, progress (1, 1) (the instances of this family enumerate every progress pair for these run lengths)" clause="merge step before a comparison: when one run is exhausted the rest of the other is copied in order to the positions that remain and the merge ends; otherwise the keys of the two run heads are requested for comparison (left head first operand) and the step after the comparison is scheduled" timeout=300 replay=sort_stable
    #[kani::proof]
    #[kani::unwind(9)]
    fn merge_pre_3_2_at_1_1() { merge_pre_at(3, 2, 1, 1); }
    //@harness props=C17,C01 quickfor=C17 strength=bounded tier=thorough bound="ONE execution: runs of 3 and 2 elements, progress (1, 2) (the instances of this family enumerate every progress pair for these run lengths)" clause="merge step before a comparison: when one run is exhausted the rest of the other is copied in order to the positions that remain and the merge ends; otherwise the keys of the two run heads are requested for comparison (left head first operand) and the step after the comparison is scheduled" timeout=300 replay=sort_stable
    #[kani::proof]
    #[kani::unwind(9)]
    fn merge_pre_3_2_at_1_2() { merge_pre_at(3, 2, 1, 2); }
    //@harness props=C17,C01 quickfor=C17 strength=bounded tier=thorough bound="ONE execution: runs of 3 and 2 elements, progress (2, 0) (the instances of this family enumerate every progress pair for these run lengths)" clause="merge step before a comparison: when one run is exhausted the rest of the other is copied in order to the positions that remain and the merge ends; otherwise the keys of the two run heads are requested for comparison (left head first operand) and the step after the comparison is scheduled" timeout=300 replay=sort_stable
    #[kani::proof]
    #[kani::unwind(9)]
    fn merge_pre_3_2_at_2_0() { merge_pre_at(3, 2, 2, 0); }
    //@harness props=C17,C01 quickfor=C17 strength=bounded tier=thorough bound="ONE execution: runs of 3 and 2 elements, progress (2, 1) (the instances of this family enumerate every progress pair for these run lengths)" clause="merge step before a comparison: when one run is exhausted the rest of the other is copied in order to the positions that remain and the merge ends; otherwise the keys of the two run heads are requested for comparison (left head first operand) and the step after the comparison is scheduled" timeout=300 replay=sort_stable
    #[kani::proof]
    #[kani::unwind(9)]
    fn merge_pre_3_2_at_2_1() { merge_pre_at(3, 2, 2, 1); }
    //@harness props=C17,C01 quickfor=C17 strength=bounded tier=thorough bound="ONE execution: runs of 3 and 2 elements, progress (2, 2) (the instances of this family enumerate every progress pair for these run lengths)" clause="merge step before a comparison: when one run is exhausted the rest of the other is copied in order to the positions that remain and the merge ends; otherwise the keys of the two run heads are requested for comparison (left head first operand) and the step after the comparison is scheduled" timeout=300 replay=sort_stable
    #[kani::proof]
    #[kani::unwind(9)]
    fn merge_pre_3_2_at_2_2() { merge_pre_at(3, 2, 2, 2); }
    //@harness props=C17,C01 quickfor=C17 strength=bounded tier=thorough bound="ONE execution: runs of 3 and 2 elements, progress (3, 0) (the instances of this family enumerate every progress pair for these run lengths)" clause="merge step before a comparison: when one run is exhausted the rest of the other is copied in order to the positions that remain and the merge ends; otherwise the keys of the two run heads are requested for comparison (left head first operand) and the step after the comparison is scheduled" timeout=300 replay=sort_stable
    #[kani::proof]
    #[kani::unwind(9)]
    fn merge_pre_3_2_at_3_0() { merge_pre_at(3, 2, 3, 0); }
    //@harness props=C17,C01 quickfor=C17 strength=bounded tier=thorough bound="ONE execution: runs of 3 and 2 elements, progress (3, 1) (the instances of this family enumerate every progress pair for these run lengths)" clause="merge step before a comparison: when one run is exhausted the rest of the other is copied in order to the positions that remain and the merge ends; otherwise the keys of the two run heads are requested for comparison (left head first operand) and the step after the comparison is scheduled" timeout=300 replay=sort_stable
    #[kani::proof]
    #[kani::unwind(9)]
    fn merge_pre_3_2_at_3_1() { merge_pre_at(3, 2, 3, 1); }
    //@harness props=C17,C01 quickfor=C17 strength=bounded tier=thorough bound="ONE execution: runs of 3 and 2 elements, progress (3, 2) (the instances of this family enumerate every progress pair for these run lengths)" clause="merge step before a comparison: when one run is exhausted the rest of the other is copied in order to the positions that remain and the merge ends; otherwise the keys of the two run heads are requested for comparison (left head first operand) and the step after the comparison is scheduled" timeout=300 replay=sort_stable
    #[kani::proof]
    #[kani::unwind(9)]
    fn merge_pre_3_2_at_3_2() { merge_pre_at(3, 2, 3, 2); }
    //@harness props=C17,C01 quickfor=C17 strength=bounded tier=thorough bound="ONE execution: runs of 1 and 2 elements, progress (0, 0) (the instances of this family enumerate every progress pair for these run lengths)" clause="merge step before a comparison: when one run is exhausted the rest of the other is copied in order to the positions that remain and the merge ends; otherwise the keys of the two run heads are requested for comparison (left head first operand) and the step after the comparison is scheduled" timeout=300 replay=sort_stable
    #[kani::proof]
    #[kani::unwind(9)]
    fn merge_pre_1_2_at_0_0() { merge_pre_at(1, 2, 0, 0); }
    //@harness props=C17,C01 quickfor=C17 strength=bounded tier=thorough bound="ONE execution: runs of 1 and 2 elements, progress (0, 1) (the instances of this family enumerate every progress pair for these run lengths)" clause="merge step before a comparison: when one run is exhausted the rest of the other is copied in order to the positions that remain and the merge ends; otherwise the keys of the two run heads are requested for comparison (left head first operand) and the step after the comparison is scheduled" timeout=300 replay=sort_stable
    #[kani::proof]
    #[kani::unwind(9)]
    fn merge_pre_1_2_at_0_1() { merge_pre_at(1, 2, 0, 1); }
    //@harness props=C17,C01 quickfor=C17 strength=bounded tier=thorough bound="ONE execution: runs of 1 and 2 elements, progress (0, 2) (the instances of this family enumerate every progress pair for these run lengths)" clause="merge step before a comparison: when one run is exhausted the rest of the other is copied in order to the positions that remain and the merge ends; otherwise the keys of the two run heads are requested for comparison (left head first operand) and the step after the comparison is scheduled" timeout=300 replay=sort_stable
    #[kani::proof]
    #[kani::unwind(9)]
    fn merge_pre_1_2_at_0_2() { merge_pre_at(1, 2, 0, 2); }
    //@harness props=C17,C01 quickfor=C17 strength=bounded tier=thorough bound="ONE execution: runs of 1 and 2 elements, progress (1, 0) (the instances of this family enumerate every progress pair for these run lengths)" clause="merge step before a comparison: when one run is exhausted the rest of the other is copied in order to the positions that remain and the merge ends; otherwise the keys of the two run heads are requested for comparison (left head first operand) and the step after the comparison is scheduled" timeout=300 replay=sort_stable
    #[kani::proof]
    #[kani::unwind(9)]
    fn merge_pre_1_2_at_1_0() { merge_pre_at(1, 2, 1, 0); }
    //@harness props=C17,C01 quickfor=C17 strength=bounded tier=thorough bound="ONE execution: runs of 1 and 2 elements, progress (1, 1) (the instances of this family enumerate every progress pair for these run lengths)" clause="merge step before a comparison: when one run is exhausted the rest of the other is copied in order to the positions that remain and the merge ends; otherwise the keys of the two run heads are requested for comparison (left head first operand) and the step after the comparison is scheduled" timeout=300 replay=sort_stable
    #[kani::proof]
    #[kani::unwind(9)]
    fn merge_pre_1_2_at_1_1() { merge_pre_at(1, 2, 1, 1); }
    //@harness props=C17,C01 quickfor=C17 strength=bounded tier=thorough bound="ONE execution: runs of 1 and 2 elements, progress (1, 2) (the instances of this family enumerate every progress pair for these run lengths)" clause="merge step before a comparison: when one run is exhausted the rest of the other is copied in order to the positions that remain and the merge ends; otherwise the keys of the two run heads are requested for comparison (left head first operand) and the step after the comparison is scheduled" timeout=300 replay=sort_stable
    #[kani::proof]
    #[kani::unwind(9)]
    fn merge_pre_1_2_at_1_2() { merge_pre_at(1, 2, 1, 2); }
    //@harness props=C17,C01 quickfor=C17 strength=bounded tier=thorough bound="ONE execution: runs of 2 and 1 elements, progress (0, 0) (the instances of this family enumerate every progress pair for these run lengths)" clause="merge step before a comparison: when one run is exhausted the rest of the other is copied in order to the positions that remain and the merge ends; otherwise the keys of the two run heads are requested for comparison (left head first operand) and the step after the comparison is scheduled" timeout=300 replay=sort_stable
    #[kani::proof]
    #[kani::unwind(9)]
    fn merge_pre_2_1_at_0_0() { merge_pre_at(2, 1, 0, 0); }
    //@harness props=C17,C01 quickfor=C17 strength=bounded tier=thorough bound="ONE execution: runs of 2 and 1 elements, progress (0, 1) (the instances of this family enumerate every progress pair for these run lengths)" clause="merge step before a comparison: when one run is exhausted the rest of the other is copied in order to the positions that remain and the merge ends; otherwise the keys of the two run heads are requested for comparison (left head first operand) and the step after the comparison is scheduled" timeout=300 replay=sort_stable
    #[kani::proof]
    #[kani::unwind(9)]
    fn merge_pre_2_1_at_0_1() { merge_pre_at(2, 1, 0, 1); }
    //@harness props=C17,C01 quickfor=C17 strength=bounded tier=thorough bound="ONE execution: runs of 2 and 1 elements, progress (1, 0) (the instances of this family enumerate every progress pair for these run lengths)" clause="merge step before a comparison: when one run is exhausted the rest of the other is copied in order to the positions that remain and the merge ends; otherwise the keys of the two run heads are requested for comparison (left head first operand) and the step after the comparison is scheduled" timeout=300 replay=sort_stable
    #[kani::proof]
    #[kani::unwind(9)]
    fn merge_pre_2_1_at_1_0() { merge_pre_at(2, 1, 1, 0); }
    //@harness props=C17,C01 quickfor=C17 strength=bounded tier=thorough bound="ONE execution: runs of 2 and 1 elements, progress (1, 1) (the instances of this family enumerate every progress pair for these run lengths)" clause="merge step before a comparison: when one run is exhausted the rest of the other is copied in order to the positions that remain and the merge ends; otherwise the keys of the two run heads are requested for comparison (left head first operand) and the step after the comparison is scheduled" timeout=300 replay=sort_stable
    #[kani::proof]
    #[kani::unwind(9)]
    fn merge_pre_2_1_at_1_1() { merge_pre_at(2, 1, 1, 1); }
    //@harness props=C17,C01 quickfor=C17 strength=bounded tier=thorough bound="ONE execution: runs of 2 and 1 elements, progress (2, 0) (the instances of this family enumerate every progress pair for these run lengths)" clause="merge step before a comparison: when one run is exhausted the rest of the other is copied in order to the positions that remain and the merge ends; otherwise the keys of the two run heads are requested for comparison (left head first operand) and the step after the comparison is scheduled" timeout=300 replay=sort_stable
    #[kani::proof]
    #[kani::unwind(9)]
    fn merge_pre_2_1_at_2_0() { merge_pre_at(2, 1, 2, 0); }
    //@harness props=C17,C01 quickfor=C17 strength=bounded tier=thorough bound="ONE execution: runs of 2 and 1 elements, progress (2, 1) (the instances of this family enumerate every progress pair for these run lengths)" clause="merge step before a comparison: when one run is exhausted the rest of the other is copied in order to the positions that remain and the merge ends; otherwise the keys of the two run heads are requested for comparison (left head first operand) and the step after the comparison is scheduled" timeout=300 replay=sort_stable
    #[kani::proof]
    #[kani::unwind(9)]
    fn merge_pre_2_1_at_2_1() { merge_pre_at(2, 1, 2, 1); }
    // @@GEN-END merge_pre

    /// which of the three two-pointer walks
    #[derive(Clone, Copy, PartialEq, Eq)] enum W { Inter, Union, Diff }
    fn two_pointer_at(which: W, na: usize, nb: usize, i: usize, j: usize, o: Ordering) {
        
        let (a, b) = (arr(1, na), arr(2, nb));
        let mut e = ev();
        e.cmp_ord_stack.push(o);
        e.array_stack.push(Vec::new());
        let keyf = Gc::new(FuncData(0, PhantomData)).view();
        let r = match which { W::Inter => e.do_std_set_inter_aux(keyf, a.view(), b.view(), i, j), W::Union => e.do_std_set_union_aux(keyf, a.view(), b.view(), i, j), W::Diff => e.do_std_set_diff_aux(keyf, a.view(), b.view(), i, j) };
        assert!(r.is_ok() && e.cmp_ord_stack.is_empty() && e.array_stack.len() == 1, "C17,C01:sortset:two-pointer-stack-effect");
        let out = &e.array_stack[0];
        // specification of one step on sets sorted by key: a[i] < b[j]: a[i] is only in A; equal: in both; greater: b[j] only in B
        let (ni, nj) = match o { Ordering::Less => (i + 1, j), Ordering::Equal => (i + 1, j + 1), Ordering::Greater => (i, j + 1) };
        let emit_a = match (which, o) { (W::Inter, Ordering::Equal) | (W::Union, Ordering::Less) | (W::Union, Ordering::Equal) | (W::Diff, Ordering::Less) => true, _ => false };
        let emit_b = which == W::Union && o == Ordering::Greater;
        let mut n = 0;
        if emit_a { assert!(out.len() >= 1 && is_item(&out[0], 1, i), "C17:sortset:element-of-a-is-emitted-exactly-in-its-cases"); n = 1; }
        if emit_b { assert!(out.len() >= 1 && is_item(&out[0], 2, j), "C17:sortset:element-of-b-is-emitted-exactly-in-its-cases"); n = 1; }
        let a_done = ni == na; let b_done = nj == nb;
        let finished = match which { W::Inter => a_done || b_done, _ => a_done || b_done };
        if finished {
            // tail: union keeps the rest of the unfinished side; diff keeps the rest of A; inter keeps nothing
            let (tail_src, tail_from, tail_n) = match which {
                W::Inter => (0u8, 0usize, 0usize),
                W::Union => if a_done { (2, nj, nb - nj) } else { (1, ni, na - ni) },
                W::Diff => if a_done { (0, 0, 0) } else { (1, ni, na - ni) },
            };
            assert!(out.len() == n + tail_n, "C17:sortset:result-is-step-output-plus-the-remaining-tail");
            let mut k = 0; while k < tail_n { assert!(is_item(&out[n + k], tail_src, tail_from + k), "C17:sortset:remaining-tail-is-appended-in-order"); k += 1; }
            assert!(e.state_stack.len() == 1 && matches!(e.state_stack[0], State::ArrayToValue), "C17:sortset:walk-ends-when-a-side-is-exhausted");
        } else {
            assert!(out.len() == n, "C17:sortset:nothing-else-is-emitted");
            assert!(e.state_stack.len() == 4, "C17:sortset:next-pair-is-compared-next");
            let cont = match (&e.state_stack[0], which) {
                (State::StdSetInterAux { i: x, j: y, .. }, W::Inter) | (State::StdSetUnionAux { i: x, j: y, .. }, W::Union) | (State::StdSetDiffAux { i: x, j: y, .. }, W::Diff) => *x == ni && *y == nj,
                _ => false };
            assert!(cont, "C17:sortset:pointers-advance-as-the-comparison-says");
            assert!(matches!(e.state_stack[1], State::CompareValue) && is_key_call(&e.state_stack[2], 2, nj) && is_key_call(&e.state_stack[3], 1, ni), "C17:sortset:keys-of-the-new-heads-are-compared-a-first");
        }
        core::mem::forget(e);
    }

    // @@GEN-BEGIN two_pointer
    //@harness props=C17,C01 quickfor=C17 strength=bounded bound="ONE execution: sets of 2 and 2 elements, positions (0, 0), comparison outcome less (the instances of this family enumerate every position and outcome for these sizes)" clause="setInter step: equal keys => the element of A is emitted and both sides advance; less => A advances; greater => B advances; the walk ends when either side is exhausted, else the keys of the new heads are compared next" timeout=300 replay=sort_stable
    #[kani::proof]
    #[kani::unwind(8)]
    fn set_inter_2_2_at_0_0_less() { two_pointer_at(W::Inter, 2, 2, 0, 0, ord_of(0)); }
    //@harness props=C17,C01 quickfor=C17 strength=bounded bound="ONE execution: sets of 2 and 2 elements, positions (0, 0), comparison outcome equal (the instances of this family enumerate every position and outcome for these sizes)" clause="setInter step: equal keys => the element of A is emitted and both sides advance; less => A advances; greater => B advances; the walk ends when either side is exhausted, else the keys of the new heads are compared next" timeout=300 replay=sort_stable
    #[kani::proof]
    #[kani::unwind(8)]
    fn set_inter_2_2_at_0_0_equal() { two_pointer_at(W::Inter, 2, 2, 0, 0, ord_of(1)); }
    //@harness props=C17,C01 quickfor=C17 strength=bounded bound="ONE execution: sets of 2 and 2 elements, positions (0, 0), comparison outcome greater (the instances of this family enumerate every position and outcome for these sizes)" clause="setInter step: equal keys => the element of A is emitted and both sides advance; less => A advances; greater => B advances; the walk ends when either side is exhausted, else the keys of the new heads are compared next" timeout=300 replay=sort_stable
    #[kani::proof]
    #[kani::unwind(8)]
    fn set_inter_2_2_at_0_0_greater() { two_pointer_at(W::Inter, 2, 2, 0, 0, ord_of(2)); }
    //@harness props=C17,C01 quickfor=C17 strength=bounded bound="ONE execution: sets of 2 and 2 elements, positions (0, 1), comparison outcome less (the instances of this family enumerate every position and outcome for these sizes)" clause="setInter step: equal keys => the element of A is emitted and both sides advance; less => A advances; greater => B advances; the walk ends when either side is exhausted, else the keys of the new heads are compared next" timeout=300 replay=sort_stable
    #[kani::proof]
    #[kani::unwind(8)]
    fn set_inter_2_2_at_0_1_less() { two_pointer_at(W::Inter, 2, 2, 0, 1, ord_of(0)); }
    //@harness props=C17,C01 quickfor=C17 strength=bounded bound="ONE execution: sets of 2 and 2 elements, positions (0, 1), comparison outcome equal (the instances of this family enumerate every position and outcome for these sizes)" clause="setInter step: equal keys => the element of A is emitted and both sides advance; less => A advances; greater => B advances; the walk ends when either side is exhausted, else the keys of the new heads are compared next" timeout=300 replay=sort_stable
    #[kani::proof]
    #[kani::unwind(8)]
    fn set_inter_2_2_at_0_1_equal() { two_pointer_at(W::Inter, 2, 2, 0, 1, ord_of(1)); }
    //@harness props=C17,C01 quickfor=C17 strength=bounded bound="ONE execution: sets of 2 and 2 elements, positions (0, 1), comparison outcome greater (the instances of this family enumerate every position and outcome for these sizes)" clause="setInter step: equal keys => the element of A is emitted and both sides advance; less => A advances; greater => B advances; the walk ends when either side is exhausted, else the keys of the new heads are compared next" timeout=300 replay=sort_stable
    #[kani::proof]
    #[kani::unwind(8)]
    fn set_inter_2_2_at_0_1_greater() { two_pointer_at(W::Inter, 2, 2, 0, 1, ord_of(2)); }
    //@harness props=C17,C01 quickfor=C17 strength=bounded bound="ONE execution: sets of 2 and 2 elements, positions (1, 0), comparison outcome less (the instances of this family enumerate every position and outcome for these sizes)" clause="setInter step: equal keys => the element of A is emitted and both sides advance; less => A advances; greater => B advances; the walk ends when either side is exhausted, else the keys of the new heads are compared next" timeout=300 replay=sort_stable
    #[kani::proof]
    #[kani::unwind(8)]
    fn set_inter_2_2_at_1_0_less() { two_pointer_at(W::Inter, 2, 2, 1, 0, ord_of(0)); }
    //@harness props=C17,C01 quickfor=C17 strength=bounded bound="ONE execution: sets of 2 and 2 elements, positions (1, 0), comparison outcome equal (the instances of this family enumerate every position and outcome for these sizes)" clause="setInter step: equal keys => the element of A is emitted and both sides advance; less => A advances; greater => B advances; the walk ends when either side is exhausted, else the keys of the new heads are compared next" timeout=300 replay=sort_stable
    #[kani::proof]
    #[kani::unwind(8)]
    fn set_inter_2_2_at_1_0_equal() { two_pointer_at(W::Inter, 2, 2, 1, 0, ord_of(1)); }
    //@harness props=C17,C01 quickfor=C17 strength=bounded bound="ONE execution: sets of 2 and 2 elements, positions (1, 0), comparison outcome greater (the instances of this family enumerate every position and outcome for these sizes)" clause="setInter step: equal keys => the element of A is emitted and both sides advance; less => A advances; greater => B advances; the walk ends when either side is exhausted, else the keys of the new heads are compared next" timeout=300 replay=sort_stable
    #[kani::proof]
    #[kani::unwind(8)]
    fn set_inter_2_2_at_1_0_greater() { two_pointer_at(W::Inter, 2, 2, 1, 0, ord_of(2)); }
    //@harness props=C17,C01 quickfor=C17 strength=bounded bound="ONE execution: sets of 2 and 2 elements, positions (1, 1), comparison outcome less (the instances of this family enumerate every position and outcome for these sizes)" clause="setInter step: equal keys => the element of A is emitted and both sides advance; less => A advances; greater => B advances; the walk ends when either side is exhausted, else the keys of the new heads are compared next" timeout=300 replay=sort_stable
    #[kani::proof]
    #[kani::unwind(8)]
    fn set_inter_2_2_at_1_1_less() { two_pointer_at(W::Inter, 2, 2, 1, 1, ord_of(0)); }
    //@harness props=C17,C01 quickfor=C17 strength=bounded bound="ONE execution: sets of 2 and 2 elements, positions (1, 1), comparison outcome equal (the instances of this family enumerate every position and outcome for these sizes)" clause="setInter step: equal keys => the element of A is emitted and both sides advance; less => A advances; greater => B advances; the walk ends when either side is exhausted, else the keys of the new heads are compared next" timeout=300 replay=sort_stable
    #[kani::proof]
    #[kani::unwind(8)]
    fn set_inter_2_2_at_1_1_equal() { two_pointer_at(W::Inter, 2, 2, 1, 1, ord_of(1)); }
    //@harness props=C17,C01 quickfor=C17 strength=bounded bound="ONE execution: sets of 2 and 2 elements, positions (1, 1), comparison outcome greater (the instances of this family enumerate every position and outcome for these sizes)" clause="setInter step: equal keys => the element of A is emitted and both sides advance; less => A advances; greater => B advances; the walk ends when either side is exhausted, else the keys of the new heads are compared next" timeout=300 replay=sort_stable
    #[kani::proof]
    #[kani::unwind(8)]
    fn set_inter_2_2_at_1_1_greater() { two_pointer_at(W::Inter, 2, 2, 1, 1, ord_of(2)); }
    //@harness props=C17,C01 quickfor=C17 strength=bounded tier=thorough bound="ONE execution: sets of 1 and 2 elements, positions (0, 0), comparison outcome less (the instances of this family enumerate every position and outcome for these sizes)" clause="setInter step: equal keys => the element of A is emitted and both sides advance; less => A advances; greater => B advances; the walk ends when either side is exhausted, else the keys of the new heads are compared next" timeout=300 replay=sort_stable
    #[kani::proof]
    #[kani::unwind(8)]
    fn set_inter_1_2_at_0_0_less() { two_pointer_at(W::Inter, 1, 2, 0, 0, ord_of(0)); }
    //@harness props=C17,C01 quickfor=C17 strength=bounded tier=thorough bound="ONE execution: sets of 1 and 2 elements, positions (0, 0), comparison outcome equal (the instances of this family enumerate every position and outcome for these sizes)" clause="setInter step: equal keys => the element of A is emitted and both sides advance; less => A advances; greater => B advances; the walk ends when either side is exhausted, else the keys of the new heads are compared next" timeout=300 replay=sort_stable
    #[kani::proof]
    #[kani::unwind(8)]
    fn set_inter_1_2_at_0_0_equal() { two_pointer_at(W::Inter, 1, 2, 0, 0, ord_of(1)); }
    //@harness props=C17,C01 quickfor=C17 strength=bounded tier=thorough bound="ONE execution: sets of 1 and 2 elements, positions (0, 0), comparison outcome greater (the instances of this family enumerate every position and outcome for these sizes)" clause="setInter step: equal keys => the element of A is emitted and both sides advance; less => A advances; greater => B advances; the walk ends when either side is exhausted, else the keys of the new heads are compared next" timeout=300 replay=sort_stable
    #[kani::proof]
    #[kani::unwind(8)]
    fn set_inter_1_2_at_0_0_greater() { two_pointer_at(W::Inter, 1, 2, 0, 0, ord_of(2)); }
    //@harness props=C17,C01 quickfor=C17 strength=bounded tier=thorough bound="ONE execution: sets of 1 and 2 elements, positions (0, 1), comparison outcome less (the instances of this family enumerate every position and outcome for these sizes)" clause="setInter step: equal keys => the element of A is emitted and both sides advance; less => A advances; greater => B advances; the walk ends when either side is exhausted, else the keys of the new heads are compared next" timeout=300 replay=sort_stable
    #[kani::proof]
    #[kani::unwind(8)]
    fn set_inter_1_2_at_0_1_less() { two_pointer_at(W::Inter, 1, 2, 0, 1, ord_of(0)); }
    //@harness props=C17,C01 quickfor=C17 strength=bounded tier=thorough bound="ONE execution: sets of 1 and 2 elements, positions (0, 1), comparison outcome equal (the instances of this family enumerate every position and outcome for these sizes)" clause="setInter step: equal keys => the element of A is emitted and both sides advance; less => A advances; greater => B advances; the walk ends when either side is exhausted, else the keys of the new heads are compared next" timeout=300 replay=sort_stable
    #[kani::proof]
    #[kani::unwind(8)]
    fn set_inter_1_2_at_0_1_equal() { two_pointer_at(W::Inter, 1, 2, 0, 1, ord_of(1)); }
    //@harness props=C17,C01 quickfor=C17 strength=bounded tier=thorough bound="ONE execution: sets of 1 and 2 elements, positions (0, 1), comparison outcome greater (the instances of this family enumerate every position and outcome for these sizes)" clause="setInter step: equal keys => the element of A is emitted and both sides advance; less => A advances; greater => B advances; the walk ends when either side is exhausted, else the keys of the new heads are compared next" timeout=300 replay=sort_stable
    #[kani::proof]
    #[kani::unwind(8)]
    fn set_inter_1_2_at_0_1_greater() { two_pointer_at(W::Inter, 1, 2, 0, 1, ord_of(2)); }
    //@harness props=C17,C01 quickfor=C17 strength=bounded tier=thorough bound="ONE execution: sets of 2 and 1 elements, positions (0, 0), comparison outcome less (the instances of this family enumerate every position and outcome for these sizes)" clause="setInter step: equal keys => the element of A is emitted and both sides advance; less => A advances; greater => B advances; the walk ends when either side is exhausted, else the keys of the new heads are compared next" timeout=300 replay=sort_stable
    #[kani::proof]
    #[kani::unwind(8)]
    fn set_inter_2_1_at_0_0_less() { two_pointer_at(W::Inter, 2, 1, 0, 0, ord_of(0)); }
    //@harness props=C17,C01 quickfor=C17 strength=bounded tier=thorough bound="ONE execution: sets of 2 and 1 elements, positions (0, 0), comparison outcome equal (the instances of this family enumerate every position and outcome for these sizes)" clause="setInter step: equal keys => the element of A is emitted and both sides advance; less => A advances; greater => B advances; the walk ends when either side is exhausted, else the keys of the new heads are compared next" timeout=300 replay=sort_stable
    #[kani::proof]
    #[kani::unwind(8)]
    fn set_inter_2_1_at_0_0_equal() { two_pointer_at(W::Inter, 2, 1, 0, 0, ord_of(1)); }
    //@harness props=C17,C01 quickfor=C17 strength=bounded tier=thorough bound="ONE execution: sets of 2 and 1 elements, positions (0, 0), comparison outcome greater (the instances of this family enumerate every position and outcome for these sizes)" clause="setInter step: equal keys => the element of A is emitted and both sides advance; less => A advances; greater => B advances; the walk ends when either side is exhausted, else the keys of the new heads are compared next" timeout=300 replay=sort_stable
    #[kani::proof]
    #[kani::unwind(8)]
    fn set_inter_2_1_at_0_0_greater() { two_pointer_at(W::Inter, 2, 1, 0, 0, ord_of(2)); }
    //@harness props=C17,C01 quickfor=C17 strength=bounded tier=thorough bound="ONE execution: sets of 2 and 1 elements, positions (1, 0), comparison outcome less (the instances of this family enumerate every position and outcome for these sizes)" clause="setInter step: equal keys => the element of A is emitted and both sides advance; less => A advances; greater => B advances; the walk ends when either side is exhausted, else the keys of the new heads are compared next" timeout=300 replay=sort_stable
    #[kani::proof]
    #[kani::unwind(8)]
    fn set_inter_2_1_at_1_0_less() { two_pointer_at(W::Inter, 2, 1, 1, 0, ord_of(0)); }
    //@harness props=C17,C01 quickfor=C17 strength=bounded tier=thorough bound="ONE execution: sets of 2 and 1 elements, positions (1, 0), comparison outcome equal (the instances of this family enumerate every position and outcome for these sizes)" clause="setInter step: equal keys => the element of A is emitted and both sides advance; less => A advances; greater => B advances; the walk ends when either side is exhausted, else the keys of the new heads are compared next" timeout=300 replay=sort_stable
    #[kani::proof]
    #[kani::unwind(8)]
    fn set_inter_2_1_at_1_0_equal() { two_pointer_at(W::Inter, 2, 1, 1, 0, ord_of(1)); }
    //@harness props=C17,C01 quickfor=C17 strength=bounded tier=thorough bound="ONE execution: sets of 2 and 1 elements, positions (1, 0), comparison outcome greater (the instances of this family enumerate every position and outcome for these sizes)" clause="setInter step: equal keys => the element of A is emitted and both sides advance; less => A advances; greater => B advances; the walk ends when either side is exhausted, else the keys of the new heads are compared next" timeout=300 replay=sort_stable
    #[kani::proof]
    #[kani::unwind(8)]
    fn set_inter_2_1_at_1_0_greater() { two_pointer_at(W::Inter, 2, 1, 1, 0, ord_of(2)); }
    //@harness props=C17,C01 quickfor=C17 strength=bounded tier=thorough bound="ONE execution: sets of 3 and 3 elements, positions (0, 0), comparison outcome less (the instances of this family enumerate every position and outcome for these sizes)" clause="setInter step: equal keys => the element of A is emitted and both sides advance; less => A advances; greater => B advances; the walk ends when either side is exhausted, else the keys of the new heads are compared next" timeout=300 replay=sort_stable
    #[kani::proof]
    #[kani::unwind(8)]
    fn set_inter_3_3_at_0_0_less() { two_pointer_at(W::Inter, 3, 3, 0, 0, ord_of(0)); }
    //@harness props=C17,C01 quickfor=C17 strength=bounded tier=thorough bound="ONE execution: sets of 3 and 3 elements, positions (0, 0), comparison outcome equal (the instances of this family enumerate every position and outcome for these sizes)" clause="setInter step: equal keys => the element of A is emitted and both sides advance; less => A advances; greater => B advances; the walk ends when either side is exhausted, else the keys of the new heads are compared next" timeout=300 replay=sort_stable
    #[kani::proof]
    #[kani::unwind(8)]
    fn set_inter_3_3_at_0_0_equal() { two_pointer_at(W::Inter, 3, 3, 0, 0, ord_of(1)); }
    //@harness props=C17,C01 quickfor=C17 strength=bounded tier=thorough bound="ONE execution: sets of 3 and 3 elements, positions (0, 0), comparison outcome greater (the instances of this family enumerate every position and outcome for these sizes)" clause="setInter step: equal keys => the element of A is emitted and both sides advance; less => A advances; greater => B advances; the walk ends when either side is exhausted, else the keys of the new heads are compared next" timeout=300 replay=sort_stable
    #[kani::proof]
    #[kani::unwind(8)]
    fn set_inter_3_3_at_0_0_greater() { two_pointer_at(W::Inter, 3, 3, 0, 0, ord_of(2)); }
    //@harness props=C17,C01 quickfor=C17 strength=bounded tier=thorough bound="ONE execution: sets of 3 and 3 elements, positions (0, 1), comparison outcome less (the instances of this family enumerate every position and outcome for these sizes)" clause="setInter step: equal keys => the element of A is emitted and both sides advance; less => A advances; greater => B advances; the walk ends when either side is exhausted, else the keys of the new heads are compared next" timeout=300 replay=sort_stable
    #[kani::proof]
    #[kani::unwind(8)]
    fn set_inter_3_3_at_0_1_less() { two_pointer_at(W::Inter, 3, 3, 0, 1, ord_of(0)); }
    //@harness props=C17,C01 quickfor=C17 strength=bounded tier=thorough bound="ONE execution: sets of 3 and 3 elements, positions (0, 1), comparison outcome equal (the instances of this family enumerate every position and outcome for these sizes)" clause="setInter step: equal keys => the element of A is emitted and both sides advance; less => A advances; greater => B advances; the walk ends when either side is exhausted, else the keys of the new heads are compared next" timeout=300 replay=sort_stable
    #[kani::proof]
    #[kani::unwind(8)]
    fn set_inter_3_3_at_0_1_equal() { two_pointer_at(W::Inter, 3, 3, 0, 1, ord_of(1)); }
    //@harness props=C17,C01 quickfor=C17 strength=bounded tier=thorough bound="ONE execution: sets of 3 and 3 elements, positions (0, 1), comparison outcome greater (the instances of this family enumerate every position and outcome for these sizes)" clause="setInter step: equal keys => the element of A is emitted and both sides advance; less => A advances; greater => B advances; the walk ends when either side is exhausted, else the keys of the new heads are compared next" timeout=300 replay=sort_stable
    #[kani::proof]
    #[kani::unwind(8)]
    fn set_inter_3_3_at_0_1_greater() { two_pointer_at(W::Inter, 3, 3, 0, 1, ord_of(2)); }
    //@harness props=C17,C01 quickfor=C17 strength=bounded tier=thorough bound="ONE execution: sets of 3 and 3 elements, positions (0, 2), comparison outcome less (the instances of this family enumerate every position and outcome for these sizes)" clause="setInter step: equal keys => the element of A is emitted and both sides advance; less => A advances; greater => B advances; the walk ends when either side is exhausted, else the keys of the new heads are compared next" timeout=300 replay=sort_stable
    #[kani::proof]
    #[kani::unwind(8)]
    fn set_inter_3_3_at_0_2_less() { two_pointer_at(W::Inter, 3, 3, 0, 2, ord_of(0)); }
    //@harness props=C17,C01 quickfor=C17 strength=bounded tier=thorough bound="ONE execution: sets of 3 and 3 elements, positions (0, 2), comparison outcome equal (the instances of this family enumerate every position and outcome for these sizes)" clause="setInter step: equal keys => the element of A is emitted and both sides advance; less => A advances; greater => B advances; the walk ends when either side is exhausted, else the keys of the new heads are compared next" timeout=300 replay=sort_stable
    #[kani::proof]
    #[kani::unwind(8)]
    fn set_inter_3_3_at_0_2_equal() { two_pointer_at(W::Inter, 3, 3, 0, 2, ord_of(1)); }
    //@harness props=C17,C01 quickfor=C17 strength=bounded tier=thorough bound="ONE execution: sets of 3 and 3 elements, positions (0, 2), comparison outcome greater (the instances of this family enumerate every position and outcome for these sizes)" clause="setInter step: equal keys => the element of A is emitted and both sides advance; less => A advances; greater => B advances; the walk ends when either side is exhausted, else the keys of the new heads are compared next" timeout=300 replay=sort_stable
    #[kani::proof]
    #[kani::unwind(8)]
    fn set_inter_3_3_at_0_2_greater() { two_pointer_at(W::Inter, 3, 3, 0, 2, ord_of(2)); }
    //@harness props=C17,C01 quickfor=C17 strength=bounded tier=thorough bound="ONE execution: sets of 3 and 3 elements, positions (1, 0), comparison outcome less (the instances of this family enumerate every position and outcome for these sizes)" clause="setInter step: equal keys => the element of A is emitted and both sides advance; less => A advances; greater => B advances; the walk ends when either side is exhausted, else the keys of the new heads are compared next" timeout=300 replay=sort_stable
    #[kani::proof]
    #[kani::unwind(8)]
    fn set_inter_3_3_at_1_0_less() { two_pointer_at(W::Inter, 3, 3, 1, 0, ord_of(0)); }
    //@harness props=C17,C01 quickfor=C17 strength=bounded tier=thorough bound="ONE execution: sets of 3 and 3 elements, positions (1, 0), comparison outcome equal (the instances of this family enumerate every position and outcome for these sizes)" clause="setInter step: equal keys => the element of A is emitted and both sides advance; less => A advances; greater => B advances; the walk ends when either side is exhausted, else the keys of the new heads are compared next" timeout=300 replay=sort_stable
    #[kani::proof]
    #[kani::unwind(8)]
    fn set_inter_3_3_at_1_0_equal() { two_pointer_at(W::Inter, 3, 3, 1, 0, ord_of(1)); }
    //@harness props=C17,C01 quickfor=C17 strength=bounded tier=thorough bound="ONE execution: sets of 3 and 3 elements, positions (1, 0), comparison outcome greater (the instances of this family enumerate every position and outcome for these sizes)" clause="setInter step: equal keys => the element of A is emitted and both sides advance; less => A advances; greater => B advances; the walk ends when either side is exhausted, else the keys of the new heads are compared next" timeout=300 replay=sort_stable
    #[kani::proof]
    #[kani::unwind(8)]
    fn set_inter_3_3_at_1_0_greater() { two_pointer_at(W::Inter, 3, 3, 1, 0, ord_of(2)); }
    //@harness props=C17,C01 quickfor=C17 strength=bounded tier=thorough bound="ONE execution: sets of 3 and 3 elements, positions (1, 1), comparison outcome less (the instances of this family enumerate every position and outcome for these sizes)" clause="setInter step: equal keys => the element of A is emitted and both sides advance; less => A advances; greater => B advances; the walk ends when either side is exhausted, else the keys of the new heads are compared next" timeout=300 replay=sort_stable
    #[kani::proof]
    #[kani::unwind(8)]
    fn set_inter_3_3_at_1_1_less() { two_pointer_at(W::Inter, 3, 3, 1, 1, ord_of(0)); }
    //@harness props=C17,C01 quickfor=C17 strength=bounded tier=thorough bound="ONE execution: sets of 3 and 3 elements, positions (1, 1), comparison outcome equal (the instances of this family enumerate every position and outcome for these sizes)" clause="setInter step: equal keys => the element of A is emitted and both sides advance; less => A advances; greater => B advances; the walk ends when either side is exhausted, else the keys of the new heads are compared next" timeout=300 replay=sort_stable
    #[kani::proof]
    #[kani::unwind(8)]
    fn set_inter_3_3_at_1_1_equal() { two_pointer_at(W::Inter, 3, 3, 1, 1, ord_of(1)); }
    //@harness props=C17,C01 quickfor=C17 strength=bounded tier=thorough bound="ONE execution: sets of 3 and 3 elements, positions (1, 1), comparison outcome greater (the instances of this family enumerate every position and outcome for these sizes)" clause="setInter step: equal keys => the element of A is emitted and both sides advance; less => A advances; greater => B advances; the walk ends when either side is exhausted, else the keys of the new heads are compared next" timeout=300 replay=sort_stable
    #[kani::proof]
    #[kani::unwind(8)]
    fn set_inter_3_3_at_1_1_greater() { two_pointer_at(W::Inter, 3, 3, 1, 1, ord_of(2)); }
    //@harness props=C17,C01 quickfor=C17 strength=bounded tier=thorough bound="ONE execution: sets of 3 and 3 elements, positions (1, 2), comparison outcome less (the instances of this family enumerate every position and outcome for these sizes)" clause="setInter step: equal keys => the element of A is emitted and both sides advance; less => A advances; greater => B advances; the walk ends when either side is exhausted, else the keys of the new heads are compared next" timeout=300 replay=sort_stable
    #[kani::proof]
    #[kani::unwind(8)]
    fn set_inter_3_3_at_1_2_less() { two_pointer_at(W::Inter, 3, 3, 1, 2, ord_of(0)); }
    //@harness props=C17,C01 quickfor=C17 strength=bounded tier=thorough bound="ONE execution: sets of 3 and 3 elements, positions (1, 2), comparison outcome equal (the instances of this family enumerate every position and outcome for these sizes)" clause="setInter step: equal keys => the element of A is emitted and both sides advance; less => A advances; greater => B advances; the walk ends when either side is exhausted, else the keys of the new heads are compared next" timeout=300 replay=sort_stable
    #[kani::proof]
    #[kani::unwind(8)]
    fn set_inter_3_3_at_1_2_equal() { two_pointer_at(W::Inter, 3, 3, 1, 2, ord_of(1)); }
    //@harness props=C17,C01 quickfor=C17 strength=bounded tier=thorough bound="ONE execution: sets of 3 and 3 elements, positions (1, 2), comparison outcome greater (the instances of this family enumerate every position and outcome for these sizes)" clause="setInter step: equal keys => the element of A is emitted and both sides advance; less => A advances; greater => B advances; the walk ends when either side is exhausted, else the keys of the new heads are compared next" timeout=300 replay=sort_stable
    #[kani::proof]
    #[kani::unwind(8)]
    fn set_inter_3_3_at_1_2_greater() { two_pointer_at(W::Inter, 3, 3, 1, 2, ord_of(2)); }
    //@harness props=C17,C01 quickfor=C17 strength=bounded tier=thorough bound="ONE execution: sets of 3 and 3 elements, positions (2, 0), comparison outcome less (the instances of this family enumerate every position and outcome for these sizes)" clause="setInter step: equal keys => the element of A is emitted and both sides advance; less => A advances; greater => B advances; the walk ends when either side is exhausted, else the keys of the new heads are compared next" timeout=300 replay=sort_stable
    #[kani::proof]
    #[kani::unwind(8)]
    fn set_inter_3_3_at_2_0_less() { two_pointer_at(W::Inter, 3, 3, 2, 0, ord_of(0)); }
    //@harness props=C17,C01 quickfor=C17 strength=bounded tier=thorough bound="ONE execution: sets of 3 and 3 elements, positions (2, 0), comparison outcome equal (the instances of this family enumerate every position and outcome for these sizes)" clause="setInter step: equal keys => the element of A is emitted and both sides advance; less => A advances; greater => B advances; the walk ends when either side is exhausted, else the keys of the new heads are compared next" timeout=300 replay=sort_stable
    #[kani::proof]
    #[kani::unwind(8)]
    fn set_inter_3_3_at_2_0_equal() { two_pointer_at(W::Inter, 3, 3, 2, 0, ord_of(1)); }
    //@harness props=C17,C01 quickfor=C17 strength=bounded tier=thorough bound="ONE execution: sets of 3 and 3 elements, positions (2, 0), comparison outcome greater (the instances of this family enumerate every position and outcome for these sizes)" clause="setInter step: equal keys => the element of A is emitted and both sides advance; less => A advances; greater => B advances; the walk ends when either side is exhausted, else the keys of the new heads are compared next" timeout=300 replay=sort_stable
    #[kani::proof]
    #[kani::unwind(8)]
    fn set_inter_3_3_at_2_0_greater() { two_pointer_at(W::Inter, 3, 3, 2, 0, ord_of(2)); }
    //@harness props=C17,C01 quickfor=C17 strength=bounded tier=thorough bound="ONE execution: sets of 3 and 3 elements, positions (2, 1), comparison outcome less (the instances of this family enumerate every position and outcome for these sizes)" clause="setInter step: equal keys => the element of A is emitted and both sides advance; less => A advances; greater => B advances; the walk ends when either side is exhausted, else the keys of the new heads are compared next" timeout=300 replay=sort_stable
    #[kani::proof]
    #[kani::unwind(8)]
    fn set_inter_3_3_at_2_1_less() { two_pointer_at(W::Inter, 3, 3, 2, 1, ord_of(0)); }
    //@harness props=C17,C01 quickfor=C17 strength=bounded tier=thorough bound="ONE execution: sets of 3 and 3 elements, positions (2, 1), comparison outcome equal (the instances of this family enumerate every position and outcome for these sizes)" clause="setInter step: equal keys => the element of A is emitted and both sides advance; less => A advances; greater => B advances; the walk ends when either side is exhausted, else the keys of the new heads are compared next" timeout=300 replay=sort_stable
    #[kani::proof]
    #[kani::unwind(8)]
    fn set_inter_3_3_at_2_1_equal() { two_pointer_at(W::Inter, 3, 3, 2, 1, ord_of(1)); }
    //@harness props=C17,C01 quickfor=C17 strength=bounded tier=thorough bound="ONE execution: sets of 3 and 3 elements, positions (2, 1), comparison outcome greater (the instances of this family enumerate every position and outcome for these sizes)" clause="setInter step: equal keys => the element of A is emitted and both sides advance; less => A advances; greater => B advances; the walk ends when either side is exhausted, else the keys of the new heads are compared next" timeout=300 replay=sort_stable
    #[kani::proof]
    #[kani::unwind(8)]
    fn set_inter_3_3_at_2_1_greater() { two_pointer_at(W::Inter, 3, 3, 2, 1, ord_of(2)); }
    //@harness props=C17,C01 quickfor=C17 strength=bounded tier=thorough bound="ONE execution: sets of 3 and 3 elements, positions (2, 2), comparison outcome less (the instances of this family enumerate every position and outcome for these sizes)" clause="setInter step: equal keys => the element of A is emitted and both sides advance; less => A advances; greater => B advances; the walk ends when either side is exhausted, else the keys of the new heads are compared next" timeout=300 replay=sort_stable
    #[kani::proof]
    #[kani::unwind(8)]
    fn set_inter_3_3_at_2_2_less() { two_pointer_at(W::Inter, 3, 3, 2, 2, ord_of(0)); }
    //@harness props=C17,C01 quickfor=C17 strength=bounded tier=thorough bound="ONE execution: sets of 3 and 3 elements, positions (2, 2), comparison outcome equal (the instances of this family enumerate every position and outcome for these sizes)" clause="setInter step: equal keys => the element of A is emitted and both sides advance; less => A advances; greater => B advances; the walk ends when either side is exhausted, else the keys of the new heads are compared next" timeout=300 replay=sort_stable
    #[kani::proof]
    #[kani::unwind(8)]
    fn set_inter_3_3_at_2_2_equal() { two_pointer_at(W::Inter, 3, 3, 2, 2, ord_of(1)); }
    //@harness props=C17,C01 quickfor=C17 strength=bounded tier=thorough bound="ONE execution: sets of 3 and 3 elements, positions (2, 2), comparison outcome greater (the instances of this family enumerate every position and outcome for these sizes)" clause="setInter step: equal keys => the element of A is emitted and both sides advance; less => A advances; greater => B advances; the walk ends when either side is exhausted, else the keys of the new heads are compared next" timeout=300 replay=sort_stable
    #[kani::proof]
    #[kani::unwind(8)]
    fn set_inter_3_3_at_2_2_greater() { two_pointer_at(W::Inter, 3, 3, 2, 2, ord_of(2)); }
    //@harness props=C17,C01 quickfor=C17 strength=bounded tier=thorough bound="ONE execution: sets of 1 and 1 elements, positions (0, 0), comparison outcome less (the instances of this family enumerate every position and outcome for these sizes)" clause="setInter step: equal keys => the element of A is emitted and both sides advance; less => A advances; greater => B advances; the walk ends when either side is exhausted, else the keys of the new heads are compared next" timeout=300 replay=sort_stable
    #[kani::proof]
    #[kani::unwind(8)]
    fn set_inter_1_1_at_0_0_less() { two_pointer_at(W::Inter, 1, 1, 0, 0, ord_of(0)); }
    //@harness props=C17,C01 quickfor=C17 strength=bounded tier=thorough bound="ONE execution: sets of 1 and 1 elements, positions (0, 0), comparison outcome equal (the instances of this family enumerate every position and outcome for these sizes)" clause="setInter step: equal keys => the element of A is emitted and both sides advance; less => A advances; greater => B advances; the walk ends when either side is exhausted, else the keys of the new heads are compared next" timeout=300 replay=sort_stable
    #[kani::proof]
    #[kani::unwind(8)]
    fn set_inter_1_1_at_0_0_equal() { two_pointer_at(W::Inter, 1, 1, 0, 0, ord_of(1)); }
    //@harness props=C17,C01 quickfor=C17 strength=bounded tier=thorough bound="ONE execution: sets of 1 and 1 elements, positions (0, 0), comparison outcome greater (the instances of this family enumerate every position and outcome for these sizes)" clause="setInter step: equal keys => the element of A is emitted and both sides advance; less => A advances; greater => B advances; the walk ends when either side is exhausted, else the keys of the new heads are compared next" timeout=300 replay=sort_stable
    #[kani::proof]
    #[kani::unwind(8)]
    fn set_inter_1_1_at_0_0_greater() { two_pointer_at(W::Inter, 1, 1, 0, 0, ord_of(2)); }
    //@harness props=C17,C01 quickfor=C17 strength=bounded tier=thorough bound="ONE execution: sets of 2 and 3 elements, positions (0, 0), comparison outcome less (the instances of this family enumerate every position and outcome for these sizes)" clause="setInter step: equal keys => the element of A is emitted and both sides advance; less => A advances; greater => B advances; the walk ends when either side is exhausted, else the keys of the new heads are compared next" timeout=300 replay=sort_stable
    #[kani::proof]
    #[kani::unwind(8)]
    fn set_inter_2_3_at_0_0_less() { two_pointer_at(W::Inter, 2, 3, 0, 0, ord_of(0)); }
    //@harness props=C17,C01 quickfor=C17 strength=bounded tier=thorough bound="ONE execution: sets of 2 and 3 elements, positions (0, 0), comparison outcome equal (the instances of this family enumerate every position and outcome for these sizes)" clause="setInter step: equal keys => the element of A is emitted and both sides advance; less => A advances; greater => B advances; the walk ends when either side is exhausted, else the keys of the new heads are compared next" timeout=300 replay=sort_stable
    #[kani::proof]
    #[kani::unwind(8)]
    fn set_inter_2_3_at_0_0_equal() { two_pointer_at(W::Inter, 2, 3, 0, 0, ord_of(1)); }
    //@harness props=C17,C01 quickfor=C17 strength=bounded tier=thorough bound="ONE execution: sets of 2 and 3 elements, positions (0, 0), comparison outcome greater (the instances of this family enumerate every position and outcome for these sizes)" clause="setInter step: equal keys => the element of A is emitted and both sides advance; less => A advances; greater => B advances; the walk ends when either side is exhausted, else the keys of the new heads are compared next" timeout=300 replay=sort_stable
    #[kani::proof]
    #[kani::unwind(8)]
    fn set_inter_2_3_at_0_0_greater() { two_pointer_at(W::Inter, 2, 3, 0, 0, ord_of(2)); }
    //@harness props=C17,C01 quickfor=C17 strength=bounded tier=thorough bound="ONE execution: sets of 2 and 3 elements, positions (0, 1), comparison outcome less (the instances of this family enumerate every position and outcome for these sizes)" clause="setInter step: equal keys => the element of A is emitted and both sides advance; less => A advances; greater => B advances; the walk ends when either side is exhausted, else the keys of the new heads are compared next" timeout=300 replay=sort_stable
    #[kani::proof]
    #[kani::unwind(8)]
    fn set_inter_2_3_at_0_1_less() { two_pointer_at(W::Inter, 2, 3, 0, 1, ord_of(0)); }
    //@harness props=C17,C01 quickfor=C17 strength=bounded tier=thorough bound="ONE execution: sets of 2 and 3 elements, positions (0, 1), comparison outcome equal (the instances of this family enumerate every position and outcome for these sizes)" clause="setInter step: equal keys => the element of A is emitted and both sides advance; less => A advances; greater => B advances; the walk ends when either side is exhausted, else the keys of the new heads are compared next" timeout=300 replay=sort_stable
    #[kani::proof]
    #[kani::unwind(8)]
    fn set_inter_2_3_at_0_1_equal() { two_pointer_at(W::Inter, 2, 3, 0, 1, ord_of(1)); }
    //@harness props=C17,C01 quickfor=C17 strength=bounded tier=thorough bound="ONE execution: sets of 2 and 3 elements, positions (0, 1), comparison outcome greater (the instances of this family enumerate every position and outcome for these sizes)" clause="setInter step: equal keys => the element of A is emitted and both sides advance; less => A advances; greater => B advances; the walk ends when either side is exhausted, else the keys of the new heads are compared next" timeout=300 replay=sort_stable
    #[kani::proof]
    #[kani::unwind(8)]
    fn set_inter_2_3_at_0_1_greater() { two_pointer_at(W::Inter, 2, 3, 0, 1, ord_of(2)); }
    //@harness props=C17,C01 quickfor=C17 strength=bounded tier=thorough bound="ONE execution: sets of 2 and 3 elements, positions (0, 2), comparison outcome less (the instances of this family enumerate every position and outcome for these sizes)" clause="setInter step: equal keys => the element of A is emitted and both sides advance; less => A advances; greater => B advances; the walk ends when either side is exhausted, else the keys of the new heads are compared next" timeout=300 replay=sort_stable
    #[kani::proof]
    #[kani::unwind(8)]
    fn set_inter_2_3_at_0_2_less() { two_pointer_at(W::Inter, 2, 3, 0, 2, ord_of(0)); }
    //@harness props=C17,C01 quickfor=C17 strength=bounded tier=thorough bound="ONE execution: sets of 2 and 3 elements, positions (0, 2), comparison outcome equal (the instances of this family enumerate every position and outcome for these sizes)" clause="setInter step: equal keys => the element of A is emitted and both sides advance; less => A advances; greater => B advances; the walk ends when either side is exhausted, else the keys of the new heads are compared next" timeout=300 replay=sort_stable
    #[kani::proof]
    #[kani::unwind(8)]
    fn set_inter_2_3_at_0_2_equal() { two_pointer_at(W::Inter, 2, 3, 0, 2, ord_of(1)); }
    //@harness props=C17,C01 quickfor=C17 strength=bounded tier=thorough bound="ONE execution: sets of 2 and 3 elements, positions (0, 2), comparison outcome greater (the instances of this family enumerate every position and outcome for these sizes)" clause="setInter step: equal keys => the element of A is emitted and both sides advance; less => A advances; greater => B advances; the walk ends when either side is exhausted, else the keys of the new heads are compared next" timeout=300 replay=sort_stable
    #[kani::proof]
    #[kani::unwind(8)]
    fn set_inter_2_3_at_0_2_greater() { two_pointer_at(W::Inter, 2, 3, 0, 2, ord_of(2)); }
    //@harness props=C17,C01 quickfor=C17 strength=bounded tier=thorough bound="ONE execution: sets of 2 and 3 elements, positions (1, 0), comparison outcome less (the instances of this family enumerate every position and outcome for these sizes)" clause="setInter step: equal keys => the element of A is emitted and both sides advance; less => A advances; greater => B advances; the walk ends when either side is exhausted, else the keys of the new heads are compared next" timeout=300 replay=sort_stable
    #[kani::proof]
    #[kani::unwind(8)]
    fn set_inter_2_3_at_1_0_less() { two_pointer_at(W::Inter, 2, 3, 1, 0, ord_of(0)); }
    //@harness props=C17,C01 quickfor=C17 strength=bounded tier=thorough bound="ONE execution: sets of 2 and 3 elements, positions (1, 0), comparison outcome equal (the instances of this family enumerate every position and outcome for these sizes)" clause="setInter step: equal keys => the element of A is emitted and both sides advance; less => A advances; greater => B advances; the walk ends when either side is exhausted, else the keys of the new heads are compared next" timeout=300 replay=sort_stable
    #[kani::proof]
    #[kani::unwind(8)]
    fn set_inter_2_3_at_1_0_equal() { two_pointer_at(W::Inter, 2, 3, 1, 0, ord_of(1)); }
    //@harness props=C17,C01 quickfor=C17 strength=bounded tier=thorough bound="ONE execution: sets of 2 and 3 elements, positions (1, 0), comparison outcome greater (the instances of this family enumerate every position and outcome for these sizes)" clause="setInter step: equal keys => the element of A is emitted and both sides advance; less => A advances; greater => B advances; the walk ends when either side is exhausted, else the keys of the new heads are compared next" timeout=300 replay=sort_stable
    #[kani::proof]
    #[kani::unwind(8)]
    fn set_inter_2_3_at_1_0_greater() { two_pointer_at(W::Inter, 2, 3, 1, 0, ord_of(2)); }
    //@harness props=C17,C01 quickfor=C17 strength=bounded tier=thorough bound="ONE execution: sets of 2 and 3 elements, positions (1, 1), comparison outcome less (the instances of this family enumerate every position and outcome for these sizes)" clause="setInter step: equal keys => the element of A is emitted and both sides advance; less => A advances; greater => B advances; the walk ends when either side is exhausted, else the keys of the new heads are compared next" timeout=300 replay=sort_stable
    #[kani::proof]
    #[kani::unwind(8)]
    fn set_inter_2_3_at_1_1_less() { two_pointer_at(W::Inter, 2, 3, 1, 1, ord_of(0)); }
    //@harness props=C17,C01 quickfor=C17 strength=bounded tier=thorough bound="ONE execution: sets of 2 and 3 elements, positions (1, 1), comparison outcome equal (the instances of this family enumerate every position and outcome for these sizes)" clause="setInter step: equal keys => the element of A is emitted and both sides advance; less => A advances; greater => B advances; the walk ends when either side is exhausted, else the keys of the new heads are compared next" timeout=300 replay=sort_stable
    #[kani::proof]
    #[kani::unwind(8)]
    fn set_inter_2_3_at_1_1_equal() { two_pointer_at(W::Inter, 2, 3, 1, 1, ord_of(1)); }
    //@harness props=C17,C01 quickfor=C17 strength=bounded tier=thorough bound="ONE execution: sets of 2 and 3 elements, positions (1, 1), comparison outcome greater (the instances of this family enumerate every position and outcome for these sizes)" clause="setInter step: equal keys => the element of A is emitted and both sides advance; less => A advances; greater => B advances; the walk ends when either side is exhausted, else the keys of the new heads are compared next" timeout=300 replay=sort_stable
    #[kani::proof]
    #[kani::unwind(8)]
    fn set_inter_2_3_at_1_1_greater() { two_pointer_at(W::Inter, 2, 3, 1, 1, ord_of(2)); }
    //@harness props=C17,C01 quickfor=C17 strength=bounded tier=thorough bound="ONE execution: sets of 2 and 3 elements, positions (1, 2), comparison outcome less (the instances of this family enumerate every position and outcome for these sizes)" clause="setInter step: equal keys => the element of A is emitted and both sides advance; less => A advances; greater => B advances; the walk ends when either side is exhausted, else the keys of the new heads are compared next" timeout=300 replay=sort_stable
    #[kani::proof]
    #[kani::unwind(8)]
    fn set_inter_2_3_at_1_2_less() { two_pointer_at(W::Inter, 2, 3, 1, 2, ord_of(0)); }
    //@harness props=C17,C01 quickfor=C17 strength=bounded tier=thorough bound="ONE execution: sets of 2 and 3 elements, positions (1, 2), comparison outcome equal (the instances of this family enumerate every position and outcome for these sizes)" clause="setInter step: equal keys => the element of A is emitted and both sides advance; less => A advances; greater => B advances; the walk ends when either side is exhausted, else the keys of the new heads are compared next" timeout=300 replay=sort_stable
    #[kani::proof]
    #[kani::unwind(8)]
    fn set_inter_2_3_at_1_2_equal() { two_pointer_at(W::Inter, 2, 3, 1, 2, ord_of(1)); }
    //@harness props=C17,C01 quickfor=C17 strength=bounded tier=thorough bound="ONE execution: sets of 2 and 3 elements, positions (1, 2), comparison outcome greater (the instances of this family enumerate every position and outcome for these sizes)" clause="setInter step: equal keys => the element of A is emitted and both sides advance; less => A advances; greater => B advances; the walk ends when either side is exhausted, else the keys of the new heads are compared next" timeout=300 replay=sort_stable
    #[kani::proof]
    #[kani::unwind(8)]
    fn set_inter_2_3_at_1_2_greater() { two_pointer_at(W::Inter, 2, 3, 1, 2, ord_of(2)); }
    //@harness props=C17,C01 quickfor=C17 strength=bounded tier=thorough bound="ONE execution: sets of 3 and 2 elements, positions (0, 0), comparison outcome less (the instances of this family enumerate every position and outcome for these sizes)" clause="setInter step: equal keys => the element of A is emitted and both sides advance; less => A advances; greater => B advances; the walk ends when either side is exhausted, else the keys of the new heads are compared next" timeout=300 replay=sort_stable
    #[kani::proof]
    #[kani::unwind(8)]
    fn set_inter_3_2_at_0_0_less() { two_pointer_at(W::Inter, 3, 2, 0, 0, ord_of(0)); }
    //@harness props=C17,C01 quickfor=C17 strength=bounded tier=thorough bound="ONE execution: sets of 3 and 2 elements, positions (0, 0), comparison outcome equal (the instances of this family enumerate every position and outcome for these sizes)" clause="setInter step: equal keys => the element of A is emitted and both sides advance; less => A advances; greater => B advances; the walk ends when either side is exhausted, else the keys of the new heads are compared next" timeout=300 replay=sort_stable
    #[kani::proof]
    #[kani::unwind(8)]
    fn set_inter_3_2_at_0_0_equal() { two_pointer_at(W::Inter, 3, 2, 0, 0, ord_of(1)); }
    //@harness props=C17,C01 quickfor=C17 strength=bounded tier=thorough bound="ONE execution: sets of 3 and 2 elements, positions (0, 0), comparison outcome greater (the instances of this family enumerate every position and outcome for these sizes)" clause="setInter step: equal keys => the element of A is emitted and both sides advance; less => A advances; greater => B advances; the walk ends when either side is exhausted, else the keys of the new heads are compared next" timeout=300 replay=sort_stable
    #[kani::proof]
    #[kani::unwind(8)]
    fn set_inter_3_2_at_0_0_greater() { two_pointer_at(W::Inter, 3, 2, 0, 0, ord_of(2)); }
    //@harness props=C17,C01 quickfor=C17 strength=bounded tier=thorough bound="ONE execution: sets of 3 and 2 elements, positions (0, 1), comparison outcome less (the instances of this family enumerate every position and outcome for these sizes)" clause="setInter step: equal keys => the element of A is emitted and both sides advance; less => A advances; greater => B advances; the walk ends when either side is exhausted, else the keys of the new heads are compared next" timeout=300 replay=sort_stable
    #[kani::proof]
    #[kani::unwind(8)]
    fn set_inter_3_2_at_0_1_less() { two_pointer_at(W::Inter, 3, 2, 0, 1, ord_of(0)); }
    //@harness props=C17,C01 quickfor=C17 strength=bounded tier=thorough bound="ONE execution: sets of 3 and 2 elements, positions (0, 1), comparison outcome equal (the instances of this family enumerate every position and outcome for these sizes)" clause="setInter step: equal keys => the element of A is emitted and both sides advance; less => A advances; greater => B advances; the walk ends when either side is exhausted, else the keys of the new heads are compared next" timeout=300 replay=sort_stable
    #[kani::proof]
    #[kani::unwind(8)]
    fn set_inter_3_2_at_0_1_equal() { two_pointer_at(W::Inter, 3, 2, 0, 1, ord_of(1)); }
    //@harness props=C17,C01 quickfor=C17 strength=bounded tier=thorough bound="ONE execution: sets of 3 and 2 elements, positions (0, 1), comparison outcome greater (the instances of this family enumerate every position and outcome for these sizes)" clause="setInter step: equal keys => the element of A is emitted and both sides advance; less => A advances; greater => B advances; the walk ends when either side is exhausted, else the keys of the new heads are compared next" timeout=300 replay=sort_stable
    #[kani::proof]
    #[kani::unwind(8)]
    fn set_inter_3_2_at_0_1_greater() { two_pointer_at(W::Inter, 3, 2, 0, 1, ord_of(2)); }
    //@harness props=C17,C01 quickfor=C17 strength=bounded tier=thorough bound="ONE execution: sets of 3 and 2 elements, positions (1, 0), comparison outcome less (the instances of this family enumerate every position and outcome for these sizes)" clause="setInter step: equal keys => the element of A is emitted and both sides advance; less => A advances; greater => B advances; the walk ends when either side is exhausted, else the keys of the new heads are compared next" timeout=300 replay=sort_stable
    #[kani::proof]
    #[kani::unwind(8)]
    fn set_inter_3_2_at_1_0_less() { two_pointer_at(W::Inter, 3, 2, 1, 0, ord_of(0)); }
    //@harness props=C17,C01 quickfor=C17 strength=bounded tier=thorough bound="ONE execution: sets of 3 and 2 elements, positions (1, 0), comparison outcome equal (the instances of this family enumerate every position and outcome for these sizes)" clause="setInter step: equal keys => the element of A is emitted and both sides advance; less => A advances; greater => B advances; the walk ends when either side is exhausted, else the keys of the new heads are compared next" timeout=300 replay=sort_stable
    #[kani::proof]
    #[kani::unwind(8)]
    fn set_inter_3_2_at_1_0_equal() { two_pointer_at(W::Inter, 3, 2, 1, 0, ord_of(1)); }
    //@harness props=C17,C01 quickfor=C17 strength=bounded tier=thorough bound="ONE execution: sets of 3 and 2 elements, positions (1, 0), comparison outcome greater (the instances of this family enumerate every position and outcome for these sizes)" clause="setInter step: equal keys => the element of A is emitted and both sides advance; less => A advances; greater => B advances; the walk ends when either side is exhausted, else the keys of the new heads are compared next" timeout=300 replay=sort_stable
    #[kani::proof]
    #[kani::unwind(8)]
    fn set_inter_3_2_at_1_0_greater() { two_pointer_at(W::Inter, 3, 2, 1, 0, ord_of(2)); }
    //@harness props=C17,C01 quickfor=C17 strength=bounded tier=thorough bound="ONE execution: sets of 3 and 2 elements, positions (1, 1), comparison outcome less (the instances of this family enumerate every position and outcome for these sizes)" clause="setInter step: equal keys => the element of A is emitted and both sides advance; less => A advances; greater => B advances; the walk ends when either side is exhausted, else the keys of the new heads are compared next" timeout=300 replay=sort_stable
    #[kani::proof]
    #[kani::unwind(8)]
    fn set_inter_3_2_at_1_1_less() { two_pointer_at(W::Inter, 3, 2, 1, 1, ord_of(0)); }
    //@harness props=C17,C01 quickfor=C17 strength=bounded tier=thorough bound="ONE execution: sets of 3 and 2 elements, positions (1, 1), comparison outcome equal (the instances of this family enumerate every position and outcome for these sizes)" clause="setInter step: equal keys => the element of A is emitted and both sides advance; less => A advances; greater => B advances; the walk ends when either side is exhausted, else the keys of the new heads are compared next" timeout=300 replay=sort_stable
    #[kani::proof]
    #[kani::unwind(8)]
    fn set_inter_3_2_at_1_1_equal() { two_pointer_at(W::Inter, 3, 2, 1, 1, ord_of(1)); }
    //@harness props=C17,C01 quickfor=C17 strength=bounded tier=thorough bound="ONE execution: sets of 3 and 2 elements, positions (1, 1), comparison outcome greater (the instances of this family enumerate every position and outcome for these sizes)" clause="setInter step: equal keys => the element of A is emitted and both sides advance; less => A advances; greater => B advances; the walk ends when either side is exhausted, else the keys of the new heads are compared next" timeout=300 replay=sort_stable
    #[kani::proof]
    #[kani::unwind(8)]
    fn set_inter_3_2_at_1_1_greater() { two_pointer_at(W::Inter, 3, 2, 1, 1, ord_of(2)); }
    //@harness props=C17,C01 quickfor=C17 strength=bounded tier=thorough bound="ONE execution: sets of 3 and 2 elements, positions (2, 0), comparison outcome less (the instances of this family enumerate every position and outcome for these sizes)" clause="setInter step: equal keys => the element of A is emitted and both sides advance; less => A advances; greater => B advances; the walk ends when either side is exhausted, else the keys of the new heads are compared next" timeout=300 replay=sort_stable
    #[kani::proof]
    #[kani::unwind(8)]
    fn set_inter_3_2_at_2_0_less() { two_pointer_at(W::Inter, 3, 2, 2, 0, ord_of(0)); }
    //@harness props=C17,C01 quickfor=C17 strength=bounded tier=thorough bound="ONE execution: sets of 3 and 2 elements, positions (2, 0), comparison outcome equal (the instances of this family enumerate every position and outcome for these sizes)" clause="setInter step: equal keys => the element of A is emitted and both sides advance; less => A advances; greater => B advances; the walk ends when either side is exhausted, else the keys of the new heads are compared next" timeout=300 replay=sort_stable
    #[kani::proof]
    #[kani::unwind(8)]
    fn set_inter_3_2_at_2_0_equal() { two_pointer_at(W::Inter, 3, 2, 2, 0, ord_of(1)); }
    //@harness props=C17,C01 quickfor=C17 strength=bounded tier=thorough bound="ONE execution: sets of 3 and 2 elements, positions (2, 0), comparison outcome greater (the instances of this family enumerate every position and outcome for these sizes)" clause="setInter step: equal keys => the element of A is emitted and both sides advance; less => A advances; greater => B advances; the walk ends when either side is exhausted, else the keys of the new heads are compared next" timeout=300 replay=sort_stable
    #[kani::proof]
    #[kani::unwind(8)]
    fn set_inter_3_2_at_2_0_greater() { two_pointer_at(W::Inter, 3, 2, 2, 0, ord_of(2)); }
    //@harness props=C17,C01 quickfor=C17 strength=bounded tier=thorough bound="ONE execution: sets of 3 and 2 elements, positions (2, 1), comparison outcome less (the instances of this family enumerate every position and outcome for these sizes)" clause="setInter step: equal keys => the element of A is emitted and both sides advance; less => A advances; greater => B advances; the walk ends when either side is exhausted, else the keys of the new heads are compared next" timeout=300 replay=sort_stable
    #[kani::proof]
    #[kani::unwind(8)]
    fn set_inter_3_2_at_2_1_less() { two_pointer_at(W::Inter, 3, 2, 2, 1, ord_of(0)); }
    //@harness props=C17,C01 quickfor=C17 strength=bounded tier=thorough bound="ONE execution: sets of 3 and 2 elements, positions (2, 1), comparison outcome equal (the instances of this family enumerate every position and outcome for these sizes)" clause="setInter step: equal keys => the element of A is emitted and both sides advance; less => A advances; greater => B advances; the walk ends when either side is exhausted, else the keys of the new heads are compared next" timeout=300 replay=sort_stable
    #[kani::proof]
    #[kani::unwind(8)]
    fn set_inter_3_2_at_2_1_equal() { two_pointer_at(W::Inter, 3, 2, 2, 1, ord_of(1)); }
    //@harness props=C17,C01 quickfor=C17 strength=bounded tier=thorough bound="ONE execution: sets of 3 and 2 elements, positions (2, 1), comparison outcome greater (the instances of this family enumerate every position and outcome for these sizes)" clause="setInter step: equal keys => the element of A is emitted and both sides advance; less => A advances; greater => B advances; the walk ends when either side is exhausted, else the keys of the new heads are compared next" timeout=300 replay=sort_stable
    #[kani::proof]
    #[kani::unwind(8)]
    fn set_inter_3_2_at_2_1_greater() { two_pointer_at(W::Inter, 3, 2, 2, 1, ord_of(2)); }
    //@harness props=C17,C01 quickfor=C17 strength=bounded tier=thorough bound="ONE execution: sets of 1 and 3 elements, positions (0, 0), comparison outcome less (the instances of this family enumerate every position and outcome for these sizes)" clause="setInter step: equal keys => the element of A is emitted and both sides advance; less => A advances; greater => B advances; the walk ends when either side is exhausted, else the keys of the new heads are compared next" timeout=300 replay=sort_stable
    #[kani::proof]
    #[kani::unwind(8)]
    fn set_inter_1_3_at_0_0_less() { two_pointer_at(W::Inter, 1, 3, 0, 0, ord_of(0)); }
    //@harness props=C17,C01 quickfor=C17 strength=bounded tier=thorough bound="ONE execution: sets of 1 and 3 elements, positions (0, 0), comparison outcome equal (the instances of this family enumerate every position and outcome for these sizes)" clause="setInter step: equal keys => the element of A is emitted and both sides advance; less => A advances; greater => B advances; the walk ends when either side is exhausted, else the keys of the new heads are compared next" timeout=300 replay=sort_stable
    #[kani::proof]
    #[kani::unwind(8)]
    fn set_inter_1_3_at_0_0_equal() { two_pointer_at(W::Inter, 1, 3, 0, 0, ord_of(1)); }
    //@harness props=C17,C01 quickfor=C17 strength=bounded tier=thorough bound="ONE execution: sets of 1 and 3 elements, positions (0, 0), comparison outcome greater (the instances of this family enumerate every position and outcome for these sizes)" clause="setInter step: equal keys => the element of A is emitted and both sides advance; less => A advances; greater => B advances; the walk ends when either side is exhausted, else the keys of the new heads are compared next" timeout=300 replay=sort_stable
    #[kani::proof]
    #[kani::unwind(8)]
    fn set_inter_1_3_at_0_0_greater() { two_pointer_at(W::Inter, 1, 3, 0, 0, ord_of(2)); }
    //@harness props=C17,C01 quickfor=C17 strength=bounded tier=thorough bound="ONE execution: sets of 1 and 3 elements, positions (0, 1), comparison outcome less (the instances of this family enumerate every position and outcome for these sizes)" clause="setInter step: equal keys => the element of A is emitted and both sides advance; less => A advances; greater => B advances; the walk ends when either side is exhausted, else the keys of the new heads are compared next" timeout=300 replay=sort_stable
    #[kani::proof]
    #[kani::unwind(8)]
    fn set_inter_1_3_at_0_1_less() { two_pointer_at(W::Inter, 1, 3, 0, 1, ord_of(0)); }
    //@harness props=C17,C01 quickfor=C17 strength=bounded tier=thorough bound="ONE execution: sets of 1 and 3 elements, positions (0, 1), comparison outcome equal (the instances of this family enumerate every position and outcome for these sizes)" clause="setInter step: equal keys => the element of A is emitted and both sides advance; less => A advances; greater => B advances; the walk ends when either side is exhausted, else the keys of the new heads are compared next" timeout=300 replay=sort_stable
    #[kani::proof]
    #[kani::unwind(8)]
    fn set_inter_1_3_at_0_1_equal() { two_pointer_at(W::Inter, 1, 3, 0, 1, ord_of(1)); }
    //@harness props=C17,C01 quickfor=C17 strength=bounded tier=thorough bound="ONE execution: sets of 1 and 3 elements, positions (0, 1), comparison outcome greater (the instances of this family enumerate every position and outcome for these sizes)" clause="setInter step: equal keys => the element of A is emitted and both sides advance; less => A advances; greater => B advances; the walk ends when either side is exhausted, else the keys of the new heads are compared next" timeout=300 replay=sort_stable
    #[kani::proof]
    #[kani::unwind(8)]
    fn set_inter_1_3_at_0_1_greater() { two_pointer_at(W::Inter, 1, 3, 0, 1, ord_of(2)); }
    //@harness props=C17,C01 quickfor=C17 strength=bounded tier=thorough bound="ONE execution: sets of 1 and 3 elements, positions (0, 2), comparison outcome less (the instances of this family enumerate every position and outcome for these sizes)" clause="setInter step: equal keys => the element of A is emitted and both sides advance; less => A advances; greater => B advances; the walk ends when either side is exhausted, else the keys of the new heads are compared next" timeout=300 replay=sort_stable
    #[kani::proof]
    #[kani::unwind(8)]
    fn set_inter_1_3_at_0_2_less() { two_pointer_at(W::Inter, 1, 3, 0, 2, ord_of(0)); }
    //@harness props=C17,C01 quickfor=C17 strength=bounded tier=thorough bound="ONE execution: sets of 1 and 3 elements, positions (0, 2), comparison outcome equal (the instances of this family enumerate every position and outcome for these sizes)" clause="setInter step: equal keys => the element of A is emitted and both sides advance; less => A advances; greater => B advances; the walk ends when either side is exhausted, else the keys of the new heads are compared next" timeout=300 replay=sort_stable
    #[kani::proof]
    #[kani::unwind(8)]
    fn set_inter_1_3_at_0_2_equal() { two_pointer_at(W::Inter, 1, 3, 0, 2, ord_of(1)); }
    //@harness props=C17,C01 quickfor=C17 strength=bounded tier=thorough bound="ONE execution: sets of 1 and 3 elements, positions (0, 2), comparison outcome greater (the instances of this family enumerate every position and outcome for these sizes)" clause="setInter step: equal keys => the element of A is emitted and both sides advance; less => A advances; greater => B advances; the walk ends when either side is exhausted, else the keys of the new heads are compared next" timeout=300 replay=sort_stable
    #[kani::proof]
    #[kani::unwind(8)]
    fn set_inter_1_3_at_0_2_greater() { two_pointer_at(W::Inter, 1, 3, 0, 2, ord_of(2)); }
    //@harness props=C17,C01 quickfor=C17 strength=bounded tier=thorough bound="ONE execution: sets of 3 and 1 elements, positions (0, 0), comparison outcome less (the instances of this family enumerate every position and outcome for these sizes)" clause="setInter step: equal keys => the element of A is emitted and both sides advance; less => A advances; greater => B advances; the walk ends when either side is exhausted, else the keys of the new heads are compared next" timeout=300 replay=sort_stable
    #[kani::proof]
    #[kani::unwind(8)]
    fn set_inter_3_1_at_0_0_less() { two_pointer_at(W::Inter, 3, 1, 0, 0, ord_of(0)); }
    //@harness props=C17,C01 quickfor=C17 strength=bounded tier=thorough bound="ONE execution: sets of 3 and 1 elements, positions (0, 0), comparison outcome equal (the instances of this family enumerate every position and outcome for these sizes)" clause="setInter step: equal keys => the element of A is emitted and both sides advance; less => A advances; greater => B advances; the walk ends when either side is exhausted, else the keys of the new heads are compared next" timeout=300 replay=sort_stable
    #[kani::proof]
    #[kani::unwind(8)]
    fn set_inter_3_1_at_0_0_equal() { two_pointer_at(W::Inter, 3, 1, 0, 0, ord_of(1)); }
    //@harness props=C17,C01 quickfor=C17 strength=bounded tier=thorough bound="ONE execution: sets of 3 and 1 elements, positions (0, 0), comparison outcome greater (the instances of this family enumerate every position and outcome for these sizes)" clause="setInter step: equal keys => the element of A is emitted and both sides advance; less => A advances; greater => B advances; the walk ends when either side is exhausted, else the keys of the new heads are compared next" timeout=300 replay=sort_stable
    #[kani::proof]
    #[kani::unwind(8)]
    fn set_inter_3_1_at_0_0_greater() { two_pointer_at(W::Inter, 3, 1, 0, 0, ord_of(2)); }
    //@harness props=C17,C01 quickfor=C17 strength=bounded tier=thorough bound="ONE execution: sets of 3 and 1 elements, positions (1, 0), comparison outcome less (the instances of this family enumerate every position and outcome for these sizes)" clause="setInter step: equal keys => the element of A is emitted and both sides advance; less => A advances; greater => B advances; the walk ends when either side is exhausted, else the keys of the new heads are compared next" timeout=300 replay=sort_stable
    #[kani::proof]
    #[kani::unwind(8)]
    fn set_inter_3_1_at_1_0_less() { two_pointer_at(W::Inter, 3, 1, 1, 0, ord_of(0)); }
    //@harness props=C17,C01 quickfor=C17 strength=bounded tier=thorough bound="ONE execution: sets of 3 and 1 elements, positions (1, 0), comparison outcome equal (the instances of this family enumerate every position and outcome for these sizes)" clause="setInter step: equal keys => the element of A is emitted and both sides advance; less => A advances; greater => B advances; the walk ends when either side is exhausted, else the keys of the new heads are compared next" timeout=300 replay=sort_stable
    #[kani::proof]
    #[kani::unwind(8)]
    fn set_inter_3_1_at_1_0_equal() { two_pointer_at(W::Inter, 3, 1, 1, 0, ord_of(1)); }
    //@harness props=C17,C01 quickfor=C17 strength=bounded tier=thorough bound="ONE execution: sets of 3 and 1 elements, positions (1, 0), comparison outcome greater (the instances of this family enumerate every position and outcome for these sizes)" clause="setInter step: equal keys => the element of A is emitted and both sides advance; less => A advances; greater => B advances; the walk ends when either side is exhausted, else the keys of the new heads are compared next" timeout=300 replay=sort_stable
    #[kani::proof]
    #[kani::unwind(8)]
    fn set_inter_3_1_at_1_0_greater() { two_pointer_at(W::Inter, 3, 1, 1, 0, ord_of(2)); }
    //@harness props=C17,C01 quickfor=C17 strength=bounded tier=thorough bound="ONE execution: sets of 3 and 1 elements, positions (2, 0), comparison outcome less (the instances of this family enumerate every position and outcome for these sizes)" clause="setInter step: equal keys => the element of A is emitted and both sides advance; less => A advances; greater => B advances; the walk ends when either side is exhausted, else the keys of the new heads are compared next" timeout=300 replay=sort_stable
    #[kani::proof]
    #[kani::unwind(8)]
    fn set_inter_3_1_at_2_0_less() { two_pointer_at(W::Inter, 3, 1, 2, 0, ord_of(0)); }
    //@harness props=C17,C01 quickfor=C17 strength=bounded tier=thorough bound="ONE execution: sets of 3 and 1 elements, positions (2, 0), comparison outcome equal (the instances of this family enumerate every position and outcome for these sizes)" clause="setInter step: equal keys => the element of A is emitted and both sides advance; less => A advances; greater => B advances; the walk ends when either side is exhausted, else the keys of the new heads are compared next" timeout=300 replay=sort_stable
    #[kani::proof]
    #[kani::unwind(8)]
    fn set_inter_3_1_at_2_0_equal() { two_pointer_at(W::Inter, 3, 1, 2, 0, ord_of(1)); }
    //@harness props=C17,C01 quickfor=C17 strength=bounded tier=thorough bound="ONE execution: sets of 3 and 1 elements, positions (2, 0), comparison outcome greater (the instances of this family enumerate every position and outcome for these sizes)" clause="setInter step: equal keys => the element of A is emitted and both sides advance; less => A advances; greater => B advances; the walk ends when either side is exhausted, else the keys of the new heads are compared next" timeout=300 replay=sort_stable
    #[kani::proof]
    #[kani::unwind(8)]
    fn set_inter_3_1_at_2_0_greater() { two_pointer_at(W::Inter, 3, 1, 2, 0, ord_of(2)); }
    //@harness props=C17,C01 quickfor=C17 strength=bounded bound="ONE execution: sets of 2 and 2 elements, positions (0, 0), comparison outcome less (the instances of this family enumerate every position and outcome for these sizes)" clause="setUnion step: less => A's element emitted; equal => A's element emitted once, both advance; greater => B's element emitted; when one side is exhausted the rest of the other is appended in order" timeout=300 replay=sort_stable
    #[kani::proof]
    #[kani::unwind(8)]
    fn set_union_2_2_at_0_0_less() { two_pointer_at(W::Union, 2, 2, 0, 0, ord_of(0)); }
    //@harness props=C17,C01 quickfor=C17 strength=bounded bound="ONE execution: sets of 2 and 2 elements, positions (0, 0), comparison outcome equal (the instances of this family enumerate every position and outcome for these sizes)" clause="setUnion step: less => A's element emitted; equal => A's element emitted once, both advance; greater => B's element emitted; when one side is exhausted the rest of the other is appended in order" timeout=300 replay=sort_stable
    #[kani::proof]
    #[kani::unwind(8)]
    fn set_union_2_2_at_0_0_equal() { two_pointer_at(W::Union, 2, 2, 0, 0, ord_of(1)); }
    //@harness props=C17,C01 quickfor=C17 strength=bounded bound="ONE execution: sets of 2 and 2 elements, positions (0, 0), comparison outcome greater (the instances of this family enumerate every position and outcome for these sizes)" clause="setUnion step: less => A's element emitted; equal => A's element emitted once, both advance; greater => B's element emitted; when one side is exhausted the rest of the other is appended in order" timeout=300 replay=sort_stable
    #[kani::proof]
    #[kani::unwind(8)]
    fn set_union_2_2_at_0_0_greater() { two_pointer_at(W::Union, 2, 2, 0, 0, ord_of(2)); }
    //@harness props=C17,C01 quickfor=C17 strength=bounded bound="ONE execution: sets of 2 and 2 elements, positions (0, 1), comparison outcome less (the instances of this family enumerate every position and outcome for these sizes)" clause="setUnion step: less => A's element emitted; equal => A's element emitted once, both advance; greater => B's element emitted; when one side is exhausted the rest of the other is appended in order" timeout=300 replay=sort_stable
    #[kani::proof]
    #[kani::unwind(8)]
    fn set_union_2_2_at_0_1_less() { two_pointer_at(W::Union, 2, 2, 0, 1, ord_of(0)); }
    //@harness props=C17,C01 quickfor=C17 strength=bounded bound="ONE execution: sets of 2 and 2 elements, positions (0, 1), comparison outcome equal (the instances of this family enumerate every position and outcome for these sizes)" clause="setUnion step: less => A's element emitted; equal => A's element emitted once, both advance; greater => B's element emitted; when one side is exhausted the rest of the other is appended in order" timeout=300 replay=sort_stable
    #[kani::proof]
    #[kani::unwind(8)]
    fn set_union_2_2_at_0_1_equal() { two_pointer_at(W::Union, 2, 2, 0, 1, ord_of(1)); }
    //@harness props=C17,C01 quickfor=C17 strength=bounded bound="ONE execution: sets of 2 and 2 elements, positions (0, 1), comparison outcome greater (the instances of this family enumerate every position and outcome for these sizes)" clause="setUnion step: less => A's element emitted; equal => A's element emitted once, both advance; greater => B's element emitted; when one side is exhausted the rest of the other is appended in order" timeout=300 replay=sort_stable
    #[kani::proof]
    #[kani::unwind(8)]
    fn set_union_2_2_at_0_1_greater() { two_pointer_at(W::Union, 2, 2, 0, 1, ord_of(2)); }
    //@harness props=C17,C01 quickfor=C17 strength=bounded bound="ONE execution: sets of 2 and 2 elements, positions (1, 0), comparison outcome less (the instances of this family enumerate every position and outcome for these sizes)" clause="setUnion step: less => A's element emitted; equal => A's element emitted once, both advance; greater => B's element emitted; when one side is exhausted the rest of the other is appended in order" timeout=300 replay=sort_stable
    #[kani::proof]
    #[kani::unwind(8)]
    fn set_union_2_2_at_1_0_less() { two_pointer_at(W::Union, 2, 2, 1, 0, ord_of(0)); }
    //@harness props=C17,C01 quickfor=C17 strength=bounded bound="ONE execution: sets of 2 and 2 elements, positions (1, 0), comparison outcome equal (the instances of this family enumerate every position and outcome for these sizes)" clause="setUnion step: less => A's element emitted; equal => A's element emitted once, both advance; greater => B's element emitted; when one side is exhausted the rest of the other is appended in order" timeout=300 replay=sort_stable
    #[kani::proof]
    #[kani::unwind(8)]
    fn set_union_2_2_at_1_0_equal() { two_pointer_at(W::Union, 2, 2, 1, 0, ord_of(1)); }
    //@harness props=C17,C01 quickfor=C17 strength=bounded bound="ONE execution: sets of 2 and 2 elements, positions (1, 0), comparison outcome greater (the instances of this family enumerate every position and outcome for these sizes)" clause="setUnion step: less => A's element emitted; equal => A's element emitted once, both advance; greater => B's element emitted; when one side is exhausted the rest of the other is appended in order" timeout=300 replay=sort_stable
    #[kani::proof]
    #[kani::unwind(8)]
    fn set_union_2_2_at_1_0_greater() { two_pointer_at(W::Union, 2, 2, 1, 0, ord_of(2)); }
    //@harness props=C17,C01 quickfor=C17 strength=bounded bound="ONE execution: sets of 2 and 2 elements, positions (1, 1), comparison outcome less (the instances of this family enumerate every position and outcome for these sizes)" clause="setUnion step: less => A's element emitted; equal => A's element emitted once, both advance; greater => B's element emitted; when one side is exhausted the rest of the other is appended in order" timeout=300 replay=sort_stable
    #[kani::proof]
    #[kani::unwind(8)]
    fn set_union_2_2_at_1_1_less() { two_pointer_at(W::Union, 2, 2, 1, 1, ord_of(0)); }
    //@harness props=C17,C01 quickfor=C17 strength=bounded bound="ONE execution: sets of 2 and 2 elements, positions (1, 1), comparison outcome equal (the instances of this family enumerate every position and outcome for these sizes)" clause="setUnion step: less => A's element emitted; equal => A's element emitted once, both advance; greater => B's element emitted; when one side is exhausted the rest of the other is appended in order" timeout=300 replay=sort_stable
    #[kani::proof]
    #[kani::unwind(8)]
    fn set_union_2_2_at_1_1_equal() { two_pointer_at(W::Union, 2, 2, 1, 1, ord_of(1)); }
    //@harness props=C17,C01 quickfor=C17 strength=bounded bound="ONE execution: sets of 2 and 2 elements, positions (1, 1), comparison outcome greater (the instances of this family enumerate every position and outcome for these sizes)" clause="setUnion step: less => A's element emitted; equal => A's element emitted once, both advance; greater => B's element emitted; when one side is exhausted the rest of the other is appended in order" timeout=300 replay=sort_stable
    #[kani::proof]
    #[kani::unwind(8)]
    fn set_union_2_2_at_1_1_greater() { two_pointer_at(W::Union, 2, 2, 1, 1, ord_of(2)); }
    //@harness props=C17,C01 quickfor=C17 strength=bounded tier=thorough bound="ONE execution: sets of 1 and 2 elements, positions (0, 0), comparison outcome less (the instances of this family enumerate every position and outcome for these sizes)" clause="setUnion step: less => A's element emitted; equal => A's element emitted once, both advance; greater => B's element emitted; when one side is exhausted the rest of the other is appended in order" timeout=300 replay=sort_stable
    #[kani::proof]
    #[kani::unwind(8)]
    fn set_union_1_2_at_0_0_less() { two_pointer_at(W::Union, 1, 2, 0, 0, ord_of(0)); }
    //@harness props=C17,C01 quickfor=C17 strength=bounded tier=thorough bound="ONE execution: sets of 1 and 2 elements, positions (0, 0), comparison outcome equal (the instances of this family enumerate every position and outcome for these sizes)" clause="setUnion step: less => A's element emitted; equal => A's element emitted once, both advance; greater => B's element emitted; when one side is exhausted the rest of the other is appended in order" timeout=300 replay=sort_stable
    #[kani::proof]
    #[kani::unwind(8)]
    fn set_union_1_2_at_0_0_equal() { two_pointer_at(W::Union, 1, 2, 0, 0, ord_of(1)); }
    //@harness props=C17,C01 quickfor=C17 strength=bounded tier=thorough bound="ONE execution: sets of 1 and 2 elements, positions (0, 0), comparison outcome greater (the instances of this family enumerate every position and outcome for these sizes)" clause="setUnion step: less => A's element emitted; equal => A's element emitted once, both advance; greater => B's element emitted; when one side is exhausted the rest of the other is appended in order" timeout=300 replay=sort_stable
    #[kani::proof]
    #[kani::unwind(8)]
    fn set_union_1_2_at_0_0_greater() { two_pointer_at(W::Union, 1, 2, 0, 0, ord_of(2)); }
    //@harness props=C17,C01 quickfor=C17 strength=bounded tier=thorough bound="ONE execution: sets of 1 and 2 elements, positions (0, 1), comparison outcome less (the instances of this family enumerate every position and outcome for these sizes)" clause="setUnion step: less => A's element emitted; equal => A's element emitted once, both advance; greater => B's element emitted; when one side is exhausted the rest of the other is appended in order" timeout=300 replay=sort_stable
    #[kani::proof]
    #[kani::unwind(8)]
    fn set_union_1_2_at_0_1_less() { two_pointer_at(W::Union, 1, 2, 0, 1, ord_of(0)); }
    //@harness props=C17,C01 quickfor=C17 strength=bounded tier=thorough bound="ONE execution: sets of 1 and 2 elements, positions (0, 1), comparison outcome equal (the instances of this family enumerate every position and outcome for these sizes)" clause="setUnion step: less => A's element emitted; equal => A's element emitted once, both advance; greater => B's element emitted; when one side is exhausted the rest of the other is appended in order" timeout=300 replay=sort_stable
    #[kani::proof]
    #[kani::unwind(8)]
    fn set_union_1_2_at_0_1_equal() { two_pointer_at(W::Union, 1, 2, 0, 1, ord_of(1)); }
    //@harness props=C17,C01 quickfor=C17 strength=bounded tier=thorough bound="ONE execution: sets of 1 and 2 elements, positions (0, 1), comparison outcome greater (the instances of this family enumerate every position and outcome for these sizes)" clause="setUnion step: less => A's element emitted; equal => A's element emitted once, both advance; greater => B's element emitted; when one side is exhausted the rest of the other is appended in order" timeout=300 replay=sort_stable
    #[kani::proof]
    #[kani::unwind(8)]
    fn set_union_1_2_at_0_1_greater() { two_pointer_at(W::Union, 1, 2, 0, 1, ord_of(2)); }
    //@harness props=C17,C01 quickfor=C17 strength=bounded tier=thorough bound="ONE execution: sets of 2 and 1 elements, positions (0, 0), comparison outcome less (the instances of this family enumerate every position and outcome for these sizes)" clause="setUnion step: less => A's element emitted; equal => A's element emitted once, both advance; greater => B's element emitted; when one side is exhausted the rest of the other is appended in order" timeout=300 replay=sort_stable
    #[kani::proof]
    #[kani::unwind(8)]
    fn set_union_2_1_at_0_0_less() { two_pointer_at(W::Union, 2, 1, 0, 0, ord_of(0)); }
    //@harness props=C17,C01 quickfor=C17 strength=bounded tier=thorough bound="ONE execution: sets of 2 and 1 elements, positions (0, 0), comparison outcome equal (the instances of this family enumerate every position and outcome for these sizes)" clause="setUnion step: less => A's element emitted; equal => A's element emitted once, both advance; greater => B's element emitted; when one side is exhausted the rest of the other is appended in order" timeout=300 replay=sort_stable
    #[kani::proof]
    #[kani::unwind(8)]
    fn set_union_2_1_at_0_0_equal() { two_pointer_at(W::Union, 2, 1, 0, 0, ord_of(1)); }
    //@harness props=C17,C01 quickfor=C17 strength=bounded tier=thorough bound="ONE execution: sets of 2 and 1 elements, positions (0, 0), comparison outcome greater (the instances of this family enumerate every position and outcome for these sizes)" clause="setUnion step: less => A's element emitted; equal => A's element emitted once, both advance; greater => B's element emitted; when one side is exhausted the rest of the other is appended in order" timeout=300 replay=sort_stable
    #[kani::proof]
    #[kani::unwind(8)]
    fn set_union_2_1_at_0_0_greater() { two_pointer_at(W::Union, 2, 1, 0, 0, ord_of(2)); }
    //@harness props=C17,C01 quickfor=C17 strength=bounded tier=thorough bound="ONE execution: sets of 2 and 1 elements, positions (1, 0), comparison outcome less (the instances of this family enumerate every position and outcome for these sizes)" clause="setUnion step: less => A's element emitted; equal => A's element emitted once, both advance; greater => B's element emitted; when one side is exhausted the rest of the other is appended in order" timeout=300 replay=sort_stable
    #[kani::proof]
    #[kani::unwind(8)]
    fn set_union_2_1_at_1_0_less() { two_pointer_at(W::Union, 2, 1, 1, 0, ord_of(0)); }
    //@harness props=C17,C01 quickfor=C17 strength=bounded tier=thorough bound="ONE execution: sets of 2 and 1 elements, positions (1, 0), comparison outcome equal (the instances of this family enumerate every position and outcome for these sizes)" clause="setUnion step: less => A's element emitted; equal => A's element emitted once, both advance; greater => B's element emitted; when one side is exhausted the rest of the other is appended in order" timeout=300 replay=sort_stable
    #[kani::proof]
    #[kani::unwind(8)]
    fn set_union_2_1_at_1_0_equal() { two_pointer_at(W::Union, 2, 1, 1, 0, ord_of(1)); }
    //@harness props=C17,C01 quickfor=C17 strength=bounded tier=thorough bound="ONE execution: sets of 2 and 1 elements, positions (1, 0), comparison outcome greater (the instances of this family enumerate every position and outcome for these sizes)" clause="setUnion step: less => A's element emitted; equal => A's element emitted once, both advance; greater => B's element emitted; when one side is exhausted the rest of the other is appended in order" timeout=300 replay=sort_stable
    #[kani::proof]
    #[kani::unwind(8)]
    fn set_union_2_1_at_1_0_greater() { two_pointer_at(W::Union, 2, 1, 1, 0, ord_of(2)); }
    //@harness props=C17,C01 quickfor=C17 strength=bounded tier=thorough bound="ONE execution: sets of 3 and 3 elements, positions (0, 0), comparison outcome less (the instances of this family enumerate every position and outcome for these sizes)" clause="setUnion step: less => A's element emitted; equal => A's element emitted once, both advance; greater => B's element emitted; when one side is exhausted the rest of the other is appended in order" timeout=300 replay=sort_stable
    #[kani::proof]
    #[kani::unwind(8)]
    fn set_union_3_3_at_0_0_less() { two_pointer_at(W::Union, 3, 3, 0, 0, ord_of(0)); }
    //@harness props=C17,C01 quickfor=C17 strength=bounded tier=thorough bound="ONE execution: sets of 3 and 3 elements, positions (0, 0), comparison outcome equal (the instances of this family enumerate every position and outcome for these sizes)" clause="setUnion step: less => A's element emitted; equal => A's element emitted once, both advance; greater => B's element emitted; when one side is exhausted the rest of the other is appended in order" timeout=300 replay=sort_stable
    #[kani::proof]
    #[kani::unwind(8)]
    fn set_union_3_3_at_0_0_equal() { two_pointer_at(W::Union, 3, 3, 0, 0, ord_of(1)); }
    //@harness props=C17,C01 quickfor=C17 strength=bounded tier=thorough bound="ONE execution: sets of 3 and 3 elements, positions (0, 0), comparison outcome greater (the instances of this family enumerate every position and outcome for these sizes)" clause="setUnion step: less => A's element emitted; equal => A's element emitted once, both advance; greater => B's element emitted; when one side is exhausted the rest of the other is appended in order" timeout=300 replay=sort_stable
    #[kani::proof]
    #[kani::unwind(8)]
    fn set_union_3_3_at_0_0_greater() { two_pointer_at(W::Union, 3, 3, 0, 0, ord_of(2)); }
    //@harness props=C17,C01 quickfor=C17 strength=bounded tier=thorough bound="ONE execution: sets of 3 and 3 elements, positions (0, 1), comparison outcome less (the instances of this family enumerate every position and outcome for these sizes)" clause="setUnion step: less => A's element emitted; equal => A's element emitted once, both advance; greater => B's element emitted; when one side is exhausted the rest of the other is appended in order" timeout=300 replay=sort_stable
    #[kani::proof]
    #[kani::unwind(8)]
    fn set_union_3_3_at_0_1_less() { two_pointer_at(W::Union, 3, 3, 0, 1, ord_of(0)); }
    //@harness props=C17,C01 quickfor=C17 strength=bounded tier=thorough bound="ONE execution: sets of 3 and 3 elements, positions (0, 1), comparison outcome equal (the instances of this family enumerate every position and outcome for these sizes)" clause="setUnion step: less => A's element emitted; equal => A's element emitted once, both advance; greater => B's element emitted; when one side is exhausted the rest of the other is appended in order" timeout=300 replay=sort_stable
    #[kani::proof]
    #[kani::unwind(8)]
    fn set_union_3_3_at_0_1_equal() { two_pointer_at(W::Union, 3, 3, 0, 1, ord_of(1)); }
    //@harness props=C17,C01 quickfor=C17 strength=bounded tier=thorough bound="ONE execution: sets of 3 and 3 elements, positions (0, 1), comparison outcome greater (the instances of this family enumerate every position and outcome for these sizes)" clause="setUnion step: less => A's element emitted; equal => A's element emitted once, both advance; greater => B's element emitted; when one side is exhausted the rest of the other is appended in order" timeout=300 replay=sort_stable
    #[kani::proof]
    #[kani::unwind(8)]
    fn set_union_3_3_at_0_1_greater() { two_pointer_at(W::Union, 3, 3, 0, 1, ord_of(2)); }
    //@harness props=C17,C01 quickfor=C17 strength=bounded tier=thorough bound="ONE execution: sets of 3 and 3 elements, positions (0, 2), comparison outcome less (the instances of this family enumerate every position and outcome for these sizes)" clause="setUnion step: less => A's element emitted; equal => A's element emitted once, both advance; greater => B's element emitted; when one side is exhausted the rest of the other is appended in order" timeout=300 replay=sort_stable
    #[kani::proof]
    #[kani::unwind(8)]
    fn set_union_3_3_at_0_2_less() { two_pointer_at(W::Union, 3, 3, 0, 2, ord_of(0)); }
    //@harness props=C17,C01 quickfor=C17 strength=bounded tier=thorough bound="ONE execution: sets of 3 and 3 elements, positions (0, 2), comparison outcome equal (the instances of this family enumerate every position and outcome for these sizes)" clause="setUnion step: less => A's element emitted; equal => A's element emitted once, both advance; greater => B's element emitted; when one side is exhausted the rest of the other is appended in order" timeout=300 replay=sort_stable
    #[kani::proof]
    #[kani::unwind(8)]
    fn set_union_3_3_at_0_2_equal() { two_pointer_at(W::Union, 3, 3, 0, 2, ord_of(1)); }
    //@harness props=C17,C01 quickfor=C17 strength=bounded tier=thorough bound="ONE execution: sets of 3 and 3 elements, positions (0, 2), comparison outcome greater (the instances of this family enumerate every position and outcome for these sizes)" clause="setUnion step: less => A's element emitted; equal => A's element emitted once, both advance; greater => B's element emitted; when one side is exhausted the rest of the other is appended in order" timeout=300 replay=sort_stable
    #[kani::proof]
    #[kani::unwind(8)]
    fn set_union_3_3_at_0_2_greater() { two_pointer_at(W::Union, 3, 3, 0, 2, ord_of(2)); }
    //@harness props=C17,C01 quickfor=C17 strength=bounded tier=thorough bound="ONE execution: sets of 3 and 3 elements, positions (1, 0), comparison outcome less (the instances of this family enumerate every position and outcome for these sizes)" clause="setUnion step: less => A's element emitted; equal => A's element emitted once, both advance; greater => B's element emitted; when one side is exhausted the rest of the other is appended in order" timeout=300 replay=sort_stable
    #[kani::proof]
    #[kani::unwind(8)]
    fn set_union_3_3_at_1_0_less() { two_pointer_at(W::Union, 3, 3, 1, 0, ord_of(0)); }
    //@harness props=C17,C01 quickfor=C17 strength=bounded tier=thorough bound="ONE execution: sets of 3 and 3 elements, positions (1, 0), comparison outcome equal (the instances of this family enumerate every position and outcome for these sizes)" clause="setUnion step: less => A's element emitted; equal => A's element emitted once, both advance; greater => B's element emitted; when one side is exhausted the rest of the other is appended in order" timeout=300 replay=sort_stable
    #[kani::proof]
    #[kani::unwind(8)]
    fn set_union_3_3_at_1_0_equal() { two_pointer_at(W::Union, 3, 3, 1, 0, ord_of(1)); }
    //@harness props=C17,C01 quickfor=C17 strength=bounded tier=thorough bound="ONE execution: sets of 3 and 3 elements, positions (1, 0), comparison outcome greater (the instances of this family enumerate every position and outcome for these sizes)" clause="setUnion step: less => A's element emitted; equal => A's element emitted once, both advance; greater => B's element emitted; when one side is exhausted the rest of the other is appended in order" timeout=300 replay=sort_stable
    #[kani::proof]
    #[kani::unwind(8)]
    fn set_union_3_3_at_1_0_greater() { two_pointer_at(W::Union, 3, 3, 1, 0, ord_of(2)); }
    //@harness props=C17,C01 quickfor=C17 strength=bounded tier=thorough bound="ONE execution: sets of 3 and 3 elements, positions (1, 1), comparison outcome less (the instances of this family enumerate every position and outcome for these sizes)" clause="setUnion step: less => A's element emitted; equal => A's element emitted once, both advance; greater => B's element emitted; when one side is exhausted the rest of the other is appended in order" timeout=300 replay=sort_stable
    #[kani::proof]
    #[kani::unwind(8)]
    fn set_union_3_3_at_1_1_less() { two_pointer_at(W::Union, 3, 3, 1, 1, ord_of(0)); }
    //@harness props=C17,C01 quickfor=C17 strength=bounded tier=thorough bound="ONE execution: sets of 3 and 3 elements, positions (1, 1), comparison outcome equal (the instances of this family enumerate every position and outcome for these sizes)" clause="setUnion step: less => A's element emitted; equal => A's element emitted once, both advance; greater => B's element emitted; when one side is exhausted the rest of the other is appended in order" timeout=300 replay=sort_stable
    #[kani::proof]
    #[kani::unwind(8)]
    fn set_union_3_3_at_1_1_equal() { two_pointer_at(W::Union, 3, 3, 1, 1, ord_of(1)); }
    //@harness props=C17,C01 quickfor=C17 strength=bounded tier=thorough bound="ONE execution: sets of 3 and 3 elements, positions (1, 1), comparison outcome greater (the instances of this family enumerate every position and outcome for these sizes)" clause="setUnion step: less => A's element emitted; equal => A's element emitted once, both advance; greater => B's element emitted; when one side is exhausted the rest of the other is appended in order" timeout=300 replay=sort_stable
    #[kani::proof]
    #[kani::unwind(8)]
    fn set_union_3_3_at_1_1_greater() { two_pointer_at(W::Union, 3, 3, 1, 1, ord_of(2)); }
    //@harness props=C17,C01 quickfor=C17 strength=bounded tier=thorough bound="ONE execution: sets of 3 and 3 elements, positions (1, 2), comparison outcome less (the instances of this family enumerate every position and outcome for these sizes)" clause="setUnion step: less => A's element emitted; equal => A's element emitted once, both advance; greater => B's element emitted; when one side is exhausted the rest of the other is appended in order" timeout=300 replay=sort_stable
    #[kani::proof]
    #[kani::unwind(8)]
    fn set_union_3_3_at_1_2_less() { two_pointer_at(W::Union, 3, 3, 1, 2, ord_of(0)); }
    //@harness props=C17,C01 quickfor=C17 strength=bounded tier=thorough bound="ONE execution: sets of 3 and 3 elements, positions (1, 2), comparison outcome equal (the instances of this family enumerate every position and outcome for these sizes)" clause="setUnion step: less => A's element emitted; equal => A's element emitted once, both advance; greater => B's element emitted; when one side is exhausted the rest of the other is appended in order" timeout=300 replay=sort_stable
    #[kani::proof]
    #[kani::unwind(8)]
    fn set_union_3_3_at_1_2_equal() { two_pointer_at(W::Union, 3, 3, 1, 2, ord_of(1)); }
    //@harness props=C17,C01 quickfor=C17 strength=bounded tier=thorough bound="ONE execution: sets of 3 and 3 elements, positions (1, 2), comparison outcome greater (the instances of this family enumerate every position and outcome for these sizes)" clause="setUnion step: less => A's element emitted; equal => A's element emitted once, both advance; greater => B's element emitted; when one side is exhausted the rest of the other is appended in order" timeout=300 replay=sort_stable
    #[kani::proof]
    #[kani::unwind(8)]
    fn set_union_3_3_at_1_2_greater() { two_pointer_at(W::Union, 3, 3, 1, 2, ord_of(2)); }
    //@harness props=C17,C01 quickfor=C17 strength=bounded tier=thorough bound="ONE execution: sets of 3 and 3 elements, positions (2, 0), comparison outcome less (the instances of this family enumerate every position and outcome for these sizes)" clause="setUnion step: less => A's element emitted; equal => A's element emitted once, both advance; greater => B's element emitted; when one side is exhausted the rest of the other is appended in order" timeout=300 replay=sort_stable
    #[kani::proof]
    #[kani::unwind(8)]
    fn set_union_3_3_at_2_0_less() { two_pointer_at(W::Union, 3, 3, 2, 0, ord_of(0)); }
    //@harness props=C17,C01 quickfor=C17 strength=bounded tier=thorough bound="ONE execution: sets of 3 and 3 elements, positions (2, 0), comparison outcome equal (the instances of this family enumerate every position and outcome for these sizes)" clause="setUnion step: less => A's element emitted; equal => A's element emitted once, both advance; greater => B's element emitted; when one side is exhausted the rest of the other is appended in order" timeout=300 replay=sort_stable
    #[kani::proof]
    #[kani::unwind(8)]
    fn set_union_3_3_at_2_0_equal() { two_pointer_at(W::Union, 3, 3, 2, 0, ord_of(1)); }
    //@harness props=C17,C01 quickfor=C17 strength=bounded tier=thorough bound="ONE execution: sets of 3 and 3 elements, positions (2, 0), comparison outcome greater (the instances of this family enumerate every position and outcome for these sizes)" clause="setUnion step: less => A's element emitted; equal => A's element emitted once, both advance; greater => B's element emitted; when one side is exhausted the rest of the other is appended in order" timeout=300 replay=sort_stable
    #[kani::proof]
    #[kani::unwind(8)]
    fn set_union_3_3_at_2_0_greater() { two_pointer_at(W::Union, 3, 3, 2, 0, ord_of(2)); }
    //@harness props=C17,C01 quickfor=C17 strength=bounded tier=thorough bound="ONE execution: sets of 3 and 3 elements, positions (2, 1), comparison outcome less (the instances of this family enumerate every position and outcome for these sizes)" clause="setUnion step: less => A's element emitted; equal => A's element emitted once, both advance; greater => B's element emitted; when one side is exhausted the rest of the other is appended in order" timeout=300 replay=sort_stable
    #[kani::proof]
    #[kani::unwind(8)]
    fn set_union_3_3_at_2_1_less() { two_pointer_at(W::Union, 3, 3, 2, 1, ord_of(0)); }
    //@harness props=C17,C01 quickfor=C17 strength=bounded tier=thorough bound="ONE execution: sets of 3 and 3 elements, positions (2, 1), comparison outcome equal (the instances of this family enumerate every position and outcome for these sizes)" clause="setUnion step: less => A's element emitted; equal => A's element emitted once, both advance; greater => B's element emitted; when one side is exhausted the rest of the other is appended in order" timeout=300 replay=sort_stable
    #[kani::proof]
    #[kani::unwind(8)]
    fn set_union_3_3_at_2_1_equal() { two_pointer_at(W::Union, 3, 3, 2, 1, ord_of(1)); }
    //@harness props=C17,C01 quickfor=C17 strength=bounded tier=thorough bound="ONE execution: sets of 3 and 3 elements, positions (2, 1), comparison outcome greater (the instances of this family enumerate every position and outcome for these sizes)" clause="setUnion step: less => A's element emitted; equal => A's element emitted once, both advance; greater => B's element emitted; when one side is exhausted the rest of the other is appended in order" timeout=300 replay=sort_stable
    #[kani::proof]
    #[kani::unwind(8)]
    fn set_union_3_3_at_2_1_greater() { two_pointer_at(W::Union, 3, 3, 2, 1, ord_of(2)); }
    //@harness props=C17,C01 quickfor=C17 strength=bounded tier=thorough bound="ONE execution: sets of 3 and 3 elements, positions (2, 2), comparison outcome less (the instances of this family enumerate every position and outcome for these sizes)" clause="setUnion step: less => A's element emitted; equal => A's element emitted once, both advance; greater => B's element emitted; when one side is exhausted the rest of the other is appended in order" timeout=300 replay=sort_stable
    #[kani::proof]
    #[kani::unwind(8)]
    fn set_union_3_3_at_2_2_less() { two_pointer_at(W::Union, 3, 3, 2, 2, ord_of(0)); }
    //@harness props=C17,C01 quickfor=C17 strength=bounded tier=thorough bound="ONE execution: sets of 3 and 3 elements, positions (2, 2), comparison outcome equal (the instances of this family enumerate every position and outcome for these sizes)" clause="setUnion step: less => A's element emitted; equal => A's element emitted once, both advance; greater => B's element emitted; when one side is exhausted the rest of the other is appended in order" timeout=300 replay=sort_stable
    #[kani::proof]
    #[kani::unwind(8)]
    fn set_union_3_3_at_2_2_equal() { two_pointer_at(W::Union, 3, 3, 2, 2, ord_of(1)); }
    //@harness props=C17,C01 quickfor=C17 strength=bounded tier=thorough bound="ONE execution: sets of 3 and 3 elements, positions (2, 2), comparison outcome greater (the instances of this family enumerate every position and outcome for these sizes)" clause="setUnion step: less => A's element emitted; equal => A's element emitted once, both advance; greater => B's element emitted; when one side is exhausted the rest of the other is appended in order" timeout=300 replay=sort_stable
    #[kani::proof]
    #[kani::unwind(8)]
    fn set_union_3_3_at_2_2_greater() { two_pointer_at(W::Union, 3, 3, 2, 2, ord_of(2)); }
    //@harness props=C17,C01 quickfor=C17 strength=bounded tier=thorough bound="ONE execution: sets of 1 and 1 elements, positions (0, 0), comparison outcome less (the instances of this family enumerate every position and outcome for these sizes)" clause="setUnion step: less => A's element emitted; equal => A's element emitted once, both advance; greater => B's element emitted; when one side is exhausted the rest of the other is appended in order" timeout=300 replay=sort_stable
    #[kani::proof]
    #[kani::unwind(8)]
    fn set_union_1_1_at_0_0_less() { two_pointer_at(W::Union, 1, 1, 0, 0, ord_of(0)); }
    //@harness props=C17,C01 quickfor=C17 strength=bounded tier=thorough bound="ONE execution: sets of 1 and 1 elements, positions (0, 0), comparison outcome equal (the instances of this family enumerate every position and outcome for these sizes)" clause="setUnion step: less => A's element emitted; equal => A's element emitted once, both advance; greater => B's element emitted; when one side is exhausted the rest of the other is appended in order" timeout=300 replay=sort_stable
    #[kani::proof]
    #[kani::unwind(8)]
    fn set_union_1_1_at_0_0_equal() { two_pointer_at(W::Union, 1, 1, 0, 0, ord_of(1)); }
    //@harness props=C17,C01 quickfor=C17 strength=bounded tier=thorough bound="ONE execution: sets of 1 and 1 elements, positions (0, 0), comparison outcome greater (the instances of this family enumerate every position and outcome for these sizes)" clause="setUnion step: less => A's element emitted; equal => A's element emitted once, both advance; greater => B's element emitted; when one side is exhausted the rest of the other is appended in order" timeout=300 replay=sort_stable
    #[kani::proof]
    #[kani::unwind(8)]
    fn set_union_1_1_at_0_0_greater() { two_pointer_at(W::Union, 1, 1, 0, 0, ord_of(2)); }
    //@harness props=C17,C01 quickfor=C17 strength=bounded tier=thorough bound="ONE execution: sets of 2 and 3 elements, positions (0, 0), comparison outcome less (the instances of this family enumerate every position and outcome for these sizes)" clause="setUnion step: less => A's element emitted; equal => A's element emitted once, both advance; greater => B's element emitted; when one side is exhausted the rest of the other is appended in order" timeout=300 replay=sort_stable
    #[kani::proof]
    #[kani::unwind(8)]
    fn set_union_2_3_at_0_0_less() { two_pointer_at(W::Union, 2, 3, 0, 0, ord_of(0)); }
    //@harness props=C17,C01 quickfor=C17 strength=bounded tier=thorough bound="ONE execution: sets of 2 and 3 elements, positions (0, 0), comparison outcome equal (the instances of this family enumerate every position and outcome for these sizes)" clause="setUnion step: less => A's element emitted; equal => A's element emitted once, both advance; greater => B's element emitted; when one side is exhausted the rest of the other is appended in order" timeout=300 replay=sort_stable
    #[kani::proof]
    #[kani::unwind(8)]
    fn set_union_2_3_at_0_0_equal() { two_pointer_at(W::Union, 2, 3, 0, 0, ord_of(1)); }
    //@harness props=C17,C01 quickfor=C17 strength=bounded tier=thorough bound="ONE execution: sets of 2 and 3 elements, positions (0, 0), comparison outcome greater (the instances of this family enumerate every position and outcome for these sizes)" clause="setUnion step: less => A's element emitted; equal => A's element emitted once, both advance; greater => B's element emitted; when one side is exhausted the rest of the other is appended in order" timeout=300 replay=sort_stable
    #[kani::proof]
    #[kani::unwind(8)]
    fn set_union_2_3_at_0_0_greater() { two_pointer_at(W::Union, 2, 3, 0, 0, ord_of(2)); }
    //@harness props=C17,C01 quickfor=C17 strength=bounded tier=thorough bound="ONE execution: sets of 2 and 3 elements, positions (0, 1), comparison outcome less (the instances of this family enumerate every position and outcome for these sizes)" clause="setUnion step: less => A's element emitted; equal => A's element emitted once, both advance; greater => B's element emitted; when one side is exhausted the rest of the other is appended in order" timeout=300 replay=sort_stable
    #[kani::proof]
    #[kani::unwind(8)]
    fn set_union_2_3_at_0_1_less() { two_pointer_at(W::Union, 2, 3, 0, 1, ord_of(0)); }
    //@harness props=C17,C01 quickfor=C17 strength=bounded tier=thorough bound="ONE execution: sets of 2 and 3 elements, positions (0, 1), comparison outcome equal (the instances of this family enumerate every position and outcome for these sizes)" clause="setUnion step: less => A's element emitted; equal => A's element emitted once, both advance; greater => B's element emitted; when one side is exhausted the rest of the other is appended in order" timeout=300 replay=sort_stable
    #[kani::proof]
    #[kani::unwind(8)]
    fn set_union_2_3_at_0_1_equal() { two_pointer_at(W::Union, 2, 3, 0, 1, ord_of(1)); }
    //@harness props=C17,C01 quickfor=C17 strength=bounded tier=thorough bound="ONE execution: sets of 2 and 3 elements, positions (0, 1), comparison outcome greater (the instances of this family enumerate every position and outcome for these sizes)" clause="setUnion step: less => A's element emitted; equal => A's element emitted once, both advance; greater => B's element emitted; when one side is exhausted the rest of the other is appended in order" timeout=300 replay=sort_stable
    #[kani::proof]
    #[kani::unwind(8)]
    fn set_union_2_3_at_0_1_greater() { two_pointer_at(W::Union, 2, 3, 0, 1, ord_of(2)); }
    //@harness props=C17,C01 quickfor=C17 strength=bounded tier=thorough bound="ONE execution: sets of 2 and 3 elements, positions (0, 2), comparison outcome less (the instances of this family enumerate every position and outcome for these sizes)" clause="setUnion step: less => A's element emitted; equal => A's element emitted once, both advance; greater => B's element emitted; when one side is exhausted the rest of the other is appended in order" timeout=300 replay=sort_stable
    #[kani::proof]
    #[kani::unwind(8)]
    fn set_union_2_3_at_0_2_less() { two_pointer_at(W::Union, 2, 3, 0, 2, ord_of(0)); }
    //@harness props=C17,C01 quickfor=C17 strength=bounded tier=thorough bound="ONE execution: sets of 2 and 3 elements, positions (0, 2), comparison outcome equal (the instances of this family enumerate every position and outcome for these sizes)" clause="setUnion step: less => A's element emitted; equal => A's element emitted once, both advance; greater => B's element emitted; when one side is exhausted the rest of the other is appended in order" timeout=300 replay=sort_stable
    #[kani::proof]
    #[kani::unwind(8)]
    fn set_union_2_3_at_0_2_equal() { two_pointer_at(W::Union, 2, 3, 0, 2, ord_of(1)); }
    //@harness props=C17,C01 quickfor=C17 strength=bounded tier=thorough bound="ONE execution: sets of 2 and 3 elements, positions (0, 2), comparison outcome greater (the instances of this family enumerate every position and outcome for these sizes)" clause="setUnion step: less => A's element emitted; equal => A's element emitted once, both advance; greater => B's element emitted; when one side is exhausted the rest of the other is appended in order" timeout=300 replay=sort_stable
    #[kani::proof]
    #[kani::unwind(8)]
    fn set_union_2_3_at_0_2_greater() { two_pointer_at(W::Union, 2, 3, 0, 2, ord_of(2)); }
    //@harness props=C17,C01 quickfor=C17 strength=bounded tier=thorough bound="ONE execution: sets of 2 and 3 elements, positions (1, 0), comparison outcome less (the instances of this family enumerate every position and outcome for these sizes)" clause="setUnion step: less => A's element emitted; equal => A's element emitted once, both advance; greater => B's element emitted; when one side is exhausted the rest of the other is appended in order" timeout=300 replay=sort_stable
    #[kani::proof]
    #[kani::unwind(8)]
    fn set_union_2_3_at_1_0_less() { two_pointer_at(W::Union, 2, 3, 1, 0, ord_of(0)); }
    //@harness props=C17,C01 quickfor=C17 strength=bounded tier=thorough bound="ONE execution: sets of 2 and 3 elements, positions (1, 0), comparison outcome equal (the instances of this family enumerate every position and outcome for these sizes)" clause="setUnion step: less => A's element emitted; equal => A's element emitted once, both advance; greater => B's element emitted; when one side is exhausted the rest of the other is appended in order" timeout=300 replay=sort_stable
    #[kani::proof]
    #[kani::unwind(8)]
    fn set_union_2_3_at_1_0_equal() { two_pointer_at(W::Union, 2, 3, 1, 0, ord_of(1)); }
    //@harness props=C17,C01 quickfor=C17 strength=bounded tier=thorough bound="ONE execution: sets of 2 and 3 elements, positions (1, 0), comparison outcome greater (the instances of this family enumerate every position and outcome for these sizes)" clause="setUnion step: less => A's element emitted; equal => A's element emitted once, both advance; greater => B's element emitted; when one side is exhausted the rest of the other is appended in order" timeout=300 replay=sort_stable
    #[kani::proof]
    #[kani::unwind(8)]
    fn set_union_2_3_at_1_0_greater() { two_pointer_at(W::Union, 2, 3, 1, 0, ord_of(2)); }
    //@harness props=C17,C01 quickfor=C17 strength=bounded tier=thorough bound="ONE execution: sets of 2 and 3 elements, positions (1, 1), comparison outcome less (the instances of this family enumerate every position and outcome for these sizes)" clause="setUnion step: less => A's element emitted; equal => A's element emitted once, both advance; greater => B's element emitted; when one side is exhausted the rest of the other is appended in order" timeout=300 replay=sort_stable
    #[kani::proof]
    #[kani::unwind(8)]
    fn set_union_2_3_at_1_1_less() { two_pointer_at(W::Union, 2, 3, 1, 1, ord_of(0)); }
    //@harness props=C17,C01 quickfor=C17 strength=bounded tier=thorough bound="ONE execution: sets of 2 and 3 elements, positions (1, 1), comparison outcome equal (the instances of this family enumerate every position and outcome for these sizes)" clause="setUnion step: less => A's element emitted; equal => A's element emitted once, both advance; greater => B's element emitted; when one side is exhausted the rest of the other is appended in order" timeout=300 replay=sort_stable
    #[kani::proof]
    #[kani::unwind(8)]
    fn set_union_2_3_at_1_1_equal() { two_pointer_at(W::Union, 2, 3, 1, 1, ord_of(1)); }
    //@harness props=C17,C01 quickfor=C17 strength=bounded tier=thorough bound="ONE execution: sets of 2 and 3 elements, positions (1, 1), comparison outcome greater (the instances of this family enumerate every position and outcome for these sizes)" clause="setUnion step: less => A's element emitted; equal => A's element emitted once, both advance; greater => B's element emitted; when one side is exhausted the rest of the other is appended in order" timeout=300 replay=sort_stable
    #[kani::proof]
    #[kani::unwind(8)]
    fn set_union_2_3_at_1_1_greater() { two_pointer_at(W::Union, 2, 3, 1, 1, ord_of(2)); }
    //@harness props=C17,C01 quickfor=C17 strength=bounded tier=thorough bound="ONE execution: sets of 2 and 3 elements, positions (1, 2), comparison outcome less (the instances of this family enumerate every position and outcome for these sizes)" clause="setUnion step: less => A's element emitted; equal => A's element emitted once, both advance; greater => B's element emitted; when one side is exhausted the rest of the other is appended in order" timeout=300 replay=sort_stable
    #[kani::proof]
    #[kani::unwind(8)]
    fn set_union_2_3_at_1_2_less() { two_pointer_at(W::Union, 2, 3, 1, 2, ord_of(0)); }
    //@harness props=C17,C01 quickfor=C17 strength=bounded tier=thorough bound="ONE execution: sets of 2 and 3 elements, positions (1, 2), comparison outcome equal (the instances of this family enumerate every position and outcome for these sizes)" clause="setUnion step: less => A's element emitted; equal => A's element emitted once, both advance; greater => B's element emitted; when one side is exhausted the rest of the other is appended in order" timeout=300 replay=sort_stable
    #[kani::proof]
    #[kani::unwind(8)]
    fn set_union_2_3_at_1_2_equal() { two_pointer_at(W::Union, 2, 3, 1, 2, ord_of(1)); }
    //@harness props=C17,C01 quickfor=C17 strength=bounded tier=thorough bound="ONE execution: sets of 2 and 3 elements, positions (1, 2), comparison outcome greater (the instances of this family enumerate every position and outcome for these sizes)" clause="setUnion step: less => A's element emitted; equal => A's element emitted once, both advance; greater => B's element emitted; when one side is exhausted the rest of the other is appended in order" timeout=300 replay=sort_stable
    #[kani::proof]
    #[kani::unwind(8)]
    fn set_union_2_3_at_1_2_greater() { two_pointer_at(W::Union, 2, 3, 1, 2, ord_of(2)); }
    //@harness props=C17,C01 quickfor=C17 strength=bounded tier=thorough bound="ONE execution: sets of 3 and 2 elements, positions (0, 0), comparison outcome less (the instances of this family enumerate every position and outcome for these sizes)" clause="setUnion step: less => A's element emitted; equal => A's element emitted once, both advance; greater => B's element emitted; when one side is exhausted the rest of the other is appended in order" timeout=300 replay=sort_stable
    #[kani::proof]
    #[kani::unwind(8)]
    fn set_union_3_2_at_0_0_less() { two_pointer_at(W::Union, 3, 2, 0, 0, ord_of(0)); }
    //@harness props=C17,C01 quickfor=C17 strength=bounded tier=thorough bound="ONE execution: sets of 3 and 2 elements, positions (0, 0), comparison outcome equal (the instances of this family enumerate every position and outcome for these sizes)" clause="setUnion step: less => A's element emitted; equal => A's element emitted once, both advance; greater => B's element emitted; when one side is exhausted the rest of the other is appended in order" timeout=300 replay=sort_stable
    #[kani::proof]
    #[kani::unwind(8)]
    fn set_union_3_2_at_0_0_equal() { two_pointer_at(W::Union, 3, 2, 0, 0, ord_of(1)); }
    //@harness props=C17,C01 quickfor=C17 strength=bounded tier=thorough bound="ONE execution: sets of 3 and 2 elements, positions (0, 0), comparison outcome greater (the instances of this family enumerate every position and outcome for these sizes)" clause="setUnion step: less => A's element emitted; equal => A's element emitted once, both advance; greater => B's element emitted; when one side is exhausted the rest of the other is appended in order" timeout=300 replay=sort_stable
    #[kani::proof]
    #[kani::unwind(8)]
    fn set_union_3_2_at_0_0_greater() { two_pointer_at(W::Union, 3, 2, 0, 0, ord_of(2)); }
    //@harness props=C17,C01 quickfor=C17 strength=bounded tier=thorough bound="ONE execution: sets of 3 and 2 elements, positions (0, 1), comparison outcome less (the instances of this family enumerate every position and outcome for these sizes)" clause="setUnion step: less => A's element emitted; equal => A's element emitted once, both advance; greater => B's element emitted; when one side is exhausted the rest of the other is appended in order" timeout=300 replay=sort_stable
    #[kani::proof]
    #[kani::unwind(8)]
    fn set_union_3_2_at_0_1_less() { two_pointer_at(W::Union, 3, 2, 0, 1, ord_of(0)); }
    //@harness props=C17,C01 quickfor=C17 strength=bounded tier=thorough bound="ONE execution: sets of 3 and 2 elements, positions (0, 1), comparison outcome equal (the instances of this family enumerate every position and outcome for these sizes)" clause="setUnion step: less => A's element emitted; equal => A's element emitted once, both advance; greater => B's element emitted; when one side is exhausted the rest of the other is appended in order" timeout=300 replay=sort_stable
    #[kani::proof]
    #[kani::unwind(8)]
    fn set_union_3_2_at_0_1_equal() { two_pointer_at(W::Union, 3, 2, 0, 1, ord_of(1)); }
    //@harness props=C17,C01 quickfor=C17 strength=bounded tier=thorough bound="ONE execution: sets of 3 and 2 elements, positions (0, 1), comparison outcome greater (the instances of this family enumerate every position and outcome for these sizes)" clause="setUnion step: less => A's element emitted; equal => A's element emitted once, both advance; greater => B's element emitted; when one side is exhausted the rest of the other is appended in order" timeout=300 replay=sort_stable
    #[kani::proof]
    #[kani::unwind(8)]
    fn set_union_3_2_at_0_1_greater() { two_pointer_at(W::Union, 3, 2, 0, 1, ord_of(2)); }
    //@harness props=C17,C01 quickfor=C17 strength=bounded tier=thorough bound="ONE execution: sets of 3 and 2 elements, positions (1, 0), comparison outcome less (the instances of this family enumerate every position and outcome for these sizes)" clause="setUnion step: less => A's element emitted; equal => A's element emitted once, both advance; greater => B's element emitted; when one side is exhausted the rest of the other is appended in order" timeout=300 replay=sort_stable
    #[kani::proof]
    #[kani::unwind(8)]
    fn set_union_3_2_at_1_0_less() { two_pointer_at(W::Union, 3, 2, 1, 0, ord_of(0)); }
    //@harness props=C17,C01 quickfor=C17 strength=bounded tier=thorough bound="ONE execution: sets of 3 and 2 elements, positions (1, 0), comparison outcome equal (the instances of this family enumerate every position and outcome for these sizes)" clause="setUnion step: less => A's element emitted; equal => A's element emitted once, both advance; greater => B's element emitted; when one side is exhausted the rest of the other is appended in order" timeout=300 replay=sort_stable
    #[kani::proof]
    #[kani::unwind(8)]
    fn set_union_3_2_at_1_0_equal() { two_pointer_at(W::Union, 3, 2, 1, 0, ord_of(1)); }
    //@harness props=C17,C01 quickfor=C17 strength=bounded tier=thorough bound="ONE execution: sets of 3 and 2 elements, positions (1, 0), comparison outcome greater (the instances of this family enumerate every position and outcome for these sizes)" clause="setUnion step: less => A's element emitted; equal => A's element emitted once, both advance; greater => B's element emitted; when one side is exhausted the rest of the other is appended in order" timeout=300 replay=sort_stable
    #[kani::proof]
    #[kani::unwind(8)]
    fn set_union_3_2_at_1_0_greater() { two_pointer_at(W::Union, 3, 2, 1, 0, ord_of(2)); }
    //@harness props=C17,C01 quickfor=C17 strength=bounded tier=thorough bound="ONE execution: sets of 3 and 2 elements, positions (1, 1), comparison outcome less (the instances of this family enumerate every position and outcome for these sizes)" clause="setUnion step: less => A's element emitted; equal => A's element emitted once, both advance; greater => B's element emitted; when one side is exhausted the rest of the other is appended in order" timeout=300 replay=sort_stable
    #[kani::proof]
    #[kani::unwind(8)]
    fn set_union_3_2_at_1_1_less() { two_pointer_at(W::Union, 3, 2, 1, 1, ord_of(0)); }
    //@harness props=C17,C01 quickfor=C17 strength=bounded tier=thorough bound="ONE execution: sets of 3 and 2 elements, positions (1, 1), comparison outcome equal (the instances of this family enumerate every position and outcome for these sizes)" clause="setUnion step: less => A's element emitted; equal => A's element emitted once, both advance; greater => B's element emitted; when one side is exhausted the rest of the other is appended in order" timeout=300 replay=sort_stable
    #[kani::proof]
    #[kani::unwind(8)]
    fn set_union_3_2_at_1_1_equal() { two_pointer_at(W::Union, 3, 2, 1, 1, ord_of(1)); }
    //@harness props=C17,C01 quickfor=C17 strength=bounded tier=thorough bound="ONE execution: sets of 3 and 2 elements, positions (1, 1), comparison outcome greater (the instances of this family enumerate every position and outcome for these sizes)" clause="setUnion step: less => A's element emitted; equal => A's element emitted once, both advance; greater => B's element emitted; when one side is exhausted the rest of the other is appended in order" timeout=300 replay=sort_stable
    #[kani::proof]
    #[kani::unwind(8)]
    fn set_union_3_2_at_1_1_greater() { two_pointer_at(W::Union, 3, 2, 1, 1, ord_of(2)); }
    //@harness props=C17,C01 quickfor=C17 strength=bounded tier=thorough bound="ONE execution: sets of 3 and 2 elements, positions (2, 0), comparison outcome less (the instances of this family enumerate every position and outcome for these sizes)" clause="setUnion step: less => A's element emitted; equal => A's element emitted once, both advance; greater => B's element emitted; when one side is exhausted the rest of the other is appended in order" timeout=300 replay=sort_stable
    #[kani::proof]
    #[kani::unwind(8)]
    fn set_union_3_2_at_2_0_less() { two_pointer_at(W::Union, 3, 2, 2, 0, ord_of(0)); }
    //@harness props=C17,C01 quickfor=C17 strength=bounded tier=thorough bound="ONE execution: sets of 3 and 2 elements, positions (2, 0), comparison outcome equal (the instances of this family enumerate every position and outcome for these sizes)" clause="setUnion step: less => A's element emitted; equal => A's element emitted once, both advance; greater => B's element emitted; when one side is exhausted the rest of the other is appended in order" timeout=300 replay=sort_stable
    #[kani::proof]
    #[kani::unwind(8)]
    fn set_union_3_2_at_2_0_equal() { two_pointer_at(W::Union, 3, 2, 2, 0, ord_of(1)); }
    //@harness props=C17,C01 quickfor=C17 strength=bounded tier=thorough bound="ONE execution: sets of 3 and 2 elements, positions (2, 0), comparison outcome greater (the instances of this family enumerate every position and outcome for these sizes)" clause="setUnion step: less => A's element emitted; equal => A's element emitted once, both advance; greater => B's element emitted; when one side is exhausted the rest of the other is appended in order" timeout=300 replay=sort_stable
    #[kani::proof]
    #[kani::unwind(8)]
    fn set_union_3_2_at_2_0_greater() { two_pointer_at(W::Union, 3, 2, 2, 0, ord_of(2)); }
    //@harness props=C17,C01 quickfor=C17 strength=bounded tier=thorough bound="ONE execution: sets of 3 and 2 elements, positions (2, 1), comparison outcome less (the instances of this family enumerate every position and outcome for these sizes)" clause="setUnion step: less => A's element emitted; equal => A's element emitted once, both advance; greater => B's element emitted; when one side is exhausted the rest of the other is appended in order" timeout=300 replay=sort_stable
    #[kani::proof]
    #[kani::unwind(8)]
    fn set_union_3_2_at_2_1_less() { two_pointer_at(W::Union, 3, 2, 2, 1, ord_of(0)); }
    //@harness props=C17,C01 quickfor=C17 strength=bounded tier=thorough bound="ONE execution: sets of 3 and 2 elements, positions (2, 1), comparison outcome equal (the instances of this family enumerate every position and outcome for these sizes)" clause="setUnion step: less => A's element emitted; equal => A's element emitted once, both advance; greater => B's element emitted; when one side is exhausted the rest of the other is appended in order" timeout=300 replay=sort_stable
    #[kani::proof]
    #[kani::unwind(8)]
    fn set_union_3_2_at_2_1_equal() { two_pointer_at(W::Union, 3, 2, 2, 1, ord_of(1)); }
    //@harness props=C17,C01 quickfor=C17 strength=bounded tier=thorough bound="ONE execution: sets of 3 and 2 elements, positions (2, 1), comparison outcome greater (the instances of this family enumerate every position and outcome for these sizes)" clause="setUnion step: less => A's element emitted; equal => A's element emitted once, both advance; greater => B's element emitted; when one side is exhausted the rest of the other is appended in order" timeout=300 replay=sort_stable
    #[kani::proof]
    #[kani::unwind(8)]
    fn set_union_3_2_at_2_1_greater() { two_pointer_at(W::Union, 3, 2, 2, 1, ord_of(2)); }
    //@harness props=C17,C01 quickfor=C17 strength=bounded tier=thorough bound="ONE execution: sets of 1 and 3 elements, positions (0, 0), comparison outcome less (the instances of this family enumerate every position and outcome for these sizes)" clause="setUnion step: less => A's element emitted; equal => A's element emitted once, both advance; greater => B's element emitted; when one side is exhausted the rest of the other is appended in order" timeout=300 replay=sort_stable
    #[kani::proof]
    #[kani::unwind(8)]
    fn set_union_1_3_at_0_0_less() { two_pointer_at(W::Union, 1, 3, 0, 0, ord_of(0)); }
    //@harness props=C17,C01 quickfor=C17 strength=bounded tier=thorough bound="ONE execution: sets of 1 and 3 elements, positions (0, 0), comparison outcome equal (the instances of this family enumerate every position and outcome for these sizes)" clause="setUnion step: less => A's element emitted; equal => A's element emitted once, both advance; greater => B's element emitted; when one side is exhausted the rest of the other is appended in order" timeout=300 replay=sort_stable
    #[kani::proof]
    #[kani::unwind(8)]
    fn set_union_1_3_at_0_0_equal() { two_pointer_at(W::Union, 1, 3, 0, 0, ord_of(1)); }
    //@harness props=C17,C01 quickfor=C17 strength=bounded tier=thorough bound="ONE execution: sets of 1 and 3 elements, positions (0, 0), comparison outcome greater (the instances of this family enumerate every position and outcome for these sizes)" clause="setUnion step: less => A's element emitted; equal => A's element emitted once, both advance; greater => B's element emitted; when one side is exhausted the rest of the other is appended in order" timeout=300 replay=sort_stable
    #[kani::proof]
    #[kani::unwind(8)]
    fn set_union_1_3_at_0_0_greater() { two_pointer_at(W::Union, 1, 3, 0, 0, ord_of(2)); }
    //@harness props=C17,C01 quickfor=C17 strength=bounded tier=thorough bound="ONE execution: sets of 1 and 3 elements, positions (0, 1), comparison outcome less (the instances of this family enumerate every position and outcome for these sizes)" clause="setUnion step: less => A's element emitted; equal => A's element emitted once, both advance; greater => B's element emitted; when one side is exhausted the rest of the other is appended in order" timeout=300 replay=sort_stable
    #[kani::proof]
    #[kani::unwind(8)]
    fn set_union_1_3_at_0_1_less() { two_pointer_at(W::Union, 1, 3, 0, 1, ord_of(0)); }
    //@harness props=C17,C01 quickfor=C17 strength=bounded tier=thorough bound="ONE execution: sets of 1 and 3 elements, positions (0, 1), comparison outcome equal (the instances of this family enumerate every position and outcome for these sizes)" clause="setUnion step: less => A's element emitted; equal => A's element emitted once, both advance; greater => B's element emitted; when one side is exhausted the rest of the other is appended in order" timeout=300 replay=sort_stable
    #[kani::proof]
    #[kani::unwind(8)]
    fn set_union_1_3_at_0_1_equal() { two_pointer_at(W::Union, 1, 3, 0, 1, ord_of(1)); }
    //@harness props=C17,C01 quickfor=C17 strength=bounded tier=thorough bound="ONE execution: sets of 1 and 3 elements, positions (0, 1), comparison outcome greater (the instances of this family enumerate every position and outcome for these sizes)" clause="setUnion step: less => A's element emitted; equal => A's element emitted once, both advance; greater => B's element emitted; when one side is exhausted the rest of the other is appended in order" timeout=300 replay=sort_stable
    #[kani::proof]
    #[kani::unwind(8)]
    fn set_union_1_3_at_0_1_greater() { two_pointer_at(W::Union, 1, 3, 0, 1, ord_of(2)); }
    //@harness props=C17,C01 quickfor=C17 strength=bounded tier=thorough bound="ONE execution: sets of 1 and 3 elements, positions (0, 2), comparison outcome less (the instances of this family enumerate every position and outcome for these sizes)" clause="setUnion step: less => A's element emitted; equal => A's element emitted once, both advance; greater => B's element emitted; when one side is exhausted the rest of the other is appended in order" timeout=300 replay=sort_stable
    #[kani::proof]
    #[kani::unwind(8)]
    fn set_union_1_3_at_0_2_less() { two_pointer_at(W::Union, 1, 3, 0, 2, ord_of(0)); }
    //@harness props=C17,C01 quickfor=C17 strength=bounded tier=thorough bound="ONE execution: sets of 1 and 3 elements, positions (0, 2), comparison outcome equal (the instances of this family enumerate every position and outcome for these sizes)" clause="setUnion step: less => A's element emitted; equal => A's element emitted once, both advance; greater => B's element emitted; when one side is exhausted the rest of the other is appended in order" timeout=300 replay=sort_stable
    #[kani::proof]
    #[kani::unwind(8)]
    fn set_union_1_3_at_0_2_equal() { two_pointer_at(W::Union, 1, 3, 0, 2, ord_of(1)); }
    //@harness props=C17,C01 quickfor=C17 strength=bounded tier=thorough bound="ONE execution: sets of 1 and 3 elements, positions (0, 2), comparison outcome greater (the instances of this family enumerate every position and outcome for these sizes)" clause="setUnion step: less => A's element emitted; equal => A's element emitted once, both advance; greater => B's element emitted; when one side is exhausted the rest of the other is appended in order" timeout=300 replay=sort_stable
    #[kani::proof]
    #[kani::unwind(8)]
    fn set_union_1_3_at_0_2_greater() { two_pointer_at(W::Union, 1, 3, 0, 2, ord_of(2)); }
    //@harness props=C17,C01 quickfor=C17 strength=bounded tier=thorough bound="ONE execution: sets of 3 and 1 elements, positions (0, 0), comparison outcome less (the instances of this family enumerate every position and outcome for these sizes)" clause="setUnion step: less => A's element emitted; equal => A's element emitted once, both advance; greater => B's element emitted; when one side is exhausted the rest of the other is appended in order" timeout=300 replay=sort_stable
    #[kani::proof]
    #[kani::unwind(8)]
    fn set_union_3_1_at_0_0_less() { two_pointer_at(W::Union, 3, 1, 0, 0, ord_of(0)); }
    //@harness props=C17,C01 quickfor=C17 strength=bounded tier=thorough bound="ONE execution: sets of 3 and 1 elements, positions (0, 0), comparison outcome equal (the instances of this family enumerate every position and outcome for these sizes)" clause="setUnion step: less => A's element emitted; equal => A's element emitted once, both advance; greater => B's element emitted; when one side is exhausted the rest of the other is appended in order" timeout=300 replay=sort_stable
    #[kani::proof]
    #[kani::unwind(8)]
    fn set_union_3_1_at_0_0_equal() { two_pointer_at(W::Union, 3, 1, 0, 0, ord_of(1)); }
    //@harness props=C17,C01 quickfor=C17 strength=bounded tier=thorough bound="ONE execution: sets of 3 and 1 elements, positions (0, 0), comparison outcome greater (the instances of this family enumerate every position and outcome for these sizes)" clause="setUnion step: less => A's element emitted; equal => A's element emitted once, both advance; greater => B's element emitted; when one side is exhausted the rest of the other is appended in order" timeout=300 replay=sort_stable
    #[kani::proof]
    #[kani::unwind(8)]
    fn set_union_3_1_at_0_0_greater() { two_pointer_at(W::Union, 3, 1, 0, 0, ord_of(2)); }
    //@harness props=C17,C01 quickfor=C17 strength=bounded tier=thorough bound="ONE execution: sets of 3 and 1 elements, positions (1, 0), comparison outcome less (the instances of this family enumerate every position and outcome for these sizes)" clause="setUnion step: less => A's element emitted; equal => A's element emitted once, both advance; greater => B's element emitted; when one side is exhausted the rest of the other is appended in order" timeout=300 replay=sort_stable
    #[kani::proof]
    #[kani::unwind(8)]
    fn set_union_3_1_at_1_0_less() { two_pointer_at(W::Union, 3, 1, 1, 0, ord_of(0)); }
    //@harness props=C17,C01 quickfor=C17 strength=bounded tier=thorough bound="ONE execution: sets of 3 and 1 elements, positions (1, 0), comparison outcome equal (the instances of this family enumerate every position and outcome for these sizes)" clause="setUnion step: less => A's element emitted; equal => A's element emitted once, both advance; greater => B's element emitted; when one side is exhausted the rest of the other is appended in order" timeout=300 replay=sort_stable
    #[kani::proof]
    #[kani::unwind(8)]
    fn set_union_3_1_at_1_0_equal() { two_pointer_at(W::Union, 3, 1, 1, 0, ord_of(1)); }
    //@harness props=C17,C01 quickfor=C17 strength=bounded tier=thorough bound="ONE execution: sets of 3 and 1 elements, positions (1, 0), comparison outcome greater (the instances of this family enumerate every position and outcome for these sizes)" clause="setUnion step: less => A's element emitted; equal => A's element emitted once, both advance; greater => B's element emitted; when one side is exhausted the rest of the other is appended in order" timeout=300 replay=sort_stable
    #[kani::proof]
    #[kani::unwind(8)]
    fn set_union_3_1_at_1_0_greater() { two_pointer_at(W::Union, 3, 1, 1, 0, ord_of(2)); }
    //@harness props=C17,C01 quickfor=C17 strength=bounded tier=thorough bound="ONE execution: sets of 3 and 1 elements, positions (2, 0), comparison outcome less (the instances of this family enumerate every position and outcome for these sizes)" clause="setUnion step: less => A's element emitted; equal => A's element emitted once, both advance; greater => B's element emitted; when one side is exhausted the rest of the other is appended in order" timeout=300 replay=sort_stable
    #[kani::proof]
    #[kani::unwind(8)]
    fn set_union_3_1_at_2_0_less() { two_pointer_at(W::Union, 3, 1, 2, 0, ord_of(0)); }
    //@harness props=C17,C01 quickfor=C17 strength=bounded tier=thorough bound="ONE execution: sets of 3 and 1 elements, positions (2, 0), comparison outcome equal (the instances of this family enumerate every position and outcome for these sizes)" clause="setUnion step: less => A's element emitted; equal => A's element emitted once, both advance; greater => B's element emitted; when one side is exhausted the rest of the other is appended in order" timeout=300 replay=sort_stable
    #[kani::proof]
    #[kani::unwind(8)]
    fn set_union_3_1_at_2_0_equal() { two_pointer_at(W::Union, 3, 1, 2, 0, ord_of(1)); }
    //@harness props=C17,C01 quickfor=C17 strength=bounded tier=thorough bound="ONE execution: sets of 3 and 1 elements, positions (2, 0), comparison outcome greater (the instances of this family enumerate every position and outcome for these sizes)" clause="setUnion step: less => A's element emitted; equal => A's element emitted once, both advance; greater => B's element emitted; when one side is exhausted the rest of the other is appended in order" timeout=300 replay=sort_stable
    #[kani::proof]
    #[kani::unwind(8)]
    fn set_union_3_1_at_2_0_greater() { two_pointer_at(W::Union, 3, 1, 2, 0, ord_of(2)); }
    //@harness props=C17,C01 quickfor=C17 strength=bounded bound="ONE execution: sets of 2 and 2 elements, positions (0, 0), comparison outcome less (the instances of this family enumerate every position and outcome for these sizes)" clause="setDiff step: less => A's element emitted; equal => dropped, both advance; greater => B advances; when B is exhausted the rest of A is appended, when A is exhausted the walk ends" timeout=300 replay=sort_stable
    #[kani::proof]
    #[kani::unwind(8)]
    fn set_diff_2_2_at_0_0_less() { two_pointer_at(W::Diff, 2, 2, 0, 0, ord_of(0)); }
    //@harness props=C17,C01 quickfor=C17 strength=bounded bound="ONE execution: sets of 2 and 2 elements, positions (0, 0), comparison outcome equal (the instances of this family enumerate every position and outcome for these sizes)" clause="setDiff step: less => A's element emitted; equal => dropped, both advance; greater => B advances; when B is exhausted the rest of A is appended, when A is exhausted the walk ends" timeout=300 replay=sort_stable
    #[kani::proof]
    #[kani::unwind(8)]
    fn set_diff_2_2_at_0_0_equal() { two_pointer_at(W::Diff, 2, 2, 0, 0, ord_of(1)); }
    //@harness props=C17,C01 quickfor=C17 strength=bounded bound="ONE execution: sets of 2 and 2 elements, positions (0, 0), comparison outcome greater (the instances of this family enumerate every position and outcome for these sizes)" clause="setDiff step: less => A's element emitted; equal => dropped, both advance; greater => B advances; when B is exhausted the rest of A is appended, when A is exhausted the walk ends" timeout=300 replay=sort_stable
    #[kani::proof]
    #[kani::unwind(8)]
    fn set_diff_2_2_at_0_0_greater() { two_pointer_at(W::Diff, 2, 2, 0, 0, ord_of(2)); }
    //@harness props=C17,C01 quickfor=C17 strength=bounded bound="ONE execution: sets of 2 and 2 elements, positions (0, 1), comparison outcome less (the instances of this family enumerate every position and outcome for these sizes)" clause="setDiff step: less => A's element emitted; equal => dropped, both advance; greater => B advances; when B is exhausted the rest of A is appended, when A is exhausted the walk ends" timeout=300 replay=sort_stable
    #[kani::proof]
    #[kani::unwind(8)]
    fn set_diff_2_2_at_0_1_less() { two_pointer_at(W::Diff, 2, 2, 0, 1, ord_of(0)); }
    //@harness props=C17,C01 quickfor=C17 strength=bounded bound="ONE execution: sets of 2 and 2 elements, positions (0, 1), comparison outcome equal (the instances of this family enumerate every position and outcome for these sizes)" clause="setDiff step: less => A's element emitted; equal => dropped, both advance; greater => B advances; when B is exhausted the rest of A is appended, when A is exhausted the walk ends" timeout=300 replay=sort_stable
    #[kani::proof]
    #[kani::unwind(8)]
    fn set_diff_2_2_at_0_1_equal() { two_pointer_at(W::Diff, 2, 2, 0, 1, ord_of(1)); }
    //@harness props=C17,C01 quickfor=C17 strength=bounded bound="ONE execution: sets of 2 and 2 elements, positions (0, 1), comparison outcome greater (the instances of this family enumerate every position and outcome for these sizes)" clause="setDiff step: less => A's element emitted; equal => dropped, both advance; greater => B advances; when B is exhausted the rest of A is appended, when A is exhausted the walk ends" timeout=300 replay=sort_stable
    #[kani::proof]
    #[kani::unwind(8)]
    fn set_diff_2_2_at_0_1_greater() { two_pointer_at(W::Diff, 2, 2, 0, 1, ord_of(2)); }
    //@harness props=C17,C01 quickfor=C17 strength=bounded bound="ONE execution: sets of 2 and 2 elements, positions (1, 0), comparison outcome less (the instances of this family enumerate every position and outcome for these sizes)" clause="setDiff step: less => A's element emitted; equal => dropped, both advance; greater => B advances; when B is exhausted the rest of A is appended, when A is exhausted the walk ends" timeout=300 replay=sort_stable
    #[kani::proof]
    #[kani::unwind(8)]
    fn set_diff_2_2_at_1_0_less() { two_pointer_at(W::Diff, 2, 2, 1, 0, ord_of(0)); }
    //@harness props=C17,C01 quickfor=C17 strength=bounded bound="ONE execution: sets of 2 and 2 elements, positions (1, 0), comparison outcome equal (the instances of this family enumerate every position and outcome for these sizes)" clause="setDiff step: less => A's element emitted; equal => dropped, both advance; greater => B advances; when B is exhausted the rest of A is appended, when A is exhausted the walk ends" timeout=300 replay=sort_stable
    #[kani::proof]
    #[kani::unwind(8)]
    fn set_diff_2_2_at_1_0_equal() { two_pointer_at(W::Diff, 2, 2, 1, 0, ord_of(1)); }
    //@harness props=C17,C01 quickfor=C17 strength=bounded bound="ONE execution: sets of 2 and 2 elements, positions (1, 0), comparison outcome greater (the instances of this family enumerate every position and outcome for these sizes)" clause="setDiff step: less => A's element emitted; equal => dropped, both advance; greater => B advances; when B is exhausted the rest of A is appended, when A is exhausted the walk ends" timeout=300 replay=sort_stable
    #[kani::proof]
    #[kani::unwind(8)]
    fn set_diff_2_2_at_1_0_greater() { two_pointer_at(W::Diff, 2, 2, 1, 0, ord_of(2)); }
    //@harness props=C17,C01 quickfor=C17 strength=bounded bound="ONE execution: sets of 2 and 2 elements, positions (1, 1), comparison outcome less (the instances of this family enumerate every position and outcome for these sizes)" clause="setDiff step: less => A's element emitted; equal => dropped, both advance; greater => B advances; when B is exhausted the rest of A is appended, when A is exhausted the walk ends" timeout=300 replay=sort_stable
    #[kani::proof]
    #[kani::unwind(8)]
    fn set_diff_2_2_at_1_1_less() { two_pointer_at(W::Diff, 2, 2, 1, 1, ord_of(0)); }
    //@harness props=C17,C01 quickfor=C17 strength=bounded bound="ONE execution: sets of 2 and 2 elements, positions (1, 1), comparison outcome equal (the instances of this family enumerate every position and outcome for these sizes)" clause="setDiff step: less => A's element emitted; equal => dropped, both advance; greater => B advances; when B is exhausted the rest of A is appended, when A is exhausted the walk ends" timeout=300 replay=sort_stable
    #[kani::proof]
    #[kani::unwind(8)]
    fn set_diff_2_2_at_1_1_equal() { two_pointer_at(W::Diff, 2, 2, 1, 1, ord_of(1)); }
    //@harness props=C17,C01 quickfor=C17 strength=bounded bound="ONE execution: sets of 2 and 2 elements, positions (1, 1), comparison outcome greater (the instances of this family enumerate every position and outcome for these sizes)" clause="setDiff step: less => A's element emitted; equal => dropped, both advance; greater => B advances; when B is exhausted the rest of A is appended, when A is exhausted the walk ends" timeout=300 replay=sort_stable
    #[kani::proof]
    #[kani::unwind(8)]
    fn set_diff_2_2_at_1_1_greater() { two_pointer_at(W::Diff, 2, 2, 1, 1, ord_of(2)); }
    //@harness props=C17,C01 quickfor=C17 strength=bounded tier=thorough bound="ONE execution: sets of 1 and 2 elements, positions (0, 0), comparison outcome less (the instances of this family enumerate every position and outcome for these sizes)" clause="setDiff step: less => A's element emitted; equal => dropped, both advance; greater => B advances; when B is exhausted the rest of A is appended, when A is exhausted the walk ends" timeout=300 replay=sort_stable
    #[kani::proof]
    #[kani::unwind(8)]
    fn set_diff_1_2_at_0_0_less() { two_pointer_at(W::Diff, 1, 2, 0, 0, ord_of(0)); }
    //@harness props=C17,C01 quickfor=C17 strength=bounded tier=thorough bound="ONE execution: sets of 1 and 2 elements, positions (0, 0), comparison outcome equal (the instances of this family enumerate every position and outcome for these sizes)" clause="setDiff step: less => A's element emitted; equal => dropped, both advance; greater => B advances; when B is exhausted the rest of A is appended, when A is exhausted the walk ends" timeout=300 replay=sort_stable
    #[kani::proof]
    #[kani::unwind(8)]
    fn set_diff_1_2_at_0_0_equal() { two_pointer_at(W::Diff, 1, 2, 0, 0, ord_of(1)); }
    //@harness props=C17,C01 quickfor=C17 strength=bounded tier=thorough bound="ONE execution: sets of 1 and 2 elements, positions (0, 0), comparison outcome greater (the instances of this family enumerate every position and outcome for these sizes)" clause="setDiff step: less => A's element emitted; equal => dropped, both advance; greater => B advances; when B is exhausted the rest of A is appended, when A is exhausted the walk ends" timeout=300 replay=sort_stable
    #[kani::proof]
    #[kani::unwind(8)]
    fn set_diff_1_2_at_0_0_greater() { two_pointer_at(W::Diff, 1, 2, 0, 0, ord_of(2)); }
    //@harness props=C17,C01 quickfor=C17 strength=bounded tier=thorough bound="ONE execution: sets of 1 and 2 elements, positions (0, 1), comparison outcome less (the instances of this family enumerate every position and outcome for these sizes)" clause="setDiff step: less => A's element emitted; equal => dropped, both advance; greater => B advances; when B is exhausted the rest of A is appended, when A is exhausted the walk ends" timeout=300 replay=sort_stable
    #[kani::proof]
    #[kani::unwind(8)]
    fn set_diff_1_2_at_0_1_less() { two_pointer_at(W::Diff, 1, 2, 0, 1, ord_of(0)); }
    //@harness props=C17,C01 quickfor=C17 strength=bounded tier=thorough bound="ONE execution: sets of 1 and 2 elements, positions (0, 1), comparison outcome equal (the instances of this family enumerate every position and outcome for these sizes)" clause="setDiff step: less => A's element emitted; equal => dropped, both advance; greater => B advances; when B is exhausted the rest of A is appended, when A is exhausted the walk ends" timeout=300 replay=sort_stable
    #[kani::proof]
    #[kani::unwind(8)]
    fn set_diff_1_2_at_0_1_equal() { two_pointer_at(W::Diff, 1, 2, 0, 1, ord_of(1)); }
    //@harness props=C17,C01 quickfor=C17 strength=bounded tier=thorough bound="ONE execution: sets of 1 and 2 elements, positions (0, 1), comparison outcome greater (the instances of this family enumerate every position and outcome for these sizes)" clause="setDiff step: less => A's element emitted; equal => dropped, both advance; greater => B advances; when B is exhausted the rest of A is appended, when A is exhausted the walk ends" timeout=300 replay=sort_stable
    #[kani::proof]
    #[kani::unwind(8)]
    fn set_diff_1_2_at_0_1_greater() { two_pointer_at(W::Diff, 1, 2, 0, 1, ord_of(2)); }
    //@harness props=C17,C01 quickfor=C17 strength=bounded tier=thorough bound="ONE execution: sets of 2 and 1 elements, positions (0, 0), comparison outcome less (the instances of this family enumerate every position and outcome for these sizes)" clause="setDiff step: less => A's element emitted; equal => dropped, both advance; greater => B advances; when B is exhausted the rest of A is appended, when A is exhausted the walk ends" timeout=300 replay=sort_stable
    #[kani::proof]
    #[kani::unwind(8)]
    fn set_diff_2_1_at_0_0_less() { two_pointer_at(W::Diff, 2, 1, 0, 0, ord_of(0)); }
    //@harness props=C17,C01 quickfor=C17 strength=bounded tier=thorough bound="ONE execution: sets of 2 and 1 elements, positions (0, 0), comparison outcome equal (the instances of this family enumerate every position and outcome for these sizes)" clause="setDiff step: less => A's element emitted; equal => dropped, both advance; greater => B advances; when B is exhausted the rest of A is appended, when A is exhausted the walk ends" timeout=300 replay=sort_stable
    #[kani::proof]
    #[kani::unwind(8)]
    fn set_diff_2_1_at_0_0_equal() { two_pointer_at(W::Diff, 2, 1, 0, 0, ord_of(1)); }
    //@harness props=C17,C01 quickfor=C17 strength=bounded tier=thorough bound="ONE execution: sets of 2 and 1 elements, positions (0, 0), comparison outcome greater (the instances of this family enumerate every position and outcome for these sizes)" clause="setDiff step: less => A's element emitted; equal => dropped, both advance; greater => B advances; when B is exhausted the rest of A is appended, when A is exhausted the walk ends" timeout=300 replay=sort_stable
    #[kani::proof]
    #[kani::unwind(8)]
    fn set_diff_2_1_at_0_0_greater() { two_pointer_at(W::Diff, 2, 1, 0, 0, ord_of(2)); }
    //@harness props=C17,C01 quickfor=C17 strength=bounded tier=thorough bound="ONE execution: sets of 2 and 1 elements, positions (1, 0), comparison outcome less (the instances of this family enumerate every position and outcome for these sizes)" clause="setDiff step: less => A's element emitted; equal => dropped, both advance; greater => B advances; when B is exhausted the rest of A is appended, when A is exhausted the walk ends" timeout=300 replay=sort_stable
    #[kani::proof]
    #[kani::unwind(8)]
    fn set_diff_2_1_at_1_0_less() { two_pointer_at(W::Diff, 2, 1, 1, 0, ord_of(0)); }
    //@harness props=C17,C01 quickfor=C17 strength=bounded tier=thorough bound="ONE execution: sets of 2 and 1 elements, positions (1, 0), comparison outcome equal (the instances of this family enumerate every position and outcome for these sizes)" clause="setDiff step: less => A's element emitted; equal => dropped, both advance; greater => B advances; when B is exhausted the rest of A is appended, when A is exhausted the walk ends" timeout=300 replay=sort_stable
    #[kani::proof]
    #[kani::unwind(8)]
    fn set_diff_2_1_at_1_0_equal() { two_pointer_at(W::Diff, 2, 1, 1, 0, ord_of(1)); }
    //@harness props=C17,C01 quickfor=C17 strength=bounded tier=thorough bound="ONE execution: sets of 2 and 1 elements, positions (1, 0), comparison outcome greater (the instances of this family enumerate every position and outcome for these sizes)" clause="setDiff step: less => A's element emitted; equal => dropped, both advance; greater => B advances; when B is exhausted the rest of A is appended, when A is exhausted the walk ends" timeout=300 replay=sort_stable
    #[kani::proof]
    #[kani::unwind(8)]
    fn set_diff_2_1_at_1_0_greater() { two_pointer_at(W::Diff, 2, 1, 1, 0, ord_of(2)); }
    //@harness props=C17,C01 quickfor=C17 strength=bounded tier=thorough bound="ONE execution: sets of 3 and 3 elements, positions (0, 0), comparison outcome less (the instances of this family enumerate every position and outcome for these sizes)" clause="setDiff step: less => A's element emitted; equal => dropped, both advance; greater => B advances; when B is exhausted the rest of A is appended, when A is exhausted the walk ends" timeout=300 replay=sort_stable
    #[kani::proof]
    #[kani::unwind(8)]
    fn set_diff_3_3_at_0_0_less() { two_pointer_at(W::Diff, 3, 3, 0, 0, ord_of(0)); }
    //@harness props=C17,C01 quickfor=C17 strength=bounded tier=thorough bound="ONE execution: sets of 3 and 3 elements, positions (0, 0), comparison outcome equal (the instances of this family enumerate every position and outcome for these sizes)" clause="setDiff step: less => A's element emitted; equal => dropped, both advance; greater => B advances; when B is exhausted the rest of A is appended, when A is exhausted the walk ends" timeout=300 replay=sort_stable
    #[kani::proof]
    #[kani::unwind(8)]
    fn set_diff_3_3_at_0_0_equal() { two_pointer_at(W::Diff, 3, 3, 0, 0, ord_of(1)); }
    //@harness props=C17,C01 quickfor=C17 strength=bounded tier=thorough bound="ONE execution: sets of 3 and 3 elements, positions (0, 0), comparison outcome greater (the instances of this family enumerate every position and outcome for these sizes)" clause="setDiff step: less => A's element emitted; equal => dropped, both advance; greater => B advances; when B is exhausted the rest of A is appended, when A is exhausted the walk ends" timeout=300 replay=sort_stable
    #[kani::proof]
    #[kani::unwind(8)]
    fn set_diff_3_3_at_0_0_greater() { two_pointer_at(W::Diff, 3, 3, 0, 0, ord_of(2)); }
    //@harness props=C17,C01 quickfor=C17 strength=bounded tier=thorough bound="ONE execution: sets of 3 and 3 elements, positions (0, 1), comparison outcome less (the instances of this family enumerate every position and outcome for these sizes)" clause="setDiff step: less => A's element emitted; equal => dropped, both advance; greater => B advances; when B is exhausted the rest of A is appended, when A is exhausted the walk ends" timeout=300 replay=sort_stable
    #[kani::proof]
    #[kani::unwind(8)]
    fn set_diff_3_3_at_0_1_less() { two_pointer_at(W::Diff, 3, 3, 0, 1, ord_of(0)); }
    //@harness props=C17,C01 quickfor=C17 strength=bounded tier=thorough bound="ONE execution: sets of 3 and 3 elements, positions (0, 1), comparison outcome equal (the instances of this family enumerate every position and outcome for these sizes)" clause="setDiff step: less => A's element emitted; equal => dropped, both advance; greater => B advances; when B is exhausted the rest of A is appended, when A is exhausted the walk ends" timeout=300 replay=sort_stable
    #[kani::proof]
    #[kani::unwind(8)]
    fn set_diff_3_3_at_0_1_equal() { two_pointer_at(W::Diff, 3, 3, 0, 1, ord_of(1)); }
    //@harness props=C17,C01 quickfor=C17 strength=bounded tier=thorough bound="ONE execution: sets of 3 and 3 elements, positions (0, 1), comparison outcome greater (the instances of this family enumerate every position and outcome for these sizes)" clause="setDiff step: less => A's element emitted; equal => dropped, both advance; greater => B advances; when B is exhausted the rest of A is appended, when A is exhausted the walk ends" timeout=300 replay=sort_stable
    #[kani::proof]
    #[kani::unwind(8)]
    fn set_diff_3_3_at_0_1_greater() { two_pointer_at(W::Diff, 3, 3, 0, 1, ord_of(2)); }
    //@harness props=C17,C01 quickfor=C17 strength=bounded tier=thorough bound="ONE execution: sets of 3 and 3 elements, positions (0, 2), comparison outcome less (the instances of this family enumerate every position and outcome for these sizes)" clause="setDiff step: less => A's element emitted; equal => dropped, both advance; greater => B advances; when B is exhausted the rest of A is appended, when A is exhausted the walk ends" timeout=300 replay=sort_stable
    #[kani::proof]
    #[kani::unwind(8)]
    fn set_diff_3_3_at_0_2_less() { two_pointer_at(W::Diff, 3, 3, 0, 2, ord_of(0)); }
    //@harness props=C17,C01 quickfor=C17 strength=bounded tier=thorough bound="ONE execution: sets of 3 and 3 elements, positions (0, 2), comparison outcome equal (the instances of this family enumerate every position and outcome for these sizes)" clause="setDiff step: less => A's element emitted; equal => dropped, both advance; greater => B advances; when B is exhausted the rest of A is appended, when A is exhausted the walk ends" timeout=300 replay=sort_stable
    #[kani::proof]
    #[kani::unwind(8)]
    fn set_diff_3_3_at_0_2_equal() { two_pointer_at(W::Diff, 3, 3, 0, 2, ord_of(1)); }
    //@harness props=C17,C01 quickfor=C17 strength=bounded tier=thorough bound="ONE execution: sets of 3 and 3 elements, positions (0, 2), comparison outcome greater (the instances of this family enumerate every position and outcome for these sizes)" clause="setDiff step: less => A's element emitted; equal => dropped, both advance; greater => B advances; when B is exhausted the rest of A is appended, when A is exhausted the walk ends" timeout=300 replay=sort_stable
    #[kani::proof]
    #[kani::unwind(8)]
    fn set_diff_3_3_at_0_2_greater() { two_pointer_at(W::Diff, 3, 3, 0, 2, ord_of(2)); }
    //@harness props=C17,C01 quickfor=C17 strength=bounded tier=thorough bound="ONE execution: sets of 3 and 3 elements, positions (1, 0), comparison outcome less (the instances of this family enumerate every position and outcome for these sizes)" clause="setDiff step: less => A's element emitted; equal => dropped, both advance; greater => B advances; when B is exhausted the rest of A is appended, when A is exhausted the walk ends" timeout=300 replay=sort_stable
    #[kani::proof]
    #[kani::unwind(8)]
    fn set_diff_3_3_at_1_0_less() { two_pointer_at(W::Diff, 3, 3, 1, 0, ord_of(0)); }
    //@harness props=C17,C01 quickfor=C17 strength=bounded tier=thorough bound="ONE execution: sets of 3 and 3 elements, positions (1, 0), comparison outcome equal (the instances of this family enumerate every position and outcome for these sizes)" clause="setDiff step: less => A's element emitted; equal => dropped, both advance; greater => B advances; when B is exhausted the rest of A is appended, when A is exhausted the walk ends" timeout=300 replay=sort_stable
    #[kani::proof]
    #[kani::unwind(8)]
    fn set_diff_3_3_at_1_0_equal() { two_pointer_at(W::Diff, 3, 3, 1, 0, ord_of(1)); }
    //@harness props=C17,C01 quickfor=C17 strength=bounded tier=thorough bound="ONE execution: sets of 3 and 3 elements, positions (1, 0), comparison outcome greater (the instances of this family enumerate every position and outcome for these sizes)" clause="setDiff step: less => A's element emitted; equal => dropped, both advance; greater => B advances; when B is exhausted the rest of A is appended, when A is exhausted the walk ends" timeout=300 replay=sort_stable
    #[kani::proof]
    #[kani::unwind(8)]
    fn set_diff_3_3_at_1_0_greater() { two_pointer_at(W::Diff, 3, 3, 1, 0, ord_of(2)); }
    //@harness props=C17,C01 quickfor=C17 strength=bounded tier=thorough bound="ONE execution: sets of 3 and 3 elements, positions (1, 1), comparison outcome less (the instances of this family enumerate every position and outcome for these sizes)" clause="setDiff step: less => A's element emitted; equal => dropped, both advance; greater => B advances; when B is exhausted the rest of A is appended, when A is exhausted the walk ends" timeout=300 replay=sort_stable
    #[kani::proof]
    #[kani::unwind(8)]
    fn set_diff_3_3_at_1_1_less() { two_pointer_at(W::Diff, 3, 3, 1, 1, ord_of(0)); }
    //@harness props=C17,C01 quickfor=C17 strength=bounded tier=thorough bound="ONE execution: sets of 3 and 3 elements, positions (1, 1), comparison outcome equal (the instances of this family enumerate every position and outcome for these sizes)" clause="setDiff step: less => A's element emitted; equal => dropped, both advance; greater => B advances; when B is exhausted the rest of A is appended, when A is exhausted the walk ends" timeout=300 replay=sort_stable
    #[kani::proof]
    #[kani::unwind(8)]
    fn set_diff_3_3_at_1_1_equal() { two_pointer_at(W::Diff, 3, 3, 1, 1, ord_of(1)); }
    //@harness props=C17,C01 quickfor=C17 strength=bounded tier=thorough bound="ONE execution: sets of 3 and 3 elements, positions (1, 1), comparison outcome greater (the instances of this family enumerate every position and outcome for these sizes)" clause="setDiff step: less => A's element emitted; equal => dropped, both advance; greater => B advances; when B is exhausted the rest of A is appended, when A is exhausted the walk ends" timeout=300 replay=sort_stable
    #[kani::proof]
    #[kani::unwind(8)]
    fn set_diff_3_3_at_1_1_greater() { two_pointer_at(W::Diff, 3, 3, 1, 1, ord_of(2)); }
    //@harness props=C17,C01 quickfor=C17 strength=bounded tier=thorough bound="ONE execution: sets of 3 and 3 elements, positions (1, 2), comparison outcome less (the instances of this family enumerate every position and outcome for these sizes)" clause="setDiff step: less => A's element emitted; equal => dropped, both advance; greater => B advances; when B is exhausted the rest of A is appended, when A is exhausted the walk ends" timeout=300 replay=sort_stable
    #[kani::proof]
    #[kani::unwind(8)]
    fn set_diff_3_3_at_1_2_less() { two_pointer_at(W::Diff, 3, 3, 1, 2, ord_of(0)); }
    //@harness props=C17,C01 quickfor=C17 strength=bounded tier=thorough bound="ONE execution: sets of 3 and 3 elements, positions (1, 2), comparison outcome equal (the instances of this family enumerate every position and outcome for these sizes)" clause="setDiff step: less => A's element emitted; equal => dropped, both advance; greater => B advances; when B is exhausted the rest of A is appended, when A is exhausted the walk ends" timeout=300 replay=sort_stable
    #[kani::proof]
    #[kani::unwind(8)]
    fn set_diff_3_3_at_1_2_equal() { two_pointer_at(W::Diff, 3, 3, 1, 2, ord_of(1)); }
    //@harness props=C17,C01 quickfor=C17 strength=bounded tier=thorough bound="ONE execution: sets of 3 and 3 elements, positions (1, 2), comparison outcome greater (the instances of this family enumerate every position and outcome for these sizes)" clause="setDiff step: less => A's element emitted; equal => dropped, both advance; greater => B advances; when B is exhausted the rest of A is appended, when A is exhausted the walk ends" timeout=300 replay=sort_stable
    #[kani::proof]
    #[kani::unwind(8)]
    fn set_diff_3_3_at_1_2_greater() { two_pointer_at(W::Diff, 3, 3, 1, 2, ord_of(2)); }
    //@harness props=C17,C01 quickfor=C17 strength=bounded tier=thorough bound="ONE execution: sets of 3 and 3 elements, positions (2, 0), comparison outcome less (the instances of this family enumerate every position and outcome for these sizes)" clause="setDiff step: less => A's element emitted; equal => dropped, both advance; greater => B advances; when B is exhausted the rest of A is appended, when A is exhausted the walk ends" timeout=300 replay=sort_stable
    #[kani::proof]
    #[kani::unwind(8)]
    fn set_diff_3_3_at_2_0_less() { two_pointer_at(W::Diff, 3, 3, 2, 0, ord_of(0)); }
    //@harness props=C17,C01 quickfor=C17 strength=bounded tier=thorough bound="ONE execution: sets of 3 and 3 elements, positions (2, 0), comparison outcome equal (the instances of this family enumerate every position and outcome for these sizes)" clause="setDiff step: less => A's element emitted; equal => dropped, both advance; greater => B advances; when B is exhausted the rest of A is appended, when A is exhausted the walk ends" timeout=300 replay=sort_stable
    #[kani::proof]
    #[kani::unwind(8)]
    fn set_diff_3_3_at_2_0_equal() { two_pointer_at(W::Diff, 3, 3, 2, 0, ord_of(1)); }
    //@harness props=C17,C01 quickfor=C17 strength=bounded tier=thorough bound="ONE execution: sets of 3 and 3 elements, positions (2, 0), comparison outcome greater (the instances of this family enumerate every position and outcome for these sizes)" clause="setDiff step: less => A's element emitted; equal => dropped, both advance; greater => B advances; when B is exhausted the rest of A is appended, when A is exhausted the walk ends" timeout=300 replay=sort_stable
    #[kani::proof]
    #[kani::unwind(8)]
    fn set_diff_3_3_at_2_0_greater() { two_pointer_at(W::Diff, 3, 3, 2, 0, ord_of(2)); }
    //@harness props=C17,C01 quickfor=C17 strength=bounded tier=thorough bound="ONE execution: sets of 3 and 3 elements, positions (2, 1), comparison outcome less (the instances of this family enumerate every position and outcome for these sizes)" clause="setDiff step: less => A's element emitted; equal => dropped, both advance; greater => B advances; when B is exhausted the rest of A is appended, when A is exhausted the walk ends" timeout=300 replay=sort_stable
    #[kani::proof]
    #[kani::unwind(8)]
    fn set_diff_3_3_at_2_1_less() { two_pointer_at(W::Diff, 3, 3, 2, 1, ord_of(0)); }
    //@harness props=C17,C01 quickfor=C17 strength=bounded tier=thorough bound="ONE execution: sets of 3 and 3 elements, positions (2, 1), comparison outcome equal (the instances of this family enumerate every position and outcome for these sizes)" clause="setDiff step: less => A's element emitted; equal => dropped, both advance; greater => B advances; when B is exhausted the rest of A is appended, when A is exhausted the walk ends" timeout=300 replay=sort_stable
    #[kani::proof]
    #[kani::unwind(8)]
    fn set_diff_3_3_at_2_1_equal() { two_pointer_at(W::Diff, 3, 3, 2, 1, ord_of(1)); }
    //@harness props=C17,C01 quickfor=C17 strength=bounded tier=thorough bound="ONE execution: sets of 3 and 3 elements, positions (2, 1), comparison outcome greater (the instances of this family enumerate every position and outcome for these sizes)" clause="setDiff step: less => A's element emitted; equal => dropped, both advance; greater => B advances; when B is exhausted the rest of A is appended, when A is exhausted the walk ends" timeout=300 replay=sort_stable
    #[kani::proof]
    #[kani::unwind(8)]
    fn set_diff_3_3_at_2_1_greater() { two_pointer_at(W::Diff, 3, 3, 2, 1, ord_of(2)); }
    //@harness props=C17,C01 quickfor=C17 strength=bounded tier=thorough bound="ONE execution: sets of 3 and 3 elements, positions (2, 2), comparison outcome less (the instances of this family enumerate every position and outcome for these sizes)" clause="setDiff step: less => A's element emitted; equal => dropped, both advance; greater => B advances; when B is exhausted the rest of A is appended, when A is exhausted the walk ends" timeout=300 replay=sort_stable
    #[kani::proof]
    #[kani::unwind(8)]
    fn set_diff_3_3_at_2_2_less() { two_pointer_at(W::Diff, 3, 3, 2, 2, ord_of(0)); }
    //@harness props=C17,C01 quickfor=C17 strength=bounded tier=thorough bound="ONE execution: sets of 3 and 3 elements, positions (2, 2), comparison outcome equal (the instances of this family enumerate every position and outcome for these sizes)" clause="setDiff step: less => A's element emitted; equal => dropped, both advance; greater => B advances; when B is exhausted the rest of A is appended, when A is exhausted the walk ends" timeout=300 replay=sort_stable
    #[kani::proof]
    #[kani::unwind(8)]
    fn set_diff_3_3_at_2_2_equal() { two_pointer_at(W::Diff, 3, 3, 2, 2, ord_of(1)); }
    //@harness props=C17,C01 quickfor=C17 strength=bounded tier=thorough bound="ONE execution: sets of 3 and 3 elements, positions (2, 2), comparison outcome greater (the instances of this family enumerate every position and outcome for these sizes)" clause="setDiff step: less => A's element emitted; equal => dropped, both advance; greater => B advances; when B is exhausted the rest of A is appended, when A is exhausted the walk ends" timeout=300 replay=sort_stable
    #[kani::proof]
    #[kani::unwind(8)]
    fn set_diff_3_3_at_2_2_greater() { two_pointer_at(W::Diff, 3, 3, 2, 2, ord_of(2)); }
    //@harness props=C17,C01 quickfor=C17 strength=bounded tier=thorough bound="ONE execution: sets of 1 and 1 elements, positions (0, 0), comparison outcome less (the instances of this family enumerate every position and outcome for these sizes)" clause="setDiff step: less => A's element emitted; equal => dropped, both advance; greater => B advances; when B is exhausted the rest of A is appended, when A is exhausted the walk ends" timeout=300 replay=sort_stable
    #[kani::proof]
    #[kani::unwind(8)]
    fn set_diff_1_1_at_0_0_less() { two_pointer_at(W::Diff, 1, 1, 0, 0, ord_of(0)); }
    //@harness props=C17,C01 quickfor=C17 strength=bounded tier=thorough bound="ONE execution: sets of 1 and 1 elements, positions (0, 0), comparison outcome equal (the instances of this family enumerate every position and outcome for these sizes)" clause="setDiff step: less => A's element emitted; equal => dropped, both advance; greater => B advances; when B is exhausted the rest of A is appended, when A is exhausted the walk ends" timeout=300 replay=sort_stable
    #[kani::proof]
    #[kani::unwind(8)]
    fn set_diff_1_1_at_0_0_equal() { two_pointer_at(W::Diff, 1, 1, 0, 0, ord_of(1)); }
    //@harness props=C17,C01 quickfor=C17 strength=bounded tier=thorough bound="ONE execution: sets of 1 and 1 elements, positions (0, 0), comparison outcome greater (the instances of this family enumerate every position and outcome for these sizes)" clause="setDiff step: less => A's element emitted; equal => dropped, both advance; greater => B advances; when B is exhausted the rest of A is appended, when A is exhausted the walk ends" timeout=300 replay=sort_stable
    #[kani::proof]
    #[kani::unwind(8)]
    fn set_diff_1_1_at_0_0_greater() { two_pointer_at(W::Diff, 1, 1, 0, 0, ord_of(2)); }
    //@harness props=C17,C01 quickfor=C17 strength=bounded tier=thorough bound="ONE execution: sets of 2 and 3 elements, positions (0, 0), comparison outcome less (the instances of this family enumerate every position and outcome for these sizes)" clause="setDiff step: less => A's element emitted; equal => dropped, both advance; greater => B advances; when B is exhausted the rest of A is appended, when A is exhausted the walk ends" timeout=300 replay=sort_stable
    #[kani::proof]
    #[kani::unwind(8)]
    fn set_diff_2_3_at_0_0_less() { two_pointer_at(W::Diff, 2, 3, 0, 0, ord_of(0)); }
    //@harness props=C17,C01 quickfor=C17 strength=bounded tier=thorough bound="ONE execution: sets of 2 and 3 elements, positions (0, 0), comparison outcome equal (the instances of this family enumerate every position and outcome for these sizes)" clause="setDiff step: less => A's element emitted; equal => dropped, both advance; greater => B advances; when B is exhausted the rest of A is appended, when A is exhausted the walk ends" timeout=300 replay=sort_stable
    #[kani::proof]
    #[kani::unwind(8)]
    fn set_diff_2_3_at_0_0_equal() { two_pointer_at(W::Diff, 2, 3, 0, 0, ord_of(1)); }
    //@harness props=C17,C01 quickfor=C17 strength=bounded tier=thorough bound="ONE execution: sets of 2 and 3 elements, positions (0, 0), comparison outcome greater (the instances of this family enumerate every position and outcome for these sizes)" clause="setDiff step: less => A's element emitted; equal => dropped, both advance; greater => B advances; when B is exhausted the rest of A is appended, when A is exhausted the walk ends" timeout=300 replay=sort_stable
    #[kani::proof]
    #[kani::unwind(8)]
    fn set_diff_2_3_at_0_0_greater() { two_pointer_at(W::Diff, 2, 3, 0, 0, ord_of(2)); }
    //@harness props=C17,C01 quickfor=C17 strength=bounded tier=thorough bound="ONE execution: sets of 2 and 3 elements, positions (0, 1), comparison outcome less (the instances of this family enumerate every position and outcome for these sizes)" clause="setDiff step: less => A's element emitted; equal => dropped, both advance; greater => B advances; when B is exhausted the rest of A is appended, when A is exhausted the walk ends" timeout=300 replay=sort_stable
    #[kani::proof]
    #[kani::unwind(8)]
    fn set_diff_2_3_at_0_1_less() { two_pointer_at(W::Diff, 2, 3, 0, 1, ord_of(0)); }
    //@harness props=C17,C01 quickfor=C17 strength=bounded tier=thorough bound="ONE execution: sets of 2 and 3 elements, positions (0, 1), comparison outcome equal (the instances of this family enumerate every position and outcome for these sizes)" clause="setDiff step: less => A's element emitted; equal => dropped, both advance; greater => B advances; when B is exhausted the rest of A is appended, when A is exhausted the walk ends" timeout=300 replay=sort_stable
    #[kani::proof]
    #[kani::unwind(8)]
    fn set_diff_2_3_at_0_1_equal() { two_pointer_at(W::Diff, 2, 3, 0, 1, ord_of(1)); }
    //@harness props=C17,C01 quickfor=C17 strength=bounded tier=thorough bound="ONE execution: sets of 2 and 3 elements, positions (0, 1), comparison outcome greater (the instances of this family enumerate every position and outcome for these sizes)" clause="setDiff step: less => A's element emitted; equal => dropped, both advance; greater => B advances; when B is exhausted the rest of A is appended, when A is exhausted the walk ends" timeout=300 replay=sort_stable
    #[kani::proof]
    #[kani::unwind(8)]
    fn set_diff_2_3_at_0_1_greater() { two_pointer_at(W::Diff, 2, 3, 0, 1, ord_of(2)); }
    //@harness props=C17,C01 quickfor=C17 strength=bounded tier=thorough bound="ONE execution: sets of 2 and 3 elements, positions (0, 2), comparison outcome less (the instances of this family enumerate every position and outcome for these sizes)" clause="setDiff step: less => A's element emitted; equal => dropped, both advance; greater => B advances; when B is exhausted the rest of A is appended, when A is exhausted the walk ends" timeout=300 replay=sort_stable
    #[kani::proof]
    #[kani::unwind(8)]
    fn set_diff_2_3_at_0_2_less() { two_pointer_at(W::Diff, 2, 3, 0, 2, ord_of(0)); }
    //@harness props=C17,C01 quickfor=C17 strength=bounded tier=thorough bound="ONE execution: sets of 2 and 3 elements, positions (0, 2), comparison outcome equal (the instances of this family enumerate every position and outcome for these sizes)" clause="setDiff step: less => A's element emitted; equal => dropped, both advance; greater => B advances; when B is exhausted the rest of A is appended, when A is exhausted the walk ends" timeout=300 replay=sort_stable
    #[kani::proof]
    #[kani::unwind(8)]
    fn set_diff_2_3_at_0_2_equal() { two_pointer_at(W::Diff, 2, 3, 0, 2, ord_of(1)); }
    //@harness props=C17,C01 quickfor=C17 strength=bounded tier=thorough bound="ONE execution: sets of 2 and 3 elements, positions (0, 2), comparison outcome greater (the instances of this family enumerate every position and outcome for these sizes)" clause="setDiff step: less => A's element emitted; equal => dropped, both advance; greater => B advances; when B is exhausted the rest of A is appended, when A is exhausted the walk ends" timeout=300 replay=sort_stable
    #[kani::proof]
    #[kani::unwind(8)]
    fn set_diff_2_3_at_0_2_greater() { two_pointer_at(W::Diff, 2, 3, 0, 2, ord_of(2)); }
    //@harness props=C17,C01 quickfor=C17 strength=bounded tier=thorough bound="ONE execution: sets of 2 and 3 elements, positions (1, 0), comparison outcome less (the instances of this family enumerate every position and outcome for these sizes)" clause="setDiff step: less => A's element emitted; equal => dropped, both advance; greater => B advances; when B is exhausted the rest of A is appended, when A is exhausted the walk ends" timeout=300 replay=sort_stable
    #[kani::proof]
    #[kani::unwind(8)]
    fn set_diff_2_3_at_1_0_less() { two_pointer_at(W::Diff, 2, 3, 1, 0, ord_of(0)); }
    //@harness props=C17,C01 quickfor=C17 strength=bounded tier=thorough bound="ONE execution: sets of 2 and 3 elements, positions (1, 0), comparison outcome equal (the instances of this family enumerate every position and outcome for these sizes)" clause="setDiff step: less => A's element emitted; equal => dropped, both advance; greater => B advances; when B is exhausted the rest of A is appended, when A is exhausted the walk ends" timeout=300 replay=sort_stable
    #[kani::proof]
    #[kani::unwind(8)]
    fn set_diff_2_3_at_1_0_equal() { two_pointer_at(W::Diff, 2, 3, 1, 0, ord_of(1)); }
    //@harness props=C17,C01 quickfor=C17 strength=bounded tier=thorough bound="ONE execution: sets of 2 and 3 elements, positions (1, 0), comparison outcome greater (the instances of this family enumerate every position and outcome for these sizes)" clause="setDiff step: less => A's element emitted; equal => dropped, both advance; greater => B advances; when B is exhausted the rest of A is appended, when A is exhausted the walk ends" timeout=300 replay=sort_stable
    #[kani::proof]
    #[kani::unwind(8)]
    fn set_diff_2_3_at_1_0_greater() { two_pointer_at(W::Diff, 2, 3, 1, 0, ord_of(2)); }
    //@harness props=C17,C01 quickfor=C17 strength=bounded tier=thorough bound="ONE execution: sets of 2 and 3 elements, positions (1, 1), comparison outcome less (the instances of this family enumerate every position and outcome for these sizes)" clause="setDiff step: less => A's element emitted; equal => dropped, both advance; greater => B advances; when B is exhausted the rest of A is appended, when A is exhausted the walk ends" timeout=300 replay=sort_stable
    #[kani::proof]
    #[kani::unwind(8)]
    fn set_diff_2_3_at_1_1_less() { two_pointer_at(W::Diff, 2, 3, 1, 1, ord_of(0)); }
    //@harness props=C17,C01 quickfor=C17 strength=bounded tier=thorough bound="ONE execution: sets of 2 and 3 elements, positions (1, 1), comparison outcome equal (the instances of this family enumerate every position and outcome for these sizes)" clause="setDiff step: less => A's element emitted; equal => dropped, both advance; greater => B advances; when B is exhausted the rest of A is appended, when A is exhausted the walk ends" timeout=300 replay=sort_stable
    #[kani::proof]
    #[kani::unwind(8)]
    fn set_diff_2_3_at_1_1_equal() { two_pointer_at(W::Diff, 2, 3, 1, 1, ord_of(1)); }
    //@harness props=C17,C01 quickfor=C17 strength=bounded tier=thorough bound="ONE execution: sets of 2 and 3 elements, positions (1, 1), comparison outcome greater (the instances of this family enumerate every position and outcome for these sizes)" clause="setDiff step: less => A's element emitted; equal => dropped, both advance; greater => B advances; when B is exhausted the rest of A is appended, when A is exhausted the walk ends" timeout=300 replay=sort_stable
    #[kani::proof]
    #[kani::unwind(8)]
    fn set_diff_2_3_at_1_1_greater() { two_pointer_at(W::Diff, 2, 3, 1, 1, ord_of(2)); }
    //@harness props=C17,C01 quickfor=C17 strength=bounded tier=thorough bound="ONE execution: sets of 2 and 3 elements, positions (1, 2), comparison outcome less (the instances of this family enumerate every position and outcome for these sizes)" clause="setDiff step: less => A's element emitted; equal => dropped, both advance; greater => B advances; when B is exhausted the rest of A is appended, when A is exhausted the walk ends" timeout=300 replay=sort_stable
    #[kani::proof]
    #[kani::unwind(8)]
    fn set_diff_2_3_at_1_2_less() { two_pointer_at(W::Diff, 2, 3, 1, 2, ord_of(0)); }
    //@harness props=C17,C01 quickfor=C17 strength=bounded tier=thorough bound="ONE execution: sets of 2 and 3 elements, positions (1, 2), comparison outcome equal (the instances of this family enumerate every position and outcome for these sizes)" clause="setDiff step: less => A's element emitted; equal => dropped, both advance; greater => B advances; when B is exhausted the rest of A is appended, when A is exhausted the walk ends" timeout=300 replay=sort_stable
    #[kani::proof]
    #[kani::unwind(8)]
    fn set_diff_2_3_at_1_2_equal() { two_pointer_at(W::Diff, 2, 3, 1, 2, ord_of(1)); }
    //@harness props=C17,C01 quickfor=C17 strength=bounded tier=thorough bound="ONE execution: sets of 2 and 3 elements, positions (1, 2), comparison outcome greater (the instances of this family enumerate every position and outcome for these sizes)" clause="setDiff step: less => A's element emitted; equal => dropped, both advance; greater => B advances; when B is exhausted the rest of A is appended, when A is exhausted the walk ends" timeout=300 replay=sort_stable
    #[kani::proof]
    #[kani::unwind(8)]
    fn set_diff_2_3_at_1_2_greater() { two_pointer_at(W::Diff, 2, 3, 1, 2, ord_of(2)); }
    //@harness props=C17,C01 quickfor=C17 strength=bounded tier=thorough bound="ONE execution: sets of 3 and 2 elements, positions (0, 0), comparison outcome less (the instances of this family enumerate every position and outcome for these sizes)" clause="setDiff step: less => A's element emitted; equal => dropped, both advance; greater => B advances; when B is exhausted the rest of A is appended, when A is exhausted the walk ends" timeout=300 replay=sort_stable
    #[kani::proof]
    #[kani::unwind(8)]
    fn set_diff_3_2_at_0_0_less() { two_pointer_at(W::Diff, 3, 2, 0, 0, ord_of(0)); }
    //@harness props=C17,C01 quickfor=C17 strength=bounded tier=thorough bound="ONE execution: sets of 3 and 2 elements, positions (0, 0), comparison outcome equal (the instances of this family enumerate every position and outcome for these sizes)" clause="setDiff step: less => A's element emitted; equal => dropped, both advance; greater => B advances; when B is exhausted the rest of A is appended, when A is exhausted the walk ends" timeout=300 replay=sort_stable
    #[kani::proof]
    #[kani::unwind(8)]
    fn set_diff_3_2_at_0_0_equal() { two_pointer_at(W::Diff, 3, 2, 0, 0, ord_of(1)); }
    //@harness props=C17,C01 quickfor=C17 strength=bounded tier=thorough bound="ONE execution: sets of 3 and 2 elements, positions (0, 0), comparison outcome greater (the instances of this family enumerate every position and outcome for these sizes)" clause="setDiff step: less => A's element emitted; equal => dropped, both advance; greater => B advances; when B is exhausted the rest of A is appended, when A is exhausted the walk ends" timeout=300 replay=sort_stable
    #[kani::proof]
    #[kani::unwind(8)]
    fn set_diff_3_2_at_0_0_greater() { two_pointer_at(W::Diff, 3, 2, 0, 0, ord_of(2)); }
    //@harness props=C17,C01 quickfor=C17 strength=bounded tier=thorough bound="ONE execution: sets of 3 and 2 elements, positions (0, 1), comparison outcome less (the instances of this family enumerate every position and outcome for these sizes)" clause="setDiff step: less => A's element emitted; equal => dropped, both advance; greater => B advances; when B is exhausted the rest of A is appended, when A is exhausted the walk ends" timeout=300 replay=sort_stable
    #[kani::proof]
    #[kani::unwind(8)]
    fn set_diff_3_2_at_0_1_less() { two_pointer_at(W::Diff, 3, 2, 0, 1, ord_of(0)); }
    //@harness props=C17,C01 quickfor=C17 strength=bounded tier=thorough bound="ONE execution: sets of 3 and 2 elements, positions (0, 1), comparison outcome equal (the instances of this family enumerate every position and outcome for these sizes)" clause="setDiff step: less => A's element emitted; equal => dropped, both advance; greater => B advances; when B is exhausted the rest of A is appended, when A is exhausted the walk ends" timeout=300 replay=sort_stable
    #[kani::proof]
    #[kani::unwind(8)]
    fn set_diff_3_2_at_0_1_equal() { two_pointer_at(W::Diff, 3, 2, 0, 1, ord_of(1)); }
    //@harness props=C17,C01 quickfor=C17 strength=bounded tier=thorough bound="ONE execution: sets of 3 and 2 elements, positions (0, 1), comparison outcome greater (the instances of this family enumerate every position and outcome for these sizes)" clause="setDiff step: less => A's element emitted; equal => dropped, both advance; greater => B advances; when B is exhausted the rest of A is appended, when A is exhausted the walk ends" timeout=300 replay=sort_stable
    #[kani::proof]
    #[kani::unwind(8)]
    fn set_diff_3_2_at_0_1_greater() { two_pointer_at(W::Diff, 3, 2, 0, 1, ord_of(2)); }
    //@harness props=C17,C01 quickfor=C17 strength=bounded tier=thorough bound="ONE execution: sets of 3 and 2 elements, positions (1, 0), comparison outcome less (the instances of this family enumerate every position and outcome for these sizes)" clause="setDiff step: less => A's element emitted; equal => dropped, both advance; greater => B advances; when B is exhausted the rest of A is appended, when A is exhausted the walk ends" timeout=300 replay=sort_stable
    #[kani::proof]
    #[kani::unwind(8)]
    fn set_diff_3_2_at_1_0_less() { two_pointer_at(W::Diff, 3, 2, 1, 0, ord_of(0)); }
    //@harness props=C17,C01 quickfor=C17 strength=bounded tier=thorough bound="ONE execution: sets of 3 and 2 elements, positions (1, 0), comparison outcome equal (the instances of this family enumerate every position and outcome for these sizes)" clause="setDiff step: less => A's element emitted; equal => dropped, both advance; greater => B advances; when B is exhausted the rest of A is appended, when A is exhausted the walk ends" timeout=300 replay=sort_stable
    #[kani::proof]
    #[kani::unwind(8)]
    fn set_diff_3_2_at_1_0_equal() { two_pointer_at(W::Diff, 3, 2, 1, 0, ord_of(1)); }
    //@harness props=C17,C01 quickfor=C17 strength=bounded tier=thorough bound="ONE execution: sets of 3 and 2 elements, positions (1, 0), comparison outcome greater (the instances of this family enumerate every position and outcome for these sizes)" clause="setDiff step: less => A's element emitted; equal => dropped, both advance; greater => B advances; when B is exhausted the rest of A is appended, when A is exhausted the walk ends" timeout=300 replay=sort_stable
    #[kani::proof]
    #[kani::unwind(8)]
    fn set_diff_3_2_at_1_0_greater() { two_pointer_at(W::Diff, 3, 2, 1, 0, ord_of(2)); }
    //@harness props=C17,C01 quickfor=C17 strength=bounded tier=thorough bound="ONE execution: sets of 3 and 2 elements, positions (1, 1), comparison outcome less (the instances of this family enumerate every position and outcome for these sizes)" clause="setDiff step: less => A's element emitted; equal => dropped, both advance; greater => B advances; when B is exhausted the rest of A is appended, when A is exhausted the walk ends" timeout=300 replay=sort_stable
    #[kani::proof]
    #[kani::unwind(8)]
    fn set_diff_3_2_at_1_1_less() { two_pointer_at(W::Diff, 3, 2, 1, 1, ord_of(0)); }
    //@harness props=C17,C01 quickfor=C17 strength=bounded tier=thorough bound="ONE execution: sets of 3 and 2 elements, positions (1, 1), comparison outcome equal (the instances of this family enumerate every position and outcome for these sizes)" clause="setDiff step: less => A's element emitted; equal => dropped, both advance; greater => B advances; when B is exhausted the rest of A is appended, when A is exhausted the walk ends" timeout=300 replay=sort_stable
    #[kani::proof]
    #[kani::unwind(8)]
    fn set_diff_3_2_at_1_1_equal() { two_pointer_at(W::Diff, 3, 2, 1, 1, ord_of(1)); }
    //@harness props=C17,C01 quickfor=C17 strength=bounded tier=thorough bound="ONE execution: sets of 3 and 2 elements, positions (1, 1), comparison outcome greater (the instances of this family enumerate every position and outcome for these sizes)" clause="setDiff step: less => A's element emitted; equal => dropped, both advance; greater => B advances; when B is exhausted the rest of A is appended, when A is exhausted the walk ends" timeout=300 replay=sort_stable
    #[kani::proof]
    #[kani::unwind(8)]
    fn set_diff_3_2_at_1_1_greater() { two_pointer_at(W::Diff, 3, 2, 1, 1, ord_of(2)); }
    //@harness props=C17,C01 quickfor=C17 strength=bounded tier=thorough bound="ONE execution: sets of 3 and 2 elements, positions (2, 0), comparison outcome less (the instances of this family enumerate every position and outcome for these sizes)" clause="setDiff step: less => A's element emitted; equal => dropped, both advance; greater => B advances; when B is exhausted the rest of A is appended, when A is exhausted the walk ends" timeout=300 replay=sort_stable
    #[kani::proof]
    #[kani::unwind(8)]
    fn set_diff_3_2_at_2_0_less() { two_pointer_at(W::Diff, 3, 2, 2, 0, ord_of(0)); }
    //@harness props=C17,C01 quickfor=C17 strength=bounded tier=thorough bound="ONE execution: sets of 3 and 2 elements, positions (2, 0), comparison outcome equal (the instances of this family enumerate every position and outcome for these sizes)" clause="setDiff step: less => A's element emitted; equal => dropped, both advance; greater => B advances; when B is exhausted the rest of A is appended, when A is exhausted the walk ends" timeout=300 replay=sort_stable
    #[kani::proof]
    #[kani::unwind(8)]
    fn set_diff_3_2_at_2_0_equal() { two_pointer_at(W::Diff, 3, 2, 2, 0, ord_of(1)); }
    //@harness props=C17,C01 quickfor=C17 strength=bounded tier=thorough bound="ONE execution: sets of 3 and 2 elements, positions (2, 0), comparison outcome greater (the instances of this family enumerate every position and outcome for these sizes)" clause="setDiff step: less => A's element emitted; equal => dropped, both advance; greater => B advances; when B is exhausted the rest of A is appended, when A is exhausted the walk ends" timeout=300 replay=sort_stable
    #[kani::proof]
    #[kani::unwind(8)]
    fn set_diff_3_2_at_2_0_greater() { two_pointer_at(W::Diff, 3, 2, 2, 0, ord_of(2)); }
    //@harness props=C17,C01 quickfor=C17 strength=bounded tier=thorough bound="ONE execution: sets of 3 and 2 elements, positions (2, 1), comparison outcome less (the instances of this family enumerate every position and outcome for these sizes)" clause="setDiff step: less => A's element emitted; equal => dropped, both advance; greater => B advances; when B is exhausted the rest of A is appended, when A is exhausted the walk ends" timeout=300 replay=sort_stable
    #[kani::proof]
    #[kani::unwind(8)]
    fn set_diff_3_2_at_2_1_less() { two_pointer_at(W::Diff, 3, 2, 2, 1, ord_of(0)); }
    //@harness props=C17,C01 quickfor=C17 strength=bounded tier=thorough bound="ONE execution: sets of 3 and 2 elements, positions (2, 1), comparison outcome equal (the instances of this family enumerate every position and outcome for these sizes)" clause="setDiff step: less => A's element emitted; equal => dropped, both advance; greater => B advances; when B is exhausted the rest of A is appended, when A is exhausted the walk ends" timeout=300 replay=sort_stable
    #[kani::proof]
    #[kani::unwind(8)]
    fn set_diff_3_2_at_2_1_equal() { two_pointer_at(W::Diff, 3, 2, 2, 1, ord_of(1)); }
    //@harness props=C17,C01 quickfor=C17 strength=bounded tier=thorough bound="ONE execution: sets of 3 and 2 elements, positions (2, 1), comparison outcome greater (the instances of this family enumerate every position and outcome for these sizes)" clause="setDiff step: less => A's element emitted; equal => dropped, both advance; greater => B advances; when B is exhausted the rest of A is appended, when A is exhausted the walk ends" timeout=300 replay=sort_stable
    #[kani::proof]
    #[kani::unwind(8)]
    fn set_diff_3_2_at_2_1_greater() { two_pointer_at(W::Diff, 3, 2, 2, 1, ord_of(2)); }
    //@harness props=C17,C01 quickfor=C17 strength=bounded tier=thorough bound="ONE execution: sets of 1 and 3 elements, positions (0, 0), comparison outcome less (the instances of this family enumerate every position and outcome for these sizes)" clause="setDiff step: less => A's element emitted; equal => dropped, both advance; greater => B advances; when B is exhausted the rest of A is appended, when A is exhausted the walk ends" timeout=300 replay=sort_stable
    #[kani::proof]
    #[kani::unwind(8)]
    fn set_diff_1_3_at_0_0_less() { two_pointer_at(W::Diff, 1, 3, 0, 0, ord_of(0)); }
    //@harness props=C17,C01 quickfor=C17 strength=bounded tier=thorough bound="ONE execution: sets of 1 and 3 elements, positions (0, 0), comparison outcome equal (the instances of this family enumerate every position and outcome for these sizes)" clause="setDiff step: less => A's element emitted; equal => dropped, both advance; greater => B advances; when B is exhausted the rest of A is appended, when A is exhausted the walk ends" timeout=300 replay=sort_stable
    #[kani::proof]
    #[kani::unwind(8)]
    fn set_diff_1_3_at_0_0_equal() { two_pointer_at(W::Diff, 1, 3, 0, 0, ord_of(1)); }
    //@harness props=C17,C01 quickfor=C17 strength=bounded tier=thorough bound="ONE execution: sets of 1 and 3 elements, positions (0, 0), comparison outcome greater (the instances of this family enumerate every position and outcome for these sizes)" clause="setDiff step: less => A's element emitted; equal => dropped, both advance; greater => B advances; when B is exhausted the rest of A is appended, when A is exhausted the walk ends" timeout=300 replay=sort_stable
    #[kani::proof]
    #[kani::unwind(8)]
    fn set_diff_1_3_at_0_0_greater() { two_pointer_at(W::Diff, 1, 3, 0, 0, ord_of(2)); }
    //@harness props=C17,C01 quickfor=C17 strength=bounded tier=thorough bound="ONE execution: sets of 1 and 3 elements, positions (0, 1), comparison outcome less (the instances of this family enumerate every position and outcome for these sizes)" clause="setDiff step: less => A's element emitted; equal => dropped, both advance; greater => B advances; when B is exhausted the rest of A is appended, when A is exhausted the walk ends" timeout=300 replay=sort_stable
    #[kani::proof]
    #[kani::unwind(8)]
    fn set_diff_1_3_at_0_1_less() { two_pointer_at(W::Diff, 1, 3, 0, 1, ord_of(0)); }
    //@harness props=C17,C01 quickfor=C17 strength=bounded tier=thorough bound="ONE execution: sets of 1 and 3 elements, positions (0, 1), comparison outcome equal (the instances of this family enumerate every position and outcome for these sizes)" clause="setDiff step: less => A's element emitted; equal => dropped, both advance; greater => B advances; when B is exhausted the rest of A is appended, when A is exhausted the walk ends" timeout=300 replay=sort_stable
    #[kani::proof]
    #[kani::unwind(8)]
    fn set_diff_1_3_at_0_1_equal() { two_pointer_at(W::Diff, 1, 3, 0, 1, ord_of(1)); }
    //@harness props=C17,C01 quickfor=C17 strength=bounded tier=thorough bound="ONE execution: sets of 1 and 3 elements, positions (0, 1), comparison outcome greater (the instances of this family enumerate every position and outcome for these sizes)" clause="setDiff step: less => A's element emitted; equal => dropped, both advance; greater => B advances; when B is exhausted the rest of A is appended, when A is exhausted the walk ends" timeout=300 replay=sort_stable
    #[kani::proof]
    #[kani::unwind(8)]
    fn set_diff_1_3_at_0_1_greater() { two_pointer_at(W::Diff, 1, 3, 0, 1, ord_of(2)); }
    //@harness props=C17,C01 quickfor=C17 strength=bounded tier=thorough bound="ONE execution: sets of 1 and 3 elements, positions (0, 2), comparison outcome less (the instances of this family enumerate every position and outcome for these sizes)" clause="setDiff step: less => A's element emitted; equal => dropped, both advance; greater => B advances; when B is exhausted the rest of A is appended, when A is exhausted the walk ends" timeout=300 replay=sort_stable
    #[kani::proof]
    #[kani::unwind(8)]
    fn set_diff_1_3_at_0_2_less() { two_pointer_at(W::Diff, 1, 3, 0, 2, ord_of(0)); }
    //@harness props=C17,C01 quickfor=C17 strength=bounded tier=thorough bound="ONE execution: sets of 1 and 3 elements, positions (0, 2), comparison outcome equal (the instances of this family enumerate every position and outcome for these sizes)" clause="setDiff step: less => A's element emitted; equal => dropped, both advance; greater => B advances; when B is exhausted the rest of A is appended, when A is exhausted the walk ends" timeout=300 replay=sort_stable
    #[kani::proof]
    #[kani::unwind(8)]
    fn set_diff_1_3_at_0_2_equal() { two_pointer_at(W::Diff, 1, 3, 0, 2, ord_of(1)); }
    //@harness props=C17,C01 quickfor=C17 strength=bounded tier=thorough bound="ONE execution: sets of 1 and 3 elements, positions (0, 2), comparison outcome greater (the instances of this family enumerate every position and outcome for these sizes)" clause="setDiff step: less => A's element emitted; equal => dropped, both advance; greater => B advances; when B is exhausted the rest of A is appended, when A is exhausted the walk ends" timeout=300 replay=sort_stable
    #[kani::proof]
    #[kani::unwind(8)]
    fn set_diff_1_3_at_0_2_greater() { two_pointer_at(W::Diff, 1, 3, 0, 2, ord_of(2)); }
    //@harness props=C17,C01 quickfor=C17 strength=bounded tier=thorough bound="ONE execution: sets of 3 and 1 elements, positions (0, 0), comparison outcome less (the instances of this family enumerate every position and outcome for these sizes)" clause="setDiff step: less => A's element emitted; equal => dropped, both advance; greater => B advances; when B is exhausted the rest of A is appended, when A is exhausted the walk ends" timeout=300 replay=sort_stable
    #[kani::proof]
    #[kani::unwind(8)]
    fn set_diff_3_1_at_0_0_less() { two_pointer_at(W::Diff, 3, 1, 0, 0, ord_of(0)); }
    //@harness props=C17,C01 quickfor=C17 strength=bounded tier=thorough bound="ONE execution: sets of 3 and 1 elements, positions (0, 0), comparison outcome equal (the instances of this family enumerate every position and outcome for these sizes)" clause="setDiff step: less => A's element emitted; equal => dropped, both advance; greater => B advances; when B is exhausted the rest of A is appended, when A is exhausted the walk ends" timeout=300 replay=sort_stable
    #[kani::proof]
    #[kani::unwind(8)]
    fn set_diff_3_1_at_0_0_equal() { two_pointer_at(W::Diff, 3, 1, 0, 0, ord_of(1)); }
    //@harness props=C17,C01 quickfor=C17 strength=bounded tier=thorough bound="ONE execution: sets of 3 and 1 elements, positions (0, 0), comparison outcome greater (the instances of this family enumerate every position and outcome for these sizes)" clause="setDiff step: less => A's element emitted; equal => dropped, both advance; greater => B advances; when B is exhausted the rest of A is appended, when A is exhausted the walk ends" timeout=300 replay=sort_stable
    #[kani::proof]
    #[kani::unwind(8)]
    fn set_diff_3_1_at_0_0_greater() { two_pointer_at(W::Diff, 3, 1, 0, 0, ord_of(2)); }
    //@harness props=C17,C01 quickfor=C17 strength=bounded tier=thorough bound="ONE execution: sets of 3 and 1 elements, positions (1, 0), comparison outcome less (the instances of this family enumerate every position and outcome for these sizes)" clause="setDiff step: less => A's element emitted; equal => dropped, both advance; greater => B advances; when B is exhausted the rest of A is appended, when A is exhausted the walk ends" timeout=300 replay=sort_stable
    #[kani::proof]
    #[kani::unwind(8)]
    fn set_diff_3_1_at_1_0_less() { two_pointer_at(W::Diff, 3, 1, 1, 0, ord_of(0)); }
    //@harness props=C17,C01 quickfor=C17 strength=bounded tier=thorough bound="ONE execution: sets of 3 and 1 elements, positions (1, 0), comparison outcome equal (the instances of this family enumerate every position and outcome for these sizes)" clause="setDiff step: less => A's element emitted; equal => dropped, both advance; greater => B advances; when B is exhausted the rest of A is appended, when A is exhausted the walk ends" timeout=300 replay=sort_stable
    #[kani::proof]
    #[kani::unwind(8)]
    fn set_diff_3_1_at_1_0_equal() { two_pointer_at(W::Diff, 3, 1, 1, 0, ord_of(1)); }
    //@harness props=C17,C01 quickfor=C17 strength=bounded tier=thorough bound="ONE execution: sets of 3 and 1 elements, positions (1, 0), comparison outcome greater (the instances of this family enumerate every position and outcome for these sizes)" clause="setDiff step: less => A's element emitted; equal => dropped, both advance; greater => B advances; when B is exhausted the rest of A is appended, when A is exhausted the walk ends" timeout=300 replay=sort_stable
    #[kani::proof]
    #[kani::unwind(8)]
    fn set_diff_3_1_at_1_0_greater() { two_pointer_at(W::Diff, 3, 1, 1, 0, ord_of(2)); }
    //@harness props=C17,C01 quickfor=C17 strength=bounded tier=thorough bound="ONE execution: sets of 3 and 1 elements, positions (2, 0), comparison outcome less (the instances of this family enumerate every position and outcome for these sizes)" clause="setDiff step: less => A's element emitted; equal => dropped, both advance; greater => B advances; when B is exhausted the rest of A is appended, when A is exhausted the walk ends" timeout=300 replay=sort_stable
    #[kani::proof]
    #[kani::unwind(8)]
    fn set_diff_3_1_at_2_0_less() { two_pointer_at(W::Diff, 3, 1, 2, 0, ord_of(0)); }
    //@harness props=C17,C01 quickfor=C17 strength=bounded tier=thorough bound="ONE execution: sets of 3 and 1 elements, positions (2, 0), comparison outcome equal (the instances of this family enumerate every position and outcome for these sizes)" clause="setDiff step: less => A's element emitted; equal => dropped, both advance; greater => B advances; when B is exhausted the rest of A is appended, when A is exhausted the walk ends" timeout=300 replay=sort_stable
    #[kani::proof]
    #[kani::unwind(8)]
    fn set_diff_3_1_at_2_0_equal() { two_pointer_at(W::Diff, 3, 1, 2, 0, ord_of(1)); }
    //@harness props=C17,C01 quickfor=C17 strength=bounded tier=thorough bound="ONE execution: sets of 3 and 1 elements, positions (2, 0), comparison outcome greater (the instances of this family enumerate every position and outcome for these sizes)" clause="setDiff step: less => A's element emitted; equal => dropped, both advance; greater => B advances; when B is exhausted the rest of A is appended, when A is exhausted the walk ends" timeout=300 replay=sort_stable
    #[kani::proof]
    #[kani::unwind(8)]
    fn set_diff_3_1_at_2_0_greater() { two_pointer_at(W::Diff, 3, 1, 2, 0, ord_of(2)); }
    // @@GEN-END two_pointer

    fn set_member(n: usize) {
        let (start, end): (usize, usize) = (kani::any(), kani::any());
        kani::assume(start <= end && end < n);
        let a = arr(1, n);
        let keyf = Gc::new(FuncData(0, PhantomData)).view();
        let mut e = ev();
        e.value_stack.push(ValueData::Number(7.0));      // key of x
        let r = e.do_std_set_member_slice(keyf.clone(), a.view(), start, end);
        assert!(r.is_ok() && e.state_stack.len() == 3 && e.value_stack.len() == 2 && e.value_stack[1] == ValueData::Number(7.0), "C17,C01:sortset:member-slice-stack-effect");
        let mid = match &e.state_stack[0] { State::StdSetMemberCheck { start: s, end: en, mid, .. } => { assert!(*s == start && *en == end, "C17:sortset:window-is-passed-on-unchanged"); *mid } _ => { assert!(false, "C17:sortset:probe-is-checked-next"); 0 } };
        assert!(start <= mid && mid <= end && mid == start + (end - start) / 2, "C17:sortset:probe-is-the-middle-of-the-window");
        assert!(matches!(e.state_stack[1], State::CompareValue) && is_key_call(&e.state_stack[2], 1, mid), "C17:sortset:key-of-the-probe-is-compared-with-x");
        // the check step
        let o = any_ord();
        let mut e2 = ev();
        e2.value_stack.push(ValueData::Number(7.0));
        e2.cmp_ord_stack.push(o);
        let r2 = e2.do_std_set_member_check(keyf, a.view(), start, end, mid);
        assert!(r2.is_ok() && e2.cmp_ord_stack.is_empty(), "C17,C01:sortset:member-check-stack-effect");
        let answered = e2.state_stack.is_empty();
        match o {
            Ordering::Equal => assert!(answered && e2.value_stack.len() == 1 && e2.value_stack[0] == ValueData::Bool(true), "C17:sortset:equal-key-means-member"),
            Ordering::Less => if mid == start { assert!(answered && e2.value_stack.len() == 1 && e2.value_stack[0] == ValueData::Bool(false), "C17:sortset:empty-left-window-means-not-member"); }
                              else { assert!(matches!(&e2.state_stack[0], State::StdSetMemberSlice { start: s, end: en, .. } if *s == start && *en == mid - 1) && e2.value_stack.len() == 1, "C17:sortset:search-continues-left-of-the-probe"); },
            Ordering::Greater => if mid == end { assert!(answered && e2.value_stack.len() == 1 && e2.value_stack[0] == ValueData::Bool(false), "C17:sortset:empty-right-window-means-not-member"); }
                                 else { assert!(matches!(&e2.state_stack[0], State::StdSetMemberSlice { start: s, end: en, .. } if *s == mid + 1 && *en == end) && e2.value_stack.len() == 1, "C17:sortset:search-continues-right-of-the-probe"); },
        }
        core::mem::forget(e); core::mem::forget(e2);
    }

    //@harness props=C17,C01 strength=bounded bound="array of 1 elements, any search window start <= mid <= end, any comparison outcome" clause="setMember binary search: the probe is the middle of the window; equal => true; x less than the probe => continue in [start, mid-1] or answer false when mid == start; greater => continue in [mid+1, end] or false when mid == end; the window always shrinks and stays inside the array" timeout=900 replay=sort_stable
    #[kani::proof]
    #[kani::unwind(7)]
    fn set_member_n1() { set_member(1); }
    //@harness props=C17,C01 strength=bounded bound="array of 2 elements, any search window start <= mid <= end, any comparison outcome" clause="setMember binary search: the probe is the middle of the window; equal => true; x less than the probe => continue in [start, mid-1] or answer false when mid == start; greater => continue in [mid+1, end] or false when mid == end; the window always shrinks and stays inside the array" timeout=900 replay=sort_stable
    #[kani::proof]
    #[kani::unwind(7)]
    fn set_member_n2() { set_member(2); }
    //@harness props=C17,C01 strength=bounded bound="array of 3 elements, any search window start <= mid <= end, any comparison outcome" clause="setMember binary search: the probe is the middle of the window; equal => true; x less than the probe => continue in [start, mid-1] or answer false when mid == start; greater => continue in [mid+1, end] or false when mid == end; the window always shrinks and stays inside the array" timeout=900 replay=sort_stable
    #[kani::proof]
    #[kani::unwind(7)]
    fn set_member_n3() { set_member(3); }
    //@harness props=C17,C01 strength=bounded bound="array of 4 elements, any search window start <= mid <= end, any comparison outcome" clause="setMember binary search: the probe is the middle of the window; equal => true; x less than the probe => continue in [start, mid-1] or answer false when mid == start; greater => continue in [mid+1, end] or false when mid == end; the window always shrinks and stays inside the array" timeout=900 replay=sort_stable
    #[kani::proof]
    #[kani::unwind(7)]
    fn set_member_n4() { set_member(4); }

    fn min_max_scan(n: usize) {
        let (cur, best): (usize, usize) = (kani::any(), kani::any());
        kani::assume(cur >= 1 && cur < n && best < cur);
        let is_min: bool = kani::any();
        let o = any_ord();
        let a = arr(1, n);
        let keyf = Gc::new(FuncData(0, PhantomData)).view();
        let mut e = ev();
        e.value_stack.push(ValueData::Number(100.0));   // key of best so far
        e.value_stack.push(ValueData::Number(200.0));   // key of current
        e.value_stack.push(ValueData::Number(100.0)); e.value_stack.push(ValueData::Number(200.0));   // the copies CompareValue consumed are gone; re-push what compare_item duplicated
        e.value_stack.pop(); e.value_stack.pop();
        e.cmp_ord_stack.push(o);               // ordering of (best key, current key)
        let r = if is_min { e.do_std_min_array_check_item(keyf, a.view(), cur, best) } else { e.do_std_max_array_check_item(keyf, a.view(), cur, best) };
        assert!(r.is_ok() && e.cmp_ord_stack.is_empty(), "C17,C01:sortset:scan-stack-effect");
        let improved = if is_min { o == Ordering::Greater } else { o == Ordering::Less };   // best > current (min) / best < current (max): strict
        let new_best = if improved { cur } else { best };
        let kept_key = if improved { 200.0 } else { 100.0 };
        if cur + 1 == n {
            assert!(e.value_stack.is_empty(), "C17:sortset:keys-are-dropped-at-the-end-of-the-scan");
            assert!(e.state_stack.len() == 1 && matches!(&e.state_stack[0], State::DoThunk(t) if t.src == 1 && t.idx == new_best), "C17:sortset:first-extremal-element-is-returned");
        } else {
            assert!(e.value_stack.len() == 1 && e.value_stack[0] == ValueData::Number(kept_key), "C17:sortset:key-of-the-best-so-far-is-kept");
            assert!(e.state_stack.len() == 2 && is_key_call(&e.state_stack[1], 1, cur + 1), "C17:sortset:next-element-key-is-requested");
            let ok = match &e.state_stack[0] {
                State::StdMinArrayCompareItem { cur_index, max_index, .. } => is_min && *cur_index == cur + 1 && *max_index == new_best,
                State::StdMaxArrayCompareItem { cur_index, max_index, .. } => !is_min && *cur_index == cur + 1 && *max_index == new_best,
                _ => false };
            assert!(ok, "C17:sortset:best-so-far-changes-only-on-strict-improvement");
        }
        core::mem::forget(e);
    }

    //@harness props=C17,C01 strength=bounded bound="array of 2 elements, any position, any comparison outcome" clause="minArray / maxArray scan step: the best-so-far changes only on a STRICT improvement (so the first minimal / maximal element is the one returned), its key stays on the stack and the other is dropped; after the last element the best element itself is evaluated, otherwise the next element's key is requested" timeout=900 replay=sort_stable
    #[kani::proof]
    #[kani::unwind(7)]
    fn min_max_scan_n2() { min_max_scan(2); }
    //@harness props=C17,C01 strength=bounded bound="array of 3 elements, any position, any comparison outcome" clause="minArray / maxArray scan step: the best-so-far changes only on a STRICT improvement (so the first minimal / maximal element is the one returned), its key stays on the stack and the other is dropped; after the last element the best element itself is evaluated, otherwise the next element's key is requested" timeout=900 replay=sort_stable
    #[kani::proof]
    #[kani::unwind(7)]
    fn min_max_scan_n3() { min_max_scan(3); }
    //@harness props=C17,C01 strength=bounded bound="array of 4 elements, any position, any comparison outcome" clause="minArray / maxArray scan step: the best-so-far changes only on a STRICT improvement (so the first minimal / maximal element is the one returned), its key stays on the stack and the other is dropped; after the last element the best element itself is evaluated, otherwise the next element's key is requested" timeout=900 replay=sort_stable
    #[kani::proof]
    #[kani::unwind(7)]
    fn min_max_scan_n4() { min_max_scan(4); }

    //@harness props=C17,C01 strength=bounded expect=fail clause="canary"
    #[kani::proof]
    #[kani::unwind(9)]
    fn sortset_canary() {
        let o = any_ord();
        let mut e = ev();
        e.cmp_ord_stack.push(o);
        let sorted = sorted_of(&[9, 9, 9]);
        let um = unmerged(&[3usize], 0, &[2usize], 0);
        e.do_std_sort_merge_post_compare(keys(4), sorted.clone(), 0, um);
        assert!(sorted[0].get() == 3, "canary:sortset:merge-always-takes-left");
        core::mem::forget(e);
    }
}
} // mod u
fn main() {}
