#!/usr/bin/env python3
"""Expands the (N, P) ladder of unit lexstep (unit.rs.in -> unit.rs).
ENABLED lists the instances that have had a clean run on the unchanged tree under the cap; only
those get a live `//@harness` directive. Everything else is emitted with `//@-harness`."""
import os
here = os.path.dirname(os.path.abspath(__file__))
MAX_N = 4
ENABLED = set()          # e.g. {(0, 0), (1, 0), (1, 1)}  -- filled in only from measurements
out = ["    // ---- ladder: one harness per (input length N, start position P).  A directive is live only after a",
       "    // clean measured run on the unchanged tree (see gen.py ENABLED and DESIGN.md section 11) ----"]
for n in range(0, MAX_N + 1):
    for p in range(0, n + 1):
        live = "//@harness" if (n, p) in ENABLED else "//@-harness"
        strength = "proof" if n == 0 else "bounded"
        bound = "" if n == 0 else ' bound="one step from position %d of every %d-byte input"' % (p, n)
        out.append('    %s name=lexstep_n%d_p%d props=C14,C01 strength=%s%s clause="step contract of next_token at position %d of %d" timeout=300 args="-Z stubbing"' % (live, n, p, strength, bound, p, n))
        out.append("    #[kani::proof]\n    #[kani::unwind(%d)]\n    #[kani::stub(core::fmt::write, stub_fmt_write)]" % (n + 5))
        out.append("    fn lexstep_n%d_p%d() { step::<%d, %d>(%s); }\n" % (n, p, n, p, "[]" if n == 0 else "kani::any()"))
tpl = open(os.path.join(here, "unit.rs.in")).read()
open(os.path.join(here, "unit.rs"), "w").write(tpl.replace("@@LADDER@@", "\n".join(out)))
