// Unit lexstep: the lexer's token step (next_token and everything it calls), extracted verbatim
// onto a shim receiver with the real struct's eight fields, plus token.rs and LexError whole.
//
// Environment (TRUSTED shims, all in this file):
//   * crate::span::{SpanId, SpanContextId, SpanManager}: intern_span(ctx, a, b) returns the pair
//     (a, b) so the contract can read spans back.  The REAL intern_span asserts a <= b and that both
//     offsets lie inside the file; the shim asserts the same precondition under a C14,C01 label, so
//     a lexer that hands out a bad span fails here as it would panic in reality (the shim is not
//     more permissive than the callee it stands for).
//   * crate::arena::Arena::alloc_str, crate::interner::{StrInterner, InternedStr}: copy the text.
//   * String bound to BStr (fixed capacity 64; overrun = shim assertion = bound overrun, exit 2).
//   * core::fmt::write stubbed: panic-message formatting is not part of any contract (unit gc showed
//     it dominates symbolic execution).
#![allow(dead_code, unused)]
pub mod span {
    #[derive(Copy, Clone, Debug, PartialEq, Eq, PartialOrd, Ord, Hash)]
    pub struct SpanId(pub usize, pub usize);
    #[derive(Copy, Clone, Debug, PartialEq, Eq, PartialOrd, Ord, Hash)]
    pub struct SpanContextId(pub usize);
    pub struct SpanManager { pub len: usize }
    impl SpanManager {
        pub fn intern_span(&mut self, _context: SpanContextId, start: usize, end: usize) -> SpanId {
            // precondition of the real SpanManager::intern_span (its three assert!s)
            assert!(start <= end, "C14,C01,C16:lexstep:span-handed-to-span-manager-has-start-le-end");
            assert!(end <= self.len, "C14,C01,C16:lexstep:span-handed-to-span-manager-lies-within-the-file");
            SpanId(start, end)
        }
    }
}
pub mod arena {
    pub struct Arena;
    impl Arena {
        pub fn alloc_str(&self, value: &str) -> &str { Box::leak(Box::<str>::from(value)) }
    }
}
pub mod interner {
    use crate::arena::Arena;
    #[derive(Copy, Clone, Debug, PartialEq, Eq, PartialOrd, Ord, Hash)]
    pub struct InternedStr<'a>(pub &'a str);
    pub struct StrInterner<'a>(pub core::marker::PhantomData<&'a ()>);
    impl<'a> StrInterner<'a> {
        pub fn intern(&self, arena: &'a Arena, value: &str) -> InternedStr<'a> { InternedStr(arena.alloc_str(value)) }
    }
}
pub mod token {
//@extract file=rsjsonnet-lang/src/token.rs whole
}
mod u {
use crate::arena::Arena;
use crate::interner::StrInterner;
use crate::span::{SpanContextId, SpanId, SpanManager};
use crate::token::{Number, STokenKind, Token, TokenKind};
//@include shim/bstr.rs
use self::BStr as String;

//@extract file=rsjsonnet-lang/src/lexer/error.rs item=enum:LexError

// shim receiver: the real struct's fields, same names, same types (collaborators are the shims above)
pub struct Lexer<'a, 'p, 'ast> {
    arena: &'p Arena,
    ast_arena: &'ast Arena,
    str_interner: &'a StrInterner<'p>,
    span_mgr: &'a mut SpanManager,
    span_ctx: SpanContextId,
    input: &'a [u8],
    start_pos: usize,
    end_pos: usize,
}

//@extract file=rsjsonnet-lang/src/lexer/mod.rs impl=Lexer methods=next_token,lex_single_line_comment,lex_multi_line_comment,lex_operator,lex_ident,lex_number,lex_quoted_string,lex_verbatim_string,lex_text_block,eat_byte,eat_byte_if,eat_get_byte_if,eat_map_byte,eat_slice,decode_cont_char,eat_any_byte,eat_cont_any_char,eat_any_char,commit_token,make_span

#[cfg(kani)]
mod vharness {
    use super::*;

    fn stub_fmt_write(_o: &mut dyn core::fmt::Write, _a: core::fmt::Arguments<'_>) -> core::fmt::Result { Ok(()) }

    /// Step contract of next_token, from the property statement:
    ///   requires  start_pos == end_pos == p <= len
    ///   Ok(tok)   tok.span == (p, p'), p' == new start_pos == new end_pos <= len,
    ///             tok is EndOfFile  <=>  p == len,  and a non-EOF token is non-empty (p' > p)
    ///   Err(_)    (the error's own span is checked by the span-manager precondition above)
    fn step<const N: usize>(input: [u8; N]) {
        let arena = Arena;
        let ast_arena = Arena;
        let interner = StrInterner(core::marker::PhantomData);
        let mut mgr = SpanManager { len: N };
        let mut lx = Lexer { arena: &arena, ast_arena: &ast_arena, str_interner: &interner, span_mgr: &mut mgr,
                             span_ctx: SpanContextId(0), input: &input[..], start_pos: 0, end_pos: 0 };
        match lx.next_token() {
            Ok(tok) => {
                let SpanId(a, b) = tok.span;
                assert!(a == 0, "C14:lexstep:token-starts-where-the-previous-one-ended");
                assert!(b == lx.start_pos && lx.start_pos == lx.end_pos, "C14:lexstep:token-ends-at-the-new-position");
                assert!(b <= N, "C14:lexstep:token-ends-within-the-input");
                assert!((tok.kind == TokenKind::EndOfFile) == (N == 0), "C14:lexstep:eof-token-iff-at-end-of-input");
                if N > 0 { assert!(b > a, "C14:lexstep:non-eof-token-is-non-empty"); }
            }
            Err(_) => { assert!(N > 0, "C14:lexstep:empty-input-never-fails"); }
        }
    }

    // ---- NOT YET CHECKS: directives are disabled (`//@-harness`) until each rung has had one clean
    // run on the unchanged tree; a harness joins a claimed property's set only after that.
    // ---- measurement ladder: each rung is its own harness; the bound REPORTED is the largest rung
    // that finishes on the unchanged tree under the cap (see DESIGN.md section 11) ----
    //@-harness props=C14,C01 strength=proof clause="next_token on the empty input yields EndOfFile with span (0,0)" timeout=300 args="-Z stubbing"
    #[kani::proof]
    #[kani::unwind(4)]
    #[kani::stub(core::fmt::write, stub_fmt_write)]
    fn lexstep_len0() { step::<0>([]); }

    //@-harness props=C14,C01 strength=bounded bound="first token of every 1-byte input" clause="step contract of next_token" timeout=300 args="-Z stubbing"
    #[kani::proof]
    #[kani::unwind(6)]
    #[kani::stub(core::fmt::write, stub_fmt_write)]
    fn lexstep_len1() { step::<1>(kani::any()); }

    //@-harness props=C14,C01 strength=bounded expect=fail clause="canary: a false statement ABOUT THE EXTRACTED next_token" args="-Z stubbing"
    #[kani::proof]
    #[kani::unwind(6)]
    #[kani::stub(core::fmt::write, stub_fmt_write)]
    fn lexstep_canary() {
        let input: [u8; 1] = kani::any();
        let arena = Arena;
        let ast_arena = Arena;
        let interner = StrInterner(core::marker::PhantomData);
        let mut mgr = SpanManager { len: 1 };
        let mut lx = Lexer { arena: &arena, ast_arena: &ast_arena, str_interner: &interner, span_mgr: &mut mgr,
                             span_ctx: SpanContextId(0), input: &input[..], start_pos: 0, end_pos: 0 };
        assert!(lx.next_token().is_ok(), "canary:lexstep:every-byte-starts-a-token");
    }
}
} // mod u
fn main() {}
