// Unit rmkey: the builtin std.objectRemoveKey (Evaluator::do_std_object_remove_key, program/eval/stdlib.rs),
// extracted verbatim.  Hand-written environment: an ABSTRACT object - the assumed contract of ObjectData's
// queries (has_field / has_visible_field over a list of (name, visibility); what unit objlayers checks on the
// real data.rs) - and Program::object_with_field_removed as a RECORDING shim (which object, which key): the
// real function is under contract in unit objlayers.  What is verified here is the builtin's own decision:
// when it builds the object-without-the-field and when it hands back the original.
#![allow(dead_code, unused)]
mod u {
use std::marker::PhantomData;
use std::rc::Rc;
#[derive(Clone, Copy, PartialEq, Eq, Debug)]
pub struct InternedStr<'p>(pub u8, pub PhantomData<&'p ()>);
pub mod ast { #[derive(Clone, Copy, PartialEq, Eq, Debug)] pub enum Visibility { Default, Hidden, ForceVisible } }
pub struct Gc<T>(pub *const T);
impl<T> Clone for Gc<T> { fn clone(&self) -> Self { Gc(self.0) } }
impl<T> Gc<T> { pub fn new(v: T) -> Self { Gc(Box::into_raw(Box::new(v))) } pub fn view(&self) -> GcView<T> { GcView(self.0) } }
pub struct GcView<T>(pub *const T);
impl<T> std::ops::Deref for GcView<T> { type Target = T; fn deref(&self) -> &T { unsafe { &*self.0 } } }
impl<T> From<&GcView<T>> for Gc<T> { fn from(v: &GcView<T>) -> Self { Gc(v.0) } }
/// abstract object: field `a` (id 1) absent or present with a visibility; `removed` marks a result of the shim
pub struct ObjectData<'p> { pub a: Option<ast::Visibility>, pub removed: Option<u8>, pub _p: PhantomData<&'p ()> }
impl<'p> ObjectData<'p> {
    pub fn has_field(&self, layer_i: usize, name: InternedStr<'p>) -> bool { layer_i == 0 && name.0 == 1 && self.a.is_some() }
    pub fn has_visible_field(&self, name: InternedStr<'p>) -> bool { name.0 == 1 && matches!(self.a, Some(ast::Visibility::Default) | Some(ast::Visibility::ForceVisible)) }
}
// shim interner: "a" is interned as id 1, "b" as id 2 (a name that exists in the program but not in this object), nothing else
pub struct StrInterner;
impl StrInterner { pub fn get_interned<'p>(&self, s: &str) -> Option<InternedStr<'p>> { if s == "a" { Some(InternedStr(1, PhantomData)) } else if s == "b" { Some(InternedStr(2, PhantomData)) } else { None } } }
pub struct Program<'p> { pub str_interner: StrInterner, pub _p: PhantomData<&'p ()> }
impl<'p> Program<'p> {
    // RECORDING shim of the real object_with_field_removed (unit objlayers): a fresh object marked with the removed key
    pub fn object_with_field_removed(&mut self, object: &ObjectData<'p>, removed_field_name: InternedStr<'p>) -> Gc<ObjectData<'p>> {
        Gc::new(ObjectData { a: if removed_field_name.0 == 1 { None } else { object.a }, removed: Some(removed_field_name.0), _p: PhantomData })
    }
}
pub enum ValueData<'p> { Null, String(Rc<str>), Object(Gc<ObjectData<'p>>) }
pub struct EvalError;
type EvalResult<T> = Result<T, Box<EvalError>>;
pub struct Evaluator<'a, 'p> { program: &'a mut Program<'p>, value_stack: Vec<ValueData<'p>> }
impl<'a, 'p> Evaluator<'a, 'p> {
    fn expect_std_func_arg_object(&self, v: ValueData<'p>, _f: &str, _i: usize) -> EvalResult<GcView<ObjectData<'p>>> { match v { ValueData::Object(o) => Ok(o.view()), _ => Err(Box::new(EvalError)) } }
    fn expect_std_func_arg_string(&self, v: ValueData<'p>, _f: &str, _i: usize) -> EvalResult<Rc<str>> { match v { ValueData::String(s) => Ok(s), _ => Err(Box::new(EvalError)) } }
}
//@extract file=rsjsonnet-lang/src/program/eval/stdlib.rs impl=Evaluator methods=do_std_object_remove_key

#[cfg(kani)]
mod vharness {
    use super::*;
    use super::ast::Visibility as V;

    fn run(key: &'static str, a: Option<V>) -> (bool, Option<u8>, Option<V>) {
        let o = Gc::new(ObjectData { a, removed: None, _p: PhantomData });
        let mut p = Program { str_interner: StrInterner, _p: PhantomData };
        let mut e = Evaluator { program: &mut p, value_stack: Vec::with_capacity(2) };
        e.value_stack.push(ValueData::Object(o.clone()));
        e.value_stack.push(ValueData::String(key.into()));
        let r = e.do_std_object_remove_key();
        assert!(r.is_ok() && e.value_stack.len() == 1, "C07,C01:rmkey:stack-effect");
        let out = match &e.value_stack[0] { ValueData::Object(res) => { let v = res.view(); (std::ptr::eq(res.0, o.0), v.removed, v.a) } _ => { assert!(false, "C07:rmkey:returns-an-object"); (false, None, None) } };
        core::mem::forget(e);
        out
    }
    fn any_a() -> Option<V> { let k: u8 = kani::any(); kani::assume(k < 4); match k { 0 => None, 1 => Some(V::Default), 2 => Some(V::Hidden), _ => Some(V::ForceVisible) } }

    //@harness props=C07,C01 quickfor=C07 strength=proof clause="std.objectRemoveKey(o, k) for a key that names a field of o, WHATEVER its visibility (:, :: or :::): the result is the object-without-the-field built by object_with_field_removed(o, k) - a hidden field is removed like any other, so afterwards the field does not exist for objectHasAll / in / super" replay=rmkey
    #[kani::proof]
    #[kani::unwind(4)]
    fn remove_key_existing_field_any_visibility() {
        let a = any_a(); kani::assume(a.is_some());
        let (same, removed, a_after) = run("a", a);
        assert!(!same && removed == Some(1) && a_after.is_none(), "C07:rmkey:an-existing-field-is-removed-whatever-its-visibility");
    }

    //@harness props=C07,C01 quickfor=C07 strength=proof clause="std.objectRemoveKey(o, k) for a key o does not have: the result has the same fields as o (the original object, or a copy from which nothing of o's was removed); a key that was never interned can be in no object and yields o itself" replay=rmkey
    #[kani::proof]
    #[kani::unwind(4)]
    fn remove_key_absent_field_changes_nothing() {
        let a = any_a();
        let (same_b, removed_b, a_after_b) = run("b", a);
        assert!(a_after_b == a && (same_b || removed_b == Some(2)), "C07:rmkey:removing-another-name-leaves-the-field-intact");
        let (same_z, _, a_after_z) = run("zz", a);
        assert!(same_z && a_after_z == a, "C07:rmkey:unknown-key-returns-the-object-unchanged");
    }

    //@harness props=C07 strength=proof expect=fail clause="canary"
    #[kani::proof]
    #[kani::unwind(4)]
    fn rmkey_canary() {
        let (same, _, _) = run("a", any_a());
        assert!(same, "canary:rmkey:never-a-new-object");
    }
}
} // mod u
fn main() {}
