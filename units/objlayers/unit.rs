// Unit objlayers: the layered object representation.  Extracted verbatim from program/data.rs:
// ObjectData (struct + get_layer, find_field, has_field, get_fields_order,
// get_visible_fields_order, has_visible_field), ObjectLayer, ObjectField, ObjectFieldData,
// Program::{extend_object, object_with_field_removed}, extend_object_clone_field / _layer.
// (std.objectRemoveKey's own decision logic is in unit rmkey.)  BTreeMap / btree_map::Entry are bound to a
// two-slot ordered map through a local `std` module (shim/btshim.rs).
// Hand-written environment: Gc (Rc), interned strings (small ids, ordered by id), FHashMap bound
// to a two-slot map (shim/slotmap.rs; the extracted text uses only get / iter / collect / default on
// it; an association list with a symbolic length made every harness of this unit, the canary included,
// exceed 14 GB - measured).
#![allow(dead_code, unused)]
mod u {
//@include shim/btshim.rs
use std::cell::{Cell, OnceCell, RefCell};
use std::collections::BTreeMap;
use std::marker::PhantomData;
use std::rc::Rc;
//@include shim/slotmap.rs
#[derive(Clone, Copy, PartialEq, Eq, PartialOrd, Ord, Debug)]
pub struct InternedStr<'p>(pub u8, pub PhantomData<&'p ()>);
// shim of interner::SortedInternedStr: orders by string value; here names are ids ordered by id
#[derive(Clone, Copy, PartialEq, Eq, PartialOrd, Ord)]
pub struct SortedInternedStr<'p>(pub InternedStr<'p>);
pub mod ast { #[derive(Clone, Copy, PartialEq, Eq, Debug)] pub enum Visibility { Default, Hidden, ForceVisible } }
pub mod ir { pub struct Expr<'p>(pub u8, pub std::marker::PhantomData<&'p ()>); pub struct Assert<'p>(pub u8, pub std::marker::PhantomData<&'p ()>); }
// raw-pointer handles, nothing is ever freed (Rc's recursive drop glue is what CBMC chokes on)
pub struct Gc<T>(pub *const T);
impl<T> Clone for Gc<T> { fn clone(&self) -> Self { Gc(self.0) } }
impl<T> Gc<T> { pub fn new(v: T) -> Self { Gc(Box::into_raw(Box::new(v))) } pub fn view(&self) -> GcView<T> { GcView(self.0) } }
pub struct GcView<T>(pub *const T);
impl<T> std::ops::Deref for GcView<T> { type Target = T; fn deref(&self) -> &T { unsafe { &*self.0 } } }
pub struct ThunkEnv<'p>(pub PhantomData<&'p ()>);
pub struct ThunkData<'p>(pub u8, pub PhantomData<&'p ()>);
impl<T> From<&GcView<T>> for Gc<T> { fn from(v: &GcView<T>) -> Self { Gc(v.0) } }
// shim interner: the names "a" / "b" are interned as ids 1 / 2, nothing else is
pub struct StrInterner;
impl StrInterner { pub fn get_interned<'p>(&self, s: &str) -> Option<InternedStr<'p>> { if s == "a" { Some(InternedStr(1, PhantomData)) } else if s == "b" { Some(InternedStr(2, PhantomData)) } else { None } } }
pub struct Program<'p> { pub str_interner: StrInterner, pub _p: PhantomData<&'p ()> }
impl<'p> Program<'p> { fn gc_alloc<T>(&mut self, v: T) -> Gc<T> { Gc::new(v) } }
pub enum ValueData<'p> { Null, String(Rc<str>), Object(Gc<ObjectData<'p>>) }
pub struct EvalError;
type EvalResult<T> = Result<T, Box<EvalError>>;
pub struct Evaluator<'a, 'p> { program: &'a mut Program<'p>, value_stack: Vec<ValueData<'p>> }
impl<'a, 'p> Evaluator<'a, 'p> {
    // shims of the argument-type checks: the right type is unwrapped, anything else is the type error
    fn expect_std_func_arg_object(&self, v: ValueData<'p>, _f: &str, _i: usize) -> EvalResult<GcView<ObjectData<'p>>> { match v { ValueData::Object(o) => Ok(o.view()), _ => Err(Box::new(EvalError)) } }
    fn expect_std_func_arg_string(&self, v: ValueData<'p>, _f: &str, _i: usize) -> EvalResult<Rc<str>> { match v { ValueData::String(s) => Ok(s), _ => Err(Box::new(EvalError)) } }
}

// ---- extracted, verbatim -------------------------------------------------------------------
//@extract file=rsjsonnet-lang/src/program/data.rs item=struct:ObjectData
//@extract file=rsjsonnet-lang/src/program/data.rs impl=ObjectData methods=new_empty,get_layer,find_field,has_field,get_fields_order,get_visible_fields_order,has_visible_field
//@extract file=rsjsonnet-lang/src/program/data.rs item=struct:ObjectLayer
//@extract file=rsjsonnet-lang/src/program/data.rs item=enum:ObjectField
//@extract file=rsjsonnet-lang/src/program/data.rs item=struct:ObjectFieldData
//@extract file=rsjsonnet-lang/src/program/data.rs impl=Program methods=extend_object,object_with_field_removed
//@extract file=rsjsonnet-lang/src/program/data.rs item=fn:extend_object_clone_field
//@extract file=rsjsonnet-lang/src/program/data.rs item=fn:extend_object_clone_layer

#[cfg(kani)]
mod vharness {
    use super::*;
    use super::ast::Visibility as V;

    /// abstract view of one field name in one layer
    #[derive(Clone, Copy, PartialEq, Eq)]
    enum E { Absent, N(V), R(usize) }
    const NAME: InternedStr<'static> = InternedStr(1, PhantomData);
    const OTHER: InternedStr<'static> = InternedStr(2, PhantomData);
    const MAXL: usize = 4;

    fn any_vis() -> V { let k: u8 = kani::any(); match k % 3 { 0 => V::Default, 1 => V::Hidden, _ => V::ForceVisible } }
    fn any_entry(maxd: usize) -> E {
        let k: u8 = kani::any();
        match k % 3 { 0 => E::Absent, 1 => E::N(any_vis()), _ => { let d: usize = kani::any(); kani::assume(d <= maxd); E::R(d) } }
    }
    fn field(e: E) -> Option<ObjectField<'static>> {
        match e {
            E::Absent => None,
            E::N(v) => Some(ObjectField::Normal(ObjectFieldData { base_env: None, visibility: v, expr: None, thunk: OnceCell::new() })),
            E::R(d) => Some(ObjectField::Removed(d)),
        }
    }
    static ONE_ASSERT: [ir::Assert<'static>; 1] = [ir::Assert(0, PhantomData)];
    fn layer(a: E, b: E) -> ObjectLayer<'static> { layer_a(a, b, false) }
    fn layer_a(a: E, b: E, has_assert: bool) -> ObjectLayer<'static> {
        // both slots are always written: which names exist is carried by the Option tags only
        let fields: FHashMap<InternedStr<'static>, ObjectField<'static>> = FHashMap::from_slots(field(a).map(|f| (NAME, f)), field(b).map(|f| (OTHER, f)));
        ObjectLayer { is_top: false, locals: &[], base_env: None, env: OnceCell::new(), fields, asserts: if has_assert { &ONE_ASSERT } else { &[] } }
    }
    /// object with `n` layers (1..=MAXL); es[i] / os[i] = entries of NAME / OTHER in layer i (0 = top)
    fn object(n: usize, es: &[E; MAXL], os: &[E; MAXL]) -> ObjectData<'static> {
        let mut supers = Vec::with_capacity(n);
        let mut i = 1;
        while i < n { supers.push(layer(es[i], os[i])); i += 1; }
        ObjectData { self_layer: layer(es[0], os[0]), super_layers: supers, fields_order: OnceCell::new(), asserts_checked: Cell::new(true) }
    }
    fn entry_of(l: &ObjectLayer<'_>, name: InternedStr<'static>) -> E {
        match l.fields.get(&name) { None => E::Absent, Some(ObjectField::Normal(d)) => E::N(d.visibility), Some(ObjectField::Removed(d)) => E::R(*d) }
    }

    // ---- specification (from the language definition of inheritance, not from the code) --------
    // Layers are listed from the right-most operand of `+` (index 0) to the left-most.  A field
    // exists if some layer defines it and no `objectRemoveKey` marker above hides that layer: a marker
    // R(d) makes the d layers directly below it invisible for this name.  Visibility: the first
    // `::` or `:::` met from the top decides; `:` inherits from below; only `:` anywhere => visible.
    fn spec_lookup(n: usize, es: &[E; MAXL], from: usize) -> Option<usize> {
        let mut i = from;
        while i < n { match es[i] { E::N(_) => return Some(i), E::R(d) => i += d, E::Absent => {} } i += 1; }
        None
    }
    fn spec_visible(n: usize, es: &[E; MAXL]) -> bool {
        let mut i = 0; let mut found = false;
        while i < n {
            match es[i] { E::N(V::Default) => found = true, E::N(V::Hidden) => return false, E::N(V::ForceVisible) => return true, E::R(d) => i += d, E::Absent => {} }
            i += 1;
        }
        found
    }

    /// an object of exactly `n` layers (n is CONCRETE per harness instance) with any entries
    fn any_object(n: usize, maxd: usize) -> (usize, [E; MAXL], [E; MAXL], &'static ObjectData<'static>) {
        let es = [any_entry(maxd), any_entry(maxd), any_entry(maxd), any_entry(maxd)];
        let os = [any_entry(maxd), any_entry(maxd), any_entry(maxd), any_entry(maxd)];
        // leaked: nothing is dropped in a harness (drop glue of nested Vec/OnceCell is pure cost for CBMC)
        let o: &'static ObjectData<'static> = Box::leak(Box::new(object(n, &es, &os)));
        (n, es, os, o)
    }

    fn lookup_and_visibility_contract_at(n: usize) {
        let (n, es, os, o) = any_object(n, 3);
        let from: usize = kani::any(); kani::assume(from < n);
        let got = o.find_field(from, NAME).map(|(i, _)| i);
        assert!(got == spec_lookup(n, &es, from), "C07:objlayers:find-field-is-first-effective-definition");
        assert!(o.has_field(from, NAME) == spec_lookup(n, &es, from).is_some(), "C07:objlayers:has-field-agrees-with-find-field");
        assert!(o.has_visible_field(NAME) == spec_visible(n, &es), "C07:objlayers:has-visible-field-follows-the-visibility-rules");
        if spec_visible(n, &es) { assert!(spec_lookup(n, &es, 0).is_some(), "C07:objlayers:visible-implies-exists"); }
    }
    //@harness props=C07,C01 quickfor=C07,C05 strength=bounded bound="objects of 1..3 layers, two field names, every combination of per-layer entries {absent, :, ::, :::, removed(d<=3)}; this instance: exactly 1 layer" clause="find_field(from, name) returns the first layer at or below `from` that defines the name and is not hidden by a remove marker (has_field accordingly); has_visible_field equals the :, ::, ::: visibility rule" timeout=900 replay=objlayers
    #[kani::proof]
    #[kani::unwind(7)]
    fn lookup_and_visibility_contract_n1() { lookup_and_visibility_contract_at(1); }
    //@harness props=C07,C01 quickfor=C07,C05 strength=bounded bound="objects of 1..3 layers, two field names, every combination of per-layer entries {absent, :, ::, :::, removed(d<=3)}; this instance: exactly 2 layers" clause="find_field(from, name) returns the first layer at or below `from` that defines the name and is not hidden by a remove marker (has_field accordingly); has_visible_field equals the :, ::, ::: visibility rule" timeout=900 replay=objlayers
    #[kani::proof]
    #[kani::unwind(7)]
    fn lookup_and_visibility_contract_n2() { lookup_and_visibility_contract_at(2); }
    //@harness props=C07,C01 quickfor=C07,C05 strength=bounded bound="objects of 1..3 layers, two field names, every combination of per-layer entries {absent, :, ::, :::, removed(d<=3)}; this instance: exactly 3 layers" clause="find_field(from, name) returns the first layer at or below `from` that defines the name and is not hidden by a remove marker (has_field accordingly); has_visible_field equals the :, ::, ::: visibility rule" timeout=900 replay=objlayers
    #[kani::proof]
    #[kani::unwind(7)]
    fn lookup_and_visibility_contract_n3() { lookup_and_visibility_contract_at(3); }

    fn fields_order_agrees_with_lookup_at(n: usize) { let (n, es, os, o) = any_object(n, 3); fields_order_check(n, es, os, o); }
    /// entry of a CONCRETE kind (0 absent, 1 defined with any visibility, 2 remove marker of any depth)
    fn entry_of_kind(k: u8, maxd: usize) -> E { match k { 0 => E::Absent, 1 => E::N(any_vis()), _ => { let d: usize = kani::any(); kani::assume(d <= maxd); E::R(d) } } }
    /// three-layer object whose first name has the given per-layer kinds; the second name is defined (any visibility) in the bottom layer only
    fn fields_order_kinds(k0: u8, k1: u8, k2: u8) {
        let es = [entry_of_kind(k0, 3), entry_of_kind(k1, 3), entry_of_kind(k2, 3), E::Absent];
        let os = [E::Absent, E::Absent, E::N(any_vis()), E::Absent];
        let o: &'static ObjectData<'static> = Box::leak(Box::new(object(3, &es, &os)));
        fields_order_check(3, es, os, o);
    }
    fn fields_order_check(n: usize, es: [E; MAXL], os: [E; MAXL], o: &'static ObjectData<'static>) {
        //@known D7 kani::assume(!d7_class(n, &es) && !d7_class(n, &os));
        let order = o.get_fields_order();
        let mut seen_name = false; let mut vis_name = V::Hidden;
        let mut seen_other = false; let mut vis_other = V::Hidden;
        let mut i = 0;
        while i < order.len() {
            let (nm, v) = order[i];
            if nm == NAME { assert!(!seen_name, "C07,C05:objlayers:each-name-listed-once"); seen_name = true; vis_name = v; }
            else if nm == OTHER { assert!(!seen_other, "C07,C05:objlayers:each-name-listed-once"); seen_other = true; vis_other = v; }
            else { assert!(false, "C07,C05:objlayers:only-defined-names-are-listed"); }
            if i > 0 { assert!(order[i - 1].0 < nm, "C07,C05:objlayers:field-list-is-strictly-sorted"); }
            i += 1;
        }
        assert!(seen_name == o.has_field(0, NAME), "C07,C05:objlayers:listed-iff-lookup-finds-the-field");
        assert!(seen_other == o.has_field(0, OTHER), "C07,C05:objlayers:listed-iff-lookup-finds-the-field");
        if seen_name { assert!((vis_name != V::Hidden) == o.has_visible_field(NAME), "C07,C05:objlayers:listed-visibility-agrees-with-objectHas"); }
        if seen_other { assert!((vis_other != V::Hidden) == o.has_visible_field(OTHER), "C07,C05:objlayers:listed-visibility-agrees-with-objectHas"); }
    }
    //@harness props=C07,C05 strength=bounded bound="objects of 1..3 layers, two field names, every combination of per-layer entries {absent, :, ::, :::, removed(d<=3)}; this instance: exactly 1 layer" clause="the field list used by manifestation, std.length, objectFields(All) (get_fields_order) contains a name exactly when field lookup (in, objectHasAll, indexing) finds it, marks it hidden exactly when objectHas says it is not visible, is strictly sorted by name and lists each name once" timeout=900 replay=objlayers known=D7
    #[kani::proof]
    #[kani::unwind(7)]
    fn fields_order_agrees_with_lookup_n1() { fields_order_agrees_with_lookup_at(1); }
    //@harness props=C07,C05 strength=bounded bound="objects of 1..3 layers, two field names, every combination of per-layer entries {absent, :, ::, :::, removed(d<=3)}; this instance: exactly 2 layers" clause="the field list used by manifestation, std.length, objectFields(All) (get_fields_order) contains a name exactly when field lookup (in, objectHasAll, indexing) finds it, marks it hidden exactly when objectHas says it is not visible, is strictly sorted by name and lists each name once" timeout=900 replay=objlayers known=D7
    #[kani::proof]
    #[kani::unwind(7)]
    fn fields_order_agrees_with_lookup_n2() { fields_order_agrees_with_lookup_at(2); }
    //@harness props=C07,C05 strength=bounded tier=thorough bound="three-layer objects whose first name is, top to bottom, absent / absent / absent (any visibility, any remove depth <= 3) and whose second name is defined in the bottom layer; the 27 instances cover every kind vector" clause="the field list used by manifestation, std.length, objectFields(All) (get_fields_order) contains a name exactly when field lookup (in, objectHasAll, indexing) finds it, marks it hidden exactly when objectHas says it is not visible, is strictly sorted by name and lists each name once" timeout=900 replay=objlayers known=D7
    #[kani::proof]
    #[kani::unwind(7)]
    fn fields_order_n3_k000() { fields_order_kinds(0, 0, 0); }
    //@harness props=C07,C05 strength=bounded tier=thorough bound="three-layer objects whose first name is, top to bottom, absent / absent / defined (any visibility, any remove depth <= 3) and whose second name is defined in the bottom layer; the 27 instances cover every kind vector" clause="the field list used by manifestation, std.length, objectFields(All) (get_fields_order) contains a name exactly when field lookup (in, objectHasAll, indexing) finds it, marks it hidden exactly when objectHas says it is not visible, is strictly sorted by name and lists each name once" timeout=900 replay=objlayers known=D7
    #[kani::proof]
    #[kani::unwind(7)]
    fn fields_order_n3_k001() { fields_order_kinds(0, 0, 1); }
    //@harness props=C07,C05 strength=bounded tier=thorough bound="three-layer objects whose first name is, top to bottom, absent / absent / removed (any visibility, any remove depth <= 3) and whose second name is defined in the bottom layer; the 27 instances cover every kind vector" clause="the field list used by manifestation, std.length, objectFields(All) (get_fields_order) contains a name exactly when field lookup (in, objectHasAll, indexing) finds it, marks it hidden exactly when objectHas says it is not visible, is strictly sorted by name and lists each name once" timeout=900 replay=objlayers known=D7
    #[kani::proof]
    #[kani::unwind(7)]
    fn fields_order_n3_k002() { fields_order_kinds(0, 0, 2); }
    //@harness props=C07,C05 strength=bounded tier=thorough bound="three-layer objects whose first name is, top to bottom, absent / defined / absent (any visibility, any remove depth <= 3) and whose second name is defined in the bottom layer; the 27 instances cover every kind vector" clause="the field list used by manifestation, std.length, objectFields(All) (get_fields_order) contains a name exactly when field lookup (in, objectHasAll, indexing) finds it, marks it hidden exactly when objectHas says it is not visible, is strictly sorted by name and lists each name once" timeout=900 replay=objlayers known=D7
    #[kani::proof]
    #[kani::unwind(7)]
    fn fields_order_n3_k010() { fields_order_kinds(0, 1, 0); }
    //@harness props=C07,C05 strength=bounded tier=thorough bound="three-layer objects whose first name is, top to bottom, absent / defined / defined (any visibility, any remove depth <= 3) and whose second name is defined in the bottom layer; the 27 instances cover every kind vector" clause="the field list used by manifestation, std.length, objectFields(All) (get_fields_order) contains a name exactly when field lookup (in, objectHasAll, indexing) finds it, marks it hidden exactly when objectHas says it is not visible, is strictly sorted by name and lists each name once" timeout=900 replay=objlayers known=D7
    #[kani::proof]
    #[kani::unwind(7)]
    fn fields_order_n3_k011() { fields_order_kinds(0, 1, 1); }
    //@harness props=C07,C05 strength=bounded bound="three-layer objects whose first name is, top to bottom, absent / defined / removed (any visibility, any remove depth <= 3) and whose second name is defined in the bottom layer; the 27 instances cover every kind vector" clause="the field list used by manifestation, std.length, objectFields(All) (get_fields_order) contains a name exactly when field lookup (in, objectHasAll, indexing) finds it, marks it hidden exactly when objectHas says it is not visible, is strictly sorted by name and lists each name once" timeout=900 replay=objlayers known=D7
    #[kani::proof]
    #[kani::unwind(7)]
    fn fields_order_n3_k012() { fields_order_kinds(0, 1, 2); }
    //@harness props=C07,C05 strength=bounded tier=thorough bound="three-layer objects whose first name is, top to bottom, absent / removed / absent (any visibility, any remove depth <= 3) and whose second name is defined in the bottom layer; the 27 instances cover every kind vector" clause="the field list used by manifestation, std.length, objectFields(All) (get_fields_order) contains a name exactly when field lookup (in, objectHasAll, indexing) finds it, marks it hidden exactly when objectHas says it is not visible, is strictly sorted by name and lists each name once" timeout=900 replay=objlayers known=D7
    #[kani::proof]
    #[kani::unwind(7)]
    fn fields_order_n3_k020() { fields_order_kinds(0, 2, 0); }
    //@harness props=C07,C05 strength=bounded tier=thorough bound="three-layer objects whose first name is, top to bottom, absent / removed / defined (any visibility, any remove depth <= 3) and whose second name is defined in the bottom layer; the 27 instances cover every kind vector" clause="the field list used by manifestation, std.length, objectFields(All) (get_fields_order) contains a name exactly when field lookup (in, objectHasAll, indexing) finds it, marks it hidden exactly when objectHas says it is not visible, is strictly sorted by name and lists each name once" timeout=900 replay=objlayers known=D7
    #[kani::proof]
    #[kani::unwind(7)]
    fn fields_order_n3_k021() { fields_order_kinds(0, 2, 1); }
    //@harness props=C07,C05 strength=bounded tier=thorough bound="three-layer objects whose first name is, top to bottom, absent / removed / removed (any visibility, any remove depth <= 3) and whose second name is defined in the bottom layer; the 27 instances cover every kind vector" clause="the field list used by manifestation, std.length, objectFields(All) (get_fields_order) contains a name exactly when field lookup (in, objectHasAll, indexing) finds it, marks it hidden exactly when objectHas says it is not visible, is strictly sorted by name and lists each name once" timeout=900 replay=objlayers known=D7
    #[kani::proof]
    #[kani::unwind(7)]
    fn fields_order_n3_k022() { fields_order_kinds(0, 2, 2); }
    //@harness props=C07,C05 strength=bounded tier=thorough bound="three-layer objects whose first name is, top to bottom, defined / absent / absent (any visibility, any remove depth <= 3) and whose second name is defined in the bottom layer; the 27 instances cover every kind vector" clause="the field list used by manifestation, std.length, objectFields(All) (get_fields_order) contains a name exactly when field lookup (in, objectHasAll, indexing) finds it, marks it hidden exactly when objectHas says it is not visible, is strictly sorted by name and lists each name once" timeout=900 replay=objlayers known=D7
    #[kani::proof]
    #[kani::unwind(7)]
    fn fields_order_n3_k100() { fields_order_kinds(1, 0, 0); }
    //@harness props=C07,C05 strength=bounded bound="three-layer objects whose first name is, top to bottom, defined / absent / defined (any visibility, any remove depth <= 3) and whose second name is defined in the bottom layer; the 27 instances cover every kind vector" clause="the field list used by manifestation, std.length, objectFields(All) (get_fields_order) contains a name exactly when field lookup (in, objectHasAll, indexing) finds it, marks it hidden exactly when objectHas says it is not visible, is strictly sorted by name and lists each name once" timeout=900 replay=objlayers known=D7
    #[kani::proof]
    #[kani::unwind(7)]
    fn fields_order_n3_k101() { fields_order_kinds(1, 0, 1); }
    //@harness props=C07,C05 strength=bounded tier=thorough bound="three-layer objects whose first name is, top to bottom, defined / absent / removed (any visibility, any remove depth <= 3) and whose second name is defined in the bottom layer; the 27 instances cover every kind vector" clause="the field list used by manifestation, std.length, objectFields(All) (get_fields_order) contains a name exactly when field lookup (in, objectHasAll, indexing) finds it, marks it hidden exactly when objectHas says it is not visible, is strictly sorted by name and lists each name once" timeout=900 replay=objlayers known=D7
    #[kani::proof]
    #[kani::unwind(7)]
    fn fields_order_n3_k102() { fields_order_kinds(1, 0, 2); }
    //@harness props=C07,C05 strength=bounded tier=thorough bound="three-layer objects whose first name is, top to bottom, defined / defined / absent (any visibility, any remove depth <= 3) and whose second name is defined in the bottom layer; the 27 instances cover every kind vector" clause="the field list used by manifestation, std.length, objectFields(All) (get_fields_order) contains a name exactly when field lookup (in, objectHasAll, indexing) finds it, marks it hidden exactly when objectHas says it is not visible, is strictly sorted by name and lists each name once" timeout=900 replay=objlayers known=D7
    #[kani::proof]
    #[kani::unwind(7)]
    fn fields_order_n3_k110() { fields_order_kinds(1, 1, 0); }
    //@harness props=C07,C05 strength=bounded bound="three-layer objects whose first name is, top to bottom, defined / defined / defined (any visibility, any remove depth <= 3) and whose second name is defined in the bottom layer; the 27 instances cover every kind vector" clause="the field list used by manifestation, std.length, objectFields(All) (get_fields_order) contains a name exactly when field lookup (in, objectHasAll, indexing) finds it, marks it hidden exactly when objectHas says it is not visible, is strictly sorted by name and lists each name once" timeout=900 replay=objlayers known=D7
    #[kani::proof]
    #[kani::unwind(7)]
    fn fields_order_n3_k111() { fields_order_kinds(1, 1, 1); }
    //@harness props=C07,C05 strength=bounded bound="three-layer objects whose first name is, top to bottom, defined / defined / removed (any visibility, any remove depth <= 3) and whose second name is defined in the bottom layer; the 27 instances cover every kind vector" clause="the field list used by manifestation, std.length, objectFields(All) (get_fields_order) contains a name exactly when field lookup (in, objectHasAll, indexing) finds it, marks it hidden exactly when objectHas says it is not visible, is strictly sorted by name and lists each name once" timeout=900 replay=objlayers known=D7
    #[kani::proof]
    #[kani::unwind(7)]
    fn fields_order_n3_k112() { fields_order_kinds(1, 1, 2); }
    //@harness props=C07,C05 strength=bounded bound="three-layer objects whose first name is, top to bottom, defined / removed / absent (any visibility, any remove depth <= 3) and whose second name is defined in the bottom layer; the 27 instances cover every kind vector" clause="the field list used by manifestation, std.length, objectFields(All) (get_fields_order) contains a name exactly when field lookup (in, objectHasAll, indexing) finds it, marks it hidden exactly when objectHas says it is not visible, is strictly sorted by name and lists each name once" timeout=900 replay=objlayers known=D7
    #[kani::proof]
    #[kani::unwind(7)]
    fn fields_order_n3_k120() { fields_order_kinds(1, 2, 0); }
    //@harness props=C07,C05 strength=bounded bound="three-layer objects whose first name is, top to bottom, defined / removed / defined (any visibility, any remove depth <= 3) and whose second name is defined in the bottom layer; the 27 instances cover every kind vector" clause="the field list used by manifestation, std.length, objectFields(All) (get_fields_order) contains a name exactly when field lookup (in, objectHasAll, indexing) finds it, marks it hidden exactly when objectHas says it is not visible, is strictly sorted by name and lists each name once" timeout=900 replay=objlayers known=D7
    #[kani::proof]
    #[kani::unwind(7)]
    fn fields_order_n3_k121() { fields_order_kinds(1, 2, 1); }
    //@harness props=C07,C05 strength=bounded tier=thorough bound="three-layer objects whose first name is, top to bottom, defined / removed / removed (any visibility, any remove depth <= 3) and whose second name is defined in the bottom layer; the 27 instances cover every kind vector" clause="the field list used by manifestation, std.length, objectFields(All) (get_fields_order) contains a name exactly when field lookup (in, objectHasAll, indexing) finds it, marks it hidden exactly when objectHas says it is not visible, is strictly sorted by name and lists each name once" timeout=900 replay=objlayers known=D7
    #[kani::proof]
    #[kani::unwind(7)]
    fn fields_order_n3_k122() { fields_order_kinds(1, 2, 2); }
    //@harness props=C07,C05 strength=bounded tier=thorough bound="three-layer objects whose first name is, top to bottom, removed / absent / absent (any visibility, any remove depth <= 3) and whose second name is defined in the bottom layer; the 27 instances cover every kind vector" clause="the field list used by manifestation, std.length, objectFields(All) (get_fields_order) contains a name exactly when field lookup (in, objectHasAll, indexing) finds it, marks it hidden exactly when objectHas says it is not visible, is strictly sorted by name and lists each name once" timeout=900 replay=objlayers known=D7
    #[kani::proof]
    #[kani::unwind(7)]
    fn fields_order_n3_k200() { fields_order_kinds(2, 0, 0); }
    //@harness props=C07,C05 strength=bounded tier=thorough bound="three-layer objects whose first name is, top to bottom, removed / absent / defined (any visibility, any remove depth <= 3) and whose second name is defined in the bottom layer; the 27 instances cover every kind vector" clause="the field list used by manifestation, std.length, objectFields(All) (get_fields_order) contains a name exactly when field lookup (in, objectHasAll, indexing) finds it, marks it hidden exactly when objectHas says it is not visible, is strictly sorted by name and lists each name once" timeout=900 replay=objlayers known=D7
    #[kani::proof]
    #[kani::unwind(7)]
    fn fields_order_n3_k201() { fields_order_kinds(2, 0, 1); }
    //@harness props=C07,C05 strength=bounded tier=thorough bound="three-layer objects whose first name is, top to bottom, removed / absent / removed (any visibility, any remove depth <= 3) and whose second name is defined in the bottom layer; the 27 instances cover every kind vector" clause="the field list used by manifestation, std.length, objectFields(All) (get_fields_order) contains a name exactly when field lookup (in, objectHasAll, indexing) finds it, marks it hidden exactly when objectHas says it is not visible, is strictly sorted by name and lists each name once" timeout=900 replay=objlayers known=D7
    #[kani::proof]
    #[kani::unwind(7)]
    fn fields_order_n3_k202() { fields_order_kinds(2, 0, 2); }
    //@harness props=C07,C05 strength=bounded tier=thorough bound="three-layer objects whose first name is, top to bottom, removed / defined / absent (any visibility, any remove depth <= 3) and whose second name is defined in the bottom layer; the 27 instances cover every kind vector" clause="the field list used by manifestation, std.length, objectFields(All) (get_fields_order) contains a name exactly when field lookup (in, objectHasAll, indexing) finds it, marks it hidden exactly when objectHas says it is not visible, is strictly sorted by name and lists each name once" timeout=900 replay=objlayers known=D7
    #[kani::proof]
    #[kani::unwind(7)]
    fn fields_order_n3_k210() { fields_order_kinds(2, 1, 0); }
    //@harness props=C07,C05 strength=bounded bound="three-layer objects whose first name is, top to bottom, removed / defined / defined (any visibility, any remove depth <= 3) and whose second name is defined in the bottom layer; the 27 instances cover every kind vector" clause="the field list used by manifestation, std.length, objectFields(All) (get_fields_order) contains a name exactly when field lookup (in, objectHasAll, indexing) finds it, marks it hidden exactly when objectHas says it is not visible, is strictly sorted by name and lists each name once" timeout=900 replay=objlayers known=D7
    #[kani::proof]
    #[kani::unwind(7)]
    fn fields_order_n3_k211() { fields_order_kinds(2, 1, 1); }
    //@harness props=C07,C05 strength=bounded tier=thorough bound="three-layer objects whose first name is, top to bottom, removed / defined / removed (any visibility, any remove depth <= 3) and whose second name is defined in the bottom layer; the 27 instances cover every kind vector" clause="the field list used by manifestation, std.length, objectFields(All) (get_fields_order) contains a name exactly when field lookup (in, objectHasAll, indexing) finds it, marks it hidden exactly when objectHas says it is not visible, is strictly sorted by name and lists each name once" timeout=900 replay=objlayers known=D7
    #[kani::proof]
    #[kani::unwind(7)]
    fn fields_order_n3_k212() { fields_order_kinds(2, 1, 2); }
    //@harness props=C07,C05 strength=bounded tier=thorough bound="three-layer objects whose first name is, top to bottom, removed / removed / absent (any visibility, any remove depth <= 3) and whose second name is defined in the bottom layer; the 27 instances cover every kind vector" clause="the field list used by manifestation, std.length, objectFields(All) (get_fields_order) contains a name exactly when field lookup (in, objectHasAll, indexing) finds it, marks it hidden exactly when objectHas says it is not visible, is strictly sorted by name and lists each name once" timeout=900 replay=objlayers known=D7
    #[kani::proof]
    #[kani::unwind(7)]
    fn fields_order_n3_k220() { fields_order_kinds(2, 2, 0); }
    //@harness props=C07,C05 strength=bounded bound="three-layer objects whose first name is, top to bottom, removed / removed / defined (any visibility, any remove depth <= 3) and whose second name is defined in the bottom layer; the 27 instances cover every kind vector" clause="the field list used by manifestation, std.length, objectFields(All) (get_fields_order) contains a name exactly when field lookup (in, objectHasAll, indexing) finds it, marks it hidden exactly when objectHas says it is not visible, is strictly sorted by name and lists each name once" timeout=900 replay=objlayers known=D7
    #[kani::proof]
    #[kani::unwind(7)]
    fn fields_order_n3_k221() { fields_order_kinds(2, 2, 1); }
    //@harness props=C07,C05 strength=bounded tier=thorough bound="three-layer objects whose first name is, top to bottom, removed / removed / removed (any visibility, any remove depth <= 3) and whose second name is defined in the bottom layer; the 27 instances cover every kind vector" clause="the field list used by manifestation, std.length, objectFields(All) (get_fields_order) contains a name exactly when field lookup (in, objectHasAll, indexing) finds it, marks it hidden exactly when objectHas says it is not visible, is strictly sorted by name and lists each name once" timeout=900 replay=objlayers known=D7
    #[kani::proof]
    #[kani::unwind(7)]
    fn fields_order_n3_k222() { fields_order_kinds(2, 2, 2); }
    /// witness class of known finding D7: a `:` definition above a remove marker above a deeper definition
    fn d7_class(n: usize, es: &[E; MAXL]) -> bool {
        let mut i = 0; let mut default_seen = false;
        while i < n { match es[i] { E::N(V::Default) => default_seen = true, E::N(_) => return false, E::R(_) => return default_seen, E::Absent => {} } i += 1; }
        false
    }

    fn extend_object_concatenates_layers_at(na: usize, nb: usize) {
        let (na, ea, oa, a0) = any_object(na, 2);
        let (nb, eb, ob, b0) = any_object(nb, 2);
        // any layer of either operand may carry an object-level assert; both operands have been checked already
        let fa: [bool; 2] = [kani::any(), kani::any()]; let fb: [bool; 2] = [kani::any(), kani::any()];
        let with_asserts = |n: usize, es: &[E; MAXL], os: &[E; MAXL], f: &[bool; 2]| -> &'static ObjectData<'static> {
            let mut supers = Vec::new(); if n == 2 { supers.push(layer_a(es[1], os[1], f[1])); }
            Box::leak(Box::new(ObjectData { self_layer: layer_a(es[0], os[0], f[0]), super_layers: supers, fields_order: OnceCell::new(), asserts_checked: Cell::new(true) }))
        };
        let a = with_asserts(na, &ea, &oa, &fa); let b = with_asserts(nb, &eb, &ob, &fb);
        let mut p = Program { str_interner: StrInterner, _p: PhantomData };
        let r = p.extend_object(a, b);
        let r = r.view();
        // late binding of self: an assert of ANY layer speaks about the combined object, so it has to be
        // checked again for the result (unless there is none)
        let any_assert = fa[0] || (na == 2 && fa[1]) || fb[0] || (nb == 2 && fb[1]);
        if any_assert { assert!(!r.asserts_checked.get(), "C07:objlayers:asserts-of-every-layer-are-rechecked-against-the-combined-object"); }
        let mut k = 0;
        while k < na + nb { let want = if k < nb { fb[k] } else { fa[k - nb] }; assert!(r.get_layer(k).asserts.len() == want as usize, "C07:objlayers:extend-keeps-the-asserts-of-every-layer"); k += 1; }
        assert!(1 + r.super_layers.len() == na + nb, "C07:objlayers:extend-has-all-layers-of-both");
        let mut i = 0;
        while i < na + nb {
            let l = r.get_layer(i);
            let (we, wo) = if i < nb { (eb[i], ob[i]) } else { (ea[i - nb], oa[i - nb]) };
            assert!(entry_of(l, NAME) == we && entry_of(l, OTHER) == wo, "C07:objlayers:extend-is-rhs-layers-then-lhs-layers-entries-preserved");
            i += 1;
        }
        assert!(r.fields_order.get().is_none(), "C07:objlayers:extend-does-not-inherit-a-cached-field-list");
    }
    //@harness props=C07 strength=bounded bound="A and B of 1..2 layers each, two names, every entry combination; this instance: A and B of 1 layer each" clause="A + B: the layers of the result are B's layers followed by A's layers, every entry (visibility, remove depth) preserved - so the per-name view of (A + B) + C and A + (B + C) is the same list C ++ B ++ A, and {} + A, A + {} have A's view (an empty layer defines nothing); the object-level asserts of every layer are kept and, if there is any, the result is marked unchecked so that they run against the combined object (late-bound self)" replay=objlayers timeout=900
    #[kani::proof]
    #[kani::unwind(7)]
    fn extend_object_concatenates_layers_1_1() { extend_object_concatenates_layers_at(1, 1); }
    //@harness props=C07 strength=bounded bound="A and B of 1..2 layers each, two names, every entry combination; this instance: A of 1 layer, B of 2" clause="A + B: the layers of the result are B's layers followed by A's layers, every entry (visibility, remove depth) preserved - so the per-name view of (A + B) + C and A + (B + C) is the same list C ++ B ++ A, and {} + A, A + {} have A's view (an empty layer defines nothing); the object-level asserts of every layer are kept and, if there is any, the result is marked unchecked so that they run against the combined object (late-bound self)" replay=objlayers timeout=900
    #[kani::proof]
    #[kani::unwind(7)]
    fn extend_object_concatenates_layers_1_2() { extend_object_concatenates_layers_at(1, 2); }
    //@harness props=C07 strength=bounded bound="A and B of 1..2 layers each, two names, every entry combination; this instance: A of 2 layers, B of 1" clause="A + B: the layers of the result are B's layers followed by A's layers, every entry (visibility, remove depth) preserved - so the per-name view of (A + B) + C and A + (B + C) is the same list C ++ B ++ A, and {} + A, A + {} have A's view (an empty layer defines nothing); the object-level asserts of every layer are kept and, if there is any, the result is marked unchecked so that they run against the combined object (late-bound self)" replay=objlayers timeout=900
    #[kani::proof]
    #[kani::unwind(7)]
    fn extend_object_concatenates_layers_2_1() { extend_object_concatenates_layers_at(2, 1); }
    //@harness props=C07 strength=bounded bound="A and B of 1..2 layers each, two names, every entry combination; this instance: A and B of 2 layers each" clause="A + B: the layers of the result are B's layers followed by A's layers, every entry (visibility, remove depth) preserved - so the per-name view of (A + B) + C and A + (B + C) is the same list C ++ B ++ A, and {} + A, A + {} have A's view (an empty layer defines nothing); the object-level asserts of every layer are kept and, if there is any, the result is marked unchecked so that they run against the combined object (late-bound self)" replay=objlayers timeout=900
    #[kani::proof]
    #[kani::unwind(7)]
    fn extend_object_concatenates_layers_2_2() { extend_object_concatenates_layers_at(2, 2); }

    fn remove_key_removes_exactly_the_named_field_at(n: usize) {
        let (n, es, os, o) = any_object(n, 2);
        //@known D7 kani::assume(!d7_class(n, &os));
        let before_other = o.find_field(0, OTHER).map(|(i, _)| i);
        let before_vis = o.has_visible_field(OTHER);
        let mut p = Program { str_interner: StrInterner, _p: PhantomData };
        let r = p.object_with_field_removed(o, NAME);
        let r = r.view();
        assert!(r.find_field(0, NAME).is_none() && !r.has_visible_field(NAME), "C07:objlayers:removed-field-no-longer-exists");
        assert!(r.find_field(0, OTHER).map(|(i, _)| i) == before_other.map(|i| i + 1), "C07:objlayers:other-field-keeps-its-defining-layer");
        assert!(r.has_visible_field(OTHER) == before_vis, "C07:objlayers:other-field-keeps-its-visibility");
        let order = r.get_fields_order();
        let mut i = 0; let mut other_listed = false;
        while i < order.len() { assert!(order[i].0 != NAME, "C07:objlayers:removed-field-not-listed"); if order[i].0 == OTHER { other_listed = true; assert!((order[i].1 != V::Hidden) == before_vis, "C07:objlayers:other-field-listed-with-its-visibility"); } i += 1; }
        assert!(other_listed == before_other.is_some(), "C07:objlayers:other-field-still-listed");
    }
    //@harness props=C07 strength=bounded bound="object of 1..3 layers, two names, every entry combination (remove depth <= 2); this instance: exactly 1 layer" clause="objectRemoveKey(o, name): afterwards the name does not exist (lookup, objectHas, field list), and the other name's existence, defining layer and visibility are exactly what they were" timeout=900 replay=objlayers known=D7
    #[kani::proof]
    #[kani::unwind(7)]
    fn remove_key_removes_exactly_the_named_field_n1() { remove_key_removes_exactly_the_named_field_at(1); }
    //@harness props=C07 strength=bounded bound="object of 1..3 layers, two names, every entry combination (remove depth <= 2); this instance: exactly 2 layers" clause="objectRemoveKey(o, name): afterwards the name does not exist (lookup, objectHas, field list), and the other name's existence, defining layer and visibility are exactly what they were" timeout=900 replay=objlayers known=D7
    #[kani::proof]
    #[kani::unwind(7)]
    fn remove_key_removes_exactly_the_named_field_n2() { remove_key_removes_exactly_the_named_field_at(2); }
    //@harness props=C07 strength=bounded bound="object of 1..3 layers, two names, every entry combination (remove depth <= 2); this instance: exactly 3 layers" clause="objectRemoveKey(o, name): afterwards the name does not exist (lookup, objectHas, field list), and the other name's existence, defining layer and visibility are exactly what they were" timeout=900 replay=objlayers known=D7
    #[kani::proof]
    #[kani::unwind(7)]
    fn remove_key_removes_exactly_the_named_field_n3() { remove_key_removes_exactly_the_named_field_at(3); }

    fn any_present(maxd: usize) -> E { let k: u8 = kani::any(); if k % 2 == 0 { E::N(any_vis()) } else { let d: usize = kani::any(); kani::assume(d <= maxd); E::R(d) } }

    //@harness props=C07 strength=bounded expect=fail clause="canary"
    #[kani::proof]
    #[kani::unwind(7)]
    fn objlayers_canary() {
        let (n, es, os, o) = any_object(2, 1);
        assert!(o.has_visible_field(NAME) == o.has_field(0, NAME), "canary:objlayers:every-field-is-visible");
    }
}
} // mod u
fn main() {}
