// Unit objlayers: field lookup in the layered object representation.  Extracted verbatim from
// program/data.rs: ObjectData (struct + get_layer, find_field, has_field, has_visible_field), ObjectLayer,
// ObjectField, ObjectFieldData.
// NOT in this unit (each tried, each beyond CBMC here - DESIGN section 11): get_fields_order (field list of
// manifestation / objectFields; one-layer objects did not finish in 5 min, two-layer ones needed > 20 GB, with
// the real BTreeMap and with a two-slot replacement alike), Program::extend_object and
// object_with_field_removed (cloning layers: the SAT instance exceeded 20 GB for 1 + 1 layers even with
// concrete entry kinds).  For those two, what remains is the frame obligation F-objfresh (the combined object
// starts unchecked, no cached field list) and unit rmkey (std.objectRemoveKey's own decision logic).
// Hand-written environment: Gc (raw pointers), interned strings (small ids, ordered by id), FHashMap bound to a
// two-slot map (shim/slotmap.rs; the extracted text uses only get on it).
#![allow(dead_code, unused)]
mod u {
use std::cell::{Cell, OnceCell, RefCell};
use std::marker::PhantomData;
use std::rc::Rc;
//@include shim/slotmap.rs
#[derive(Clone, Copy, PartialEq, Eq, PartialOrd, Ord, Debug)]
pub struct InternedStr<'p>(pub u8, pub PhantomData<&'p ()>);
// shim of interner::SortedInternedStr: orders by string value; here names are ids ordered by id
#[derive(Clone, Copy, PartialEq, Eq, PartialOrd, Ord)]
pub struct SortedInternedStr<'p>(pub InternedStr<'p>);
pub mod ast { #[derive(Clone, Copy, PartialEq, Eq, Debug)] pub enum Visibility { Default, Hidden, ForceVisible } }
pub mod ir { pub struct Expr<'p>(pub u8, pub std::marker::PhantomData<&'p ()>); pub struct Assert<'p>(pub u8, pub std::marker::PhantomData<&'p ()>); }
// raw-pointer handles, nothing is ever freed (Rc's recursive drop glue is what CBMC chokes on)
pub struct Gc<T>(pub *const T);
impl<T> Clone for Gc<T> { fn clone(&self) -> Self { Gc(self.0) } }
impl<T> Gc<T> { pub fn new(v: T) -> Self { Gc(Box::into_raw(Box::new(v))) } pub fn view(&self) -> GcView<T> { GcView(self.0) } }
pub struct GcView<T>(pub *const T);
impl<T> std::ops::Deref for GcView<T> { type Target = T; fn deref(&self) -> &T { unsafe { &*self.0 } } }
pub struct ThunkEnv<'p>(pub PhantomData<&'p ()>);
pub struct ThunkData<'p>(pub u8, pub PhantomData<&'p ()>);
impl<T> From<&GcView<T>> for Gc<T> { fn from(v: &GcView<T>) -> Self { Gc(v.0) } }
// shim interner: the names "a" / "b" are interned as ids 1 / 2, nothing else is
pub struct StrInterner;
impl StrInterner { pub fn get_interned<'p>(&self, s: &str) -> Option<InternedStr<'p>> { if s == "a" { Some(InternedStr(1, PhantomData)) } else if s == "b" { Some(InternedStr(2, PhantomData)) } else { None } } }
pub struct Program<'p> { pub str_interner: StrInterner, pub _p: PhantomData<&'p ()> }
impl<'p> Program<'p> { fn gc_alloc<T>(&mut self, v: T) -> Gc<T> { Gc::new(v) } }
pub enum ValueData<'p> { Null, String(Rc<str>), Object(Gc<ObjectData<'p>>) }
pub struct EvalError;
type EvalResult<T> = Result<T, Box<EvalError>>;
pub struct Evaluator<'a, 'p> { program: &'a mut Program<'p>, value_stack: Vec<ValueData<'p>> }
impl<'a, 'p> Evaluator<'a, 'p> {
    // shims of the argument-type checks: the right type is unwrapped, anything else is the type error
    fn expect_std_func_arg_object(&self, v: ValueData<'p>, _f: &str, _i: usize) -> EvalResult<GcView<ObjectData<'p>>> { match v { ValueData::Object(o) => Ok(o.view()), _ => Err(Box::new(EvalError)) } }
    fn expect_std_func_arg_string(&self, v: ValueData<'p>, _f: &str, _i: usize) -> EvalResult<Rc<str>> { match v { ValueData::String(s) => Ok(s), _ => Err(Box::new(EvalError)) } }
}

// ---- extracted, verbatim -------------------------------------------------------------------
//@extract file=rsjsonnet-lang/src/program/data.rs item=struct:ObjectData
//@extract file=rsjsonnet-lang/src/program/data.rs impl=ObjectData methods=new_empty,get_layer,find_field,has_field,has_visible_field
//@extract file=rsjsonnet-lang/src/program/data.rs item=struct:ObjectLayer
//@extract file=rsjsonnet-lang/src/program/data.rs item=enum:ObjectField
//@extract file=rsjsonnet-lang/src/program/data.rs item=struct:ObjectFieldData

#[cfg(kani)]
mod vharness {
    use super::*;
    use super::ast::Visibility as V;

    /// abstract view of one field name in one layer
    #[derive(Clone, Copy, PartialEq, Eq)]
    enum E { Absent, N(V), R(usize) }
    const NAME: InternedStr<'static> = InternedStr(1, PhantomData);
    const OTHER: InternedStr<'static> = InternedStr(2, PhantomData);
    const MAXL: usize = 4;

    fn any_vis() -> V { let k: u8 = kani::any(); match k % 3 { 0 => V::Default, 1 => V::Hidden, _ => V::ForceVisible } }
    fn any_entry(maxd: usize) -> E {
        let k: u8 = kani::any();
        match k % 3 { 0 => E::Absent, 1 => E::N(any_vis()), _ => { let d: usize = kani::any(); kani::assume(1 <= d && d <= maxd); E::R(d) } }
    }
    fn field(e: E) -> Option<ObjectField<'static>> {
        match e {
            E::Absent => None,
            E::N(v) => Some(ObjectField::Normal(ObjectFieldData { base_env: None, visibility: v, expr: None, thunk: OnceCell::new() })),
            E::R(d) => Some(ObjectField::Removed(d)),
        }
    }
    static ONE_ASSERT: [ir::Assert<'static>; 1] = [ir::Assert(0, PhantomData)];
    fn layer(a: E, b: E) -> ObjectLayer<'static> { layer_a(a, b, false) }
    fn layer_a(a: E, b: E, has_assert: bool) -> ObjectLayer<'static> {
        // both slots are always written: which names exist is carried by the Option tags only
        let fields: FHashMap<InternedStr<'static>, ObjectField<'static>> = FHashMap::from_slots(field(a).map(|f| (NAME, f)), field(b).map(|f| (OTHER, f)));
        ObjectLayer { is_top: false, locals: &[], base_env: None, env: OnceCell::new(), fields, asserts: if has_assert { &ONE_ASSERT } else { &[] } }
    }
    /// object with `n` layers (1..=MAXL); es[i] / os[i] = entries of NAME / OTHER in layer i (0 = top)
    fn object(n: usize, es: &[E; MAXL], os: &[E; MAXL]) -> ObjectData<'static> {
        let mut supers = Vec::with_capacity(n);
        let mut i = 1;
        while i < n { supers.push(layer(es[i], os[i])); i += 1; }
        ObjectData { self_layer: layer(es[0], os[0]), super_layers: supers, fields_order: OnceCell::new(), asserts_checked: Cell::new(true) }
    }
    fn entry_of(l: &ObjectLayer<'_>, name: InternedStr<'static>) -> E {
        match l.fields.get(&name) { None => E::Absent, Some(ObjectField::Normal(d)) => E::N(d.visibility), Some(ObjectField::Removed(d)) => E::R(*d) }
    }

    // ---- specification (from the language definition of inheritance, not from the code) --------
    // Layers are listed from the right-most operand of `+` (index 0) to the left-most.  A field
    // exists if some layer defines it and no `objectRemoveKey` marker above hides that layer: a marker
    // R(d) makes the d layers directly below it invisible for this name.  Visibility: the first
    // `::` or `:::` met from the top decides; `:` inherits from below; only `:` anywhere => visible.
    fn spec_lookup(n: usize, es: &[E; MAXL], from: usize) -> Option<usize> {
        let mut i = from;
        while i < n { match es[i] { E::N(_) => return Some(i), E::R(d) => i += d, E::Absent => {} } i += 1; }
        None
    }
    fn spec_visible(n: usize, es: &[E; MAXL]) -> bool {
        let mut i = 0; let mut found = false;
        while i < n {
            match es[i] { E::N(V::Default) => found = true, E::N(V::Hidden) => return false, E::N(V::ForceVisible) => return true, E::R(d) => i += d, E::Absent => {} }
            i += 1;
        }
        found
    }

    /// an object of exactly `n` layers (n is CONCRETE per harness instance) with any entries
    fn any_object(n: usize, maxd: usize) -> (usize, [E; MAXL], [E; MAXL], &'static ObjectData<'static>) {
        let es = [any_entry(maxd), any_entry(maxd), any_entry(maxd), any_entry(maxd)];
        let os = [any_entry(maxd), any_entry(maxd), any_entry(maxd), any_entry(maxd)];
        // leaked: nothing is dropped in a harness (drop glue of nested Vec/OnceCell is pure cost for CBMC)
        let o: &'static ObjectData<'static> = Box::leak(Box::new(object(n, &es, &os)));
        (n, es, os, o)
    }

    fn lookup_and_visibility_contract_at(n: usize) {
        let (n, es, os, o) = any_object(n, 3);
        let from: usize = kani::any(); kani::assume(from < n);
        let got = o.find_field(from, NAME).map(|(i, _)| i);
        assert!(got == spec_lookup(n, &es, from), "C07:objlayers:find-field-is-first-effective-definition");
        assert!(o.has_field(from, NAME) == spec_lookup(n, &es, from).is_some(), "C07:objlayers:has-field-agrees-with-find-field");
        assert!(o.has_visible_field(NAME) == spec_visible(n, &es), "C07:objlayers:has-visible-field-follows-the-visibility-rules");
        if spec_visible(n, &es) { assert!(spec_lookup(n, &es, 0).is_some(), "C07:objlayers:visible-implies-exists"); }
    }
    //@harness props=C07,C01 quickfor=C07,C05 strength=bounded bound="objects of 1..3 layers, two field names, every combination of per-layer entries {absent, :, ::, :::, removed(1<=d<=3)}; this instance: exactly 1 layer" clause="find_field(from, name) returns the first layer at or below `from` that defines the name and is not hidden by a remove marker (has_field accordingly); has_visible_field equals the :, ::, ::: visibility rule" timeout=900 replay=objlayers
    #[kani::proof]
    #[kani::unwind(7)]
    fn lookup_and_visibility_contract_n1() { lookup_and_visibility_contract_at(1); }
    //@harness props=C07,C01 quickfor=C07,C05 strength=bounded bound="objects of 1..3 layers, two field names, every combination of per-layer entries {absent, :, ::, :::, removed(1<=d<=3)}; this instance: exactly 2 layers" clause="find_field(from, name) returns the first layer at or below `from` that defines the name and is not hidden by a remove marker (has_field accordingly); has_visible_field equals the :, ::, ::: visibility rule" timeout=900 replay=objlayers
    #[kani::proof]
    #[kani::unwind(7)]
    fn lookup_and_visibility_contract_n2() { lookup_and_visibility_contract_at(2); }
    //@harness props=C07,C01 quickfor=C07,C05 strength=bounded bound="objects of 1..3 layers, two field names, every combination of per-layer entries {absent, :, ::, :::, removed(1<=d<=3)}; this instance: exactly 3 layers" clause="find_field(from, name) returns the first layer at or below `from` that defines the name and is not hidden by a remove marker (has_field accordingly); has_visible_field equals the :, ::, ::: visibility rule" timeout=900 replay=objlayers
    #[kani::proof]
    #[kani::unwind(7)]
    fn lookup_and_visibility_contract_n3() { lookup_and_visibility_contract_at(3); }

    fn any_present(maxd: usize) -> E { let k: u8 = kani::any(); if k % 2 == 0 { E::N(any_vis()) } else { let d: usize = kani::any(); kani::assume(1 <= d && d <= maxd); E::R(d) } }

    //@harness props=C07 strength=bounded expect=fail clause="canary"
    #[kani::proof]
    #[kani::unwind(7)]
    fn objlayers_canary() {
        let (n, es, os, o) = any_object(2, 1);
        assert!(o.has_visible_field(NAME) == o.has_field(0, NAME), "canary:objlayers:every-field-is-visible");
    }
}
} // mod u
fn main() {}
