// Unit objlayers: the layered object representation.  Extracted verbatim from program/data.rs:
// ObjectData (struct + get_layer, find_field, has_field, get_fields_order,
// get_visible_fields_order, has_visible_field), ObjectLayer, ObjectField, ObjectFieldData,
// Program::{extend_object, object_with_field_removed}, extend_object_clone_field / _layer.
// Hand-written environment: Gc (Rc), interned strings (small ids, ordered by id), FHashMap bound
// to an association list (shim/vecmap.rs; the extracted text uses only get / iter / collect /
// default on it).
#![allow(dead_code, unused)]
mod u {
use std::cell::{Cell, OnceCell, RefCell};
use std::collections::BTreeMap;
use std::marker::PhantomData;
use std::rc::Rc;
//@include shim/vecmap.rs
#[derive(Clone, Copy, PartialEq, Eq, PartialOrd, Ord, Debug)]
pub struct InternedStr<'p>(pub u8, pub PhantomData<&'p ()>);
// shim of interner::SortedInternedStr: orders by string value; here names are ids ordered by id
#[derive(Clone, Copy, PartialEq, Eq, PartialOrd, Ord)]
pub struct SortedInternedStr<'p>(pub InternedStr<'p>);
pub mod ast { #[derive(Clone, Copy, PartialEq, Eq, Debug)] pub enum Visibility { Default, Hidden, ForceVisible } }
pub mod ir { pub struct Expr<'p>(pub u8, pub std::marker::PhantomData<&'p ()>); pub struct Assert<'p>(pub u8, pub std::marker::PhantomData<&'p ()>); }
// raw-pointer handles, nothing is ever freed (Rc's recursive drop glue is what CBMC chokes on)
pub struct Gc<T>(pub *const T);
impl<T> Clone for Gc<T> { fn clone(&self) -> Self { Gc(self.0) } }
impl<T> Gc<T> { pub fn new(v: T) -> Self { Gc(Box::into_raw(Box::new(v))) } pub fn view(&self) -> GcView<T> { GcView(self.0) } }
pub struct GcView<T>(pub *const T);
impl<T> std::ops::Deref for GcView<T> { type Target = T; fn deref(&self) -> &T { unsafe { &*self.0 } } }
pub struct ThunkEnv<'p>(pub PhantomData<&'p ()>);
pub struct ThunkData<'p>(pub u8, pub PhantomData<&'p ()>);
pub struct Program<'p>(pub PhantomData<&'p ()>);
impl<'p> Program<'p> { fn gc_alloc<T>(&mut self, v: T) -> Gc<T> { Gc::new(v) } }

// ---- extracted, verbatim -------------------------------------------------------------------
//@extract file=rsjsonnet-lang/src/program/data.rs item=struct:ObjectData
//@extract file=rsjsonnet-lang/src/program/data.rs impl=ObjectData methods=new_empty,get_layer,find_field,has_field,get_fields_order,get_visible_fields_order,has_visible_field
//@extract file=rsjsonnet-lang/src/program/data.rs item=struct:ObjectLayer
//@extract file=rsjsonnet-lang/src/program/data.rs item=enum:ObjectField
//@extract file=rsjsonnet-lang/src/program/data.rs item=struct:ObjectFieldData
//@extract file=rsjsonnet-lang/src/program/data.rs impl=Program methods=extend_object,object_with_field_removed
//@extract file=rsjsonnet-lang/src/program/data.rs item=fn:extend_object_clone_field
//@extract file=rsjsonnet-lang/src/program/data.rs item=fn:extend_object_clone_layer

#[cfg(kani)]
mod vharness {
    use super::*;
    use super::ast::Visibility as V;

    /// abstract view of one field name in one layer
    #[derive(Clone, Copy, PartialEq, Eq)]
    enum E { Absent, N(V), R(usize) }
    const NAME: InternedStr<'static> = InternedStr(1, PhantomData);
    const OTHER: InternedStr<'static> = InternedStr(2, PhantomData);
    const MAXL: usize = 4;

    fn any_vis() -> V { let k: u8 = kani::any(); match k % 3 { 0 => V::Default, 1 => V::Hidden, _ => V::ForceVisible } }
    fn any_entry(maxd: usize) -> E {
        let k: u8 = kani::any();
        match k % 3 { 0 => E::Absent, 1 => E::N(any_vis()), _ => { let d: usize = kani::any(); kani::assume(d <= maxd); E::R(d) } }
    }
    fn field(e: E) -> Option<ObjectField<'static>> {
        match e {
            E::Absent => None,
            E::N(v) => Some(ObjectField::Normal(ObjectFieldData { base_env: None, visibility: v, expr: None, thunk: OnceCell::new() })),
            E::R(d) => Some(ObjectField::Removed(d)),
        }
    }
    fn layer(a: E, b: E) -> ObjectLayer<'static> {
        let mut fields: FHashMap<InternedStr<'static>, ObjectField<'static>> = FHashMap::default();
        if let Some(f) = field(a) { fields.insert(NAME, f); }
        if let Some(f) = field(b) { fields.insert(OTHER, f); }
        ObjectLayer { is_top: false, locals: &[], base_env: None, env: OnceCell::new(), fields, asserts: &[] }
    }
    /// object with `n` layers (1..=MAXL); es[i] / os[i] = entries of NAME / OTHER in layer i (0 = top)
    fn object(n: usize, es: &[E; MAXL], os: &[E; MAXL]) -> ObjectData<'static> {
        let mut supers = Vec::new();
        let mut i = 1;
        while i < n { supers.push(layer(es[i], os[i])); i += 1; }
        ObjectData { self_layer: layer(es[0], os[0]), super_layers: supers, fields_order: OnceCell::new(), asserts_checked: Cell::new(true) }
    }
    fn entry_of(l: &ObjectLayer<'_>, name: InternedStr<'static>) -> E {
        match l.fields.get(&name) { None => E::Absent, Some(ObjectField::Normal(d)) => E::N(d.visibility), Some(ObjectField::Removed(d)) => E::R(*d) }
    }

    // ---- specification (from the language definition of inheritance, not from the code) --------
    // Layers are listed from the right-most operand of `+` (index 0) to the left-most.  A field
    // exists if some layer defines it and no `objectRemoveKey` marker above hides that layer: a marker
    // R(d) makes the d layers directly below it invisible for this name.  Visibility: the first
    // `::` or `:::` met from the top decides; `:` inherits from below; only `:` anywhere => visible.
    fn spec_lookup(n: usize, es: &[E; MAXL], from: usize) -> Option<usize> {
        let mut i = from;
        while i < n { match es[i] { E::N(_) => return Some(i), E::R(d) => i += d, E::Absent => {} } i += 1; }
        None
    }
    fn spec_visible(n: usize, es: &[E; MAXL]) -> bool {
        let mut i = 0; let mut found = false;
        while i < n {
            match es[i] { E::N(V::Default) => found = true, E::N(V::Hidden) => return false, E::N(V::ForceVisible) => return true, E::R(d) => i += d, E::Absent => {} }
            i += 1;
        }
        found
    }

    fn any_object(maxn: usize, maxd: usize) -> (usize, [E; MAXL], [E; MAXL], &'static ObjectData<'static>) {
        let n: usize = kani::any(); kani::assume(n >= 1 && n <= maxn);
        let es = [any_entry(maxd), any_entry(maxd), any_entry(maxd), any_entry(maxd)];
        let os = [any_entry(maxd), any_entry(maxd), any_entry(maxd), any_entry(maxd)];
        // leaked: nothing is dropped in a harness (drop glue of nested Vec/OnceCell is pure cost for CBMC)
        let o: &'static ObjectData<'static> = Box::leak(Box::new(object(n, &es, &os)));
        (n, es, os, o)
    }

    //@harness props=C07,C01 strength=bounded bound="objects of 1..3 layers, two field names, every combination of per-layer entries {absent, :, ::, :::, removed(d<=3)}" clause="find_field(from, name) returns the first layer at or below `from` that defines the name and is not hidden by a remove marker (has_field accordingly); has_visible_field equals the :, ::, ::: visibility rule" timeout=1200 replay=objlayers
    #[kani::proof]
    #[kani::unwind(7)]
    fn lookup_and_visibility_contract() {
        let (n, es, os, o) = any_object(3, 3);
        let from: usize = kani::any(); kani::assume(from < n);
        let got = o.find_field(from, NAME).map(|(i, _)| i);
        assert!(got == spec_lookup(n, &es, from), "C07:objlayers:find-field-is-first-effective-definition");
        assert!(o.has_field(from, NAME) == spec_lookup(n, &es, from).is_some(), "C07:objlayers:has-field-agrees-with-find-field");
        assert!(o.has_visible_field(NAME) == spec_visible(n, &es), "C07:objlayers:has-visible-field-follows-the-visibility-rules");
        if spec_visible(n, &es) { assert!(spec_lookup(n, &es, 0).is_some(), "C07:objlayers:visible-implies-exists"); }
    }

    //@harness props=C07,C05 strength=bounded bound="objects of 1..3 layers, two field names, every combination of per-layer entries {absent, :, ::, :::, removed(d<=3)}" clause="the field list used by manifestation, std.length, objectFields(All) (get_fields_order) contains a name exactly when field lookup (in, objectHasAll, indexing) finds it, marks it hidden exactly when objectHas says it is not visible, is strictly sorted by name and lists each name once" timeout=1800 replay=objlayers known=D7
    #[kani::proof]
    #[kani::unwind(7)]
    fn fields_order_agrees_with_lookup() {
        let (n, es, os, o) = any_object(3, 3);
        //@known D7 kani::assume(!d7_class(n, &es) && !d7_class(n, &os));
        let order = o.get_fields_order();
        let mut seen_name = false; let mut vis_name = V::Hidden;
        let mut seen_other = false; let mut vis_other = V::Hidden;
        let mut i = 0;
        while i < order.len() {
            let (nm, v) = order[i];
            if nm == NAME { assert!(!seen_name, "C07,C05:objlayers:each-name-listed-once"); seen_name = true; vis_name = v; }
            else if nm == OTHER { assert!(!seen_other, "C07,C05:objlayers:each-name-listed-once"); seen_other = true; vis_other = v; }
            else { assert!(false, "C07,C05:objlayers:only-defined-names-are-listed"); }
            if i > 0 { assert!(order[i - 1].0 < nm, "C07,C05:objlayers:field-list-is-strictly-sorted"); }
            i += 1;
        }
        assert!(seen_name == o.has_field(0, NAME), "C07,C05:objlayers:listed-iff-lookup-finds-the-field");
        assert!(seen_other == o.has_field(0, OTHER), "C07,C05:objlayers:listed-iff-lookup-finds-the-field");
        if seen_name { assert!((vis_name != V::Hidden) == o.has_visible_field(NAME), "C07,C05:objlayers:listed-visibility-agrees-with-objectHas"); }
        if seen_other { assert!((vis_other != V::Hidden) == o.has_visible_field(OTHER), "C07,C05:objlayers:listed-visibility-agrees-with-objectHas"); }
    }
    /// witness class of known finding D7: a `:` definition above a remove marker above a deeper definition
    fn d7_class(n: usize, es: &[E; MAXL]) -> bool {
        let mut i = 0; let mut default_seen = false;
        while i < n { match es[i] { E::N(V::Default) => default_seen = true, E::N(_) => return false, E::R(_) => return default_seen, E::Absent => {} } i += 1; }
        false
    }

    //@harness props=C07 strength=bounded bound="A and B of 1..2 layers each, two names, every entry combination" clause="A + B: the layers of the result are B's layers followed by A's layers, every entry (visibility, remove depth) preserved - so the per-name view of (A + B) + C and A + (B + C) is the same list C ++ B ++ A, and {} + A, A + {} have A's view (an empty layer defines nothing)" timeout=1800
    #[kani::proof]
    #[kani::unwind(7)]
    fn extend_object_concatenates_layers() {
        let (na, ea, oa, a) = any_object(2, 2);
        let (nb, eb, ob, b) = any_object(2, 2);
        let mut p = Program(PhantomData);
        let r = p.extend_object(a, b);
        let r = r.view();
        assert!(1 + r.super_layers.len() == na + nb, "C07:objlayers:extend-has-all-layers-of-both");
        let mut i = 0;
        while i < na + nb {
            let l = r.get_layer(i);
            let (we, wo) = if i < nb { (eb[i], ob[i]) } else { (ea[i - nb], oa[i - nb]) };
            assert!(entry_of(l, NAME) == we && entry_of(l, OTHER) == wo, "C07:objlayers:extend-is-rhs-layers-then-lhs-layers-entries-preserved");
            i += 1;
        }
        assert!(r.fields_order.get().is_none(), "C07:objlayers:extend-does-not-inherit-a-cached-field-list");
    }

    //@harness props=C07 strength=bounded bound="object of 1..3 layers, two names, every entry combination (remove depth <= 2)" clause="objectRemoveKey(o, name): afterwards the name does not exist (lookup, objectHas, field list), and the other name's existence, defining layer and visibility are exactly what they were" timeout=1800 replay=objlayers known=D7
    #[kani::proof]
    #[kani::unwind(7)]
    fn remove_key_removes_exactly_the_named_field() {
        let (n, es, os, o) = any_object(3, 2);
        //@known D7 kani::assume(!d7_class(n, &os));
        let before_other = o.find_field(0, OTHER).map(|(i, _)| i);
        let before_vis = o.has_visible_field(OTHER);
        let mut p = Program(PhantomData);
        let r = p.object_with_field_removed(o, NAME);
        let r = r.view();
        assert!(r.find_field(0, NAME).is_none() && !r.has_visible_field(NAME), "C07:objlayers:removed-field-no-longer-exists");
        assert!(r.find_field(0, OTHER).map(|(i, _)| i) == before_other.map(|i| i + 1), "C07:objlayers:other-field-keeps-its-defining-layer");
        assert!(r.has_visible_field(OTHER) == before_vis, "C07:objlayers:other-field-keeps-its-visibility");
        let order = r.get_fields_order();
        let mut i = 0; let mut other_listed = false;
        while i < order.len() { assert!(order[i].0 != NAME, "C07:objlayers:removed-field-not-listed"); if order[i].0 == OTHER { other_listed = true; assert!((order[i].1 != V::Hidden) == before_vis, "C07:objlayers:other-field-listed-with-its-visibility"); } i += 1; }
        assert!(other_listed == before_other.is_some(), "C07:objlayers:other-field-still-listed");
    }

    //@harness props=C07X strength=bounded clause="experiment"
    #[kani::proof]
    #[kani::unwind(7)]
    fn exp_concrete_shape() {
        let n = 3usize;
        let d: usize = kani::any(); kani::assume(d <= 3);
        let es = [E::N(any_vis()), E::R(d), E::N(any_vis()), E::Absent];
        let os = [E::Absent, E::Absent, E::Absent, E::Absent];
        let o: &'static ObjectData<'static> = Box::leak(Box::new(object(n, &es, &os)));
        let got = o.find_field(0, NAME).map(|(i, _)| i);
        assert!(got == spec_lookup(n, &es, 0), "C07X:objlayers:find-field-is-first-effective-definition");
        assert!(o.has_visible_field(NAME) == spec_visible(n, &es), "C07X:objlayers:has-visible-field-follows-the-visibility-rules");
    }
    fn any_present(maxd: usize) -> E { let k: u8 = kani::any(); if k % 2 == 0 { E::N(any_vis()) } else { let d: usize = kani::any(); kani::assume(d <= maxd); E::R(d) } }

    //@harness props=C07 strength=bounded expect=fail clause="canary"
    #[kani::proof]
    #[kani::unwind(7)]
    fn objlayers_canary() {
        let (n, es, os, o) = any_object(2, 1);
        assert!(o.has_visible_field(NAME) == o.has_field(0, NAME), "canary:objlayers:every-field-is-visible");
    }
}
} // mod u
fn main() {}
