// Unit jsonlex: the string lexer of std.parseJson.  Extracted verbatim from program/eval/parse_json.rs:
// ParseError, ParseErrorKind, struct Lexer and its whole impl (lex_string and the eat_* primitives it
// calls; lex_number is extracted with them but not called: it ends in str::parse::<f64>, which CBMC does
// not execute).  No shim receiver: the real Lexer has three plain fields.  Hand-written environment:
// InternedStr (named by ParseErrorKind::RepeatedFieldName only); String bound to BStr (a std String
// growing with symbolic content never finished symbolic execution: 10 min, measured).
#![allow(dead_code, unused)]
mod u {
use std::marker::PhantomData;
//@include shim/bstr.rs
use self::BStr as String;
#[derive(Clone, Copy, PartialEq, Eq, Debug)]
pub struct InternedStr<'p>(pub u8, pub PhantomData<&'p ()>);
impl<'p> InternedStr<'p> { pub fn value(&self) -> &'p str { "" } }

//@extract file=rsjsonnet-lang/src/program/eval/parse_json.rs item=struct:ParseError
//@extract file=rsjsonnet-lang/src/program/eval/parse_json.rs item=enum:ParseErrorKind
//@extract file=rsjsonnet-lang/src/program/eval/parse_json.rs item=struct:Lexer
//@extract file=rsjsonnet-lang/src/program/eval/parse_json.rs impl=Lexer methods=get_error,skip_spaces,eat_char,eat_digit_0_9,eat_digit_1_9,eat_str,eat_any_char,lex_string

#[cfg(kani)]
mod vharness {
    use super::*;

    fn same(a: &[u8], b: &[u8]) -> bool { if a.len() != b.len() { return false; } let mut i = 0; while i < a.len() { if a[i] != b[i] { return false; } i += 1; } true }
    /// is `b[..n]` the UTF-8 encoding of exactly one scalar value? (specification side, RFC 3629 table)
    fn one_char(b: &[u8], n: usize) -> bool {
        let c = |x: u8| x >= 0x80 && x <= 0xBF;
        match n {
            1 => b[0] < 0x80,
            2 => b[0] >= 0xC2 && b[0] <= 0xDF && c(b[1]),
            3 => (b[0] == 0xE0 && b[1] >= 0xA0 && b[1] <= 0xBF && c(b[2])) || (((b[0] >= 0xE1 && b[0] <= 0xEC) || b[0] == 0xEE || b[0] == 0xEF) && c(b[1]) && c(b[2])) || (b[0] == 0xED && b[1] >= 0x80 && b[1] <= 0x9F && c(b[2])),
            _ => ((b[0] == 0xF0 && b[1] >= 0x90 && b[1] <= 0xBF) || (b[0] >= 0xF1 && b[0] <= 0xF3 && c(b[1])) || (b[0] == 0xF4 && b[1] >= 0x80 && b[1] <= 0x8F)) && c(b[2]) && c(b[3]),
        }
    }
    /// RFC 8259 section 7: a string body character is any code point except the quote, the backslash and
    /// the control characters U+0000..U+001F, which MUST be escaped
    fn raw<const N: usize, const M: usize>() {
        // M = N + 2: quote, the N bytes of one character, quote.  No loops in the harness itself: the global
        // unwinding bound is then only what the lexer's own loop needs (character, closing quote, exit = 3)
        let mut input = [b'"'; M];
        let c: [u8; 4] = [kani::any(), kani::any(), kani::any(), kani::any()];
        input[1] = c[0]; if N >= 2 { input[2] = c[1]; } if N >= 3 { input[3] = c[2]; } if N >= 4 { input[4] = c[3]; }
        kani::assume(one_char(&c, N));
        let text = unsafe { core::str::from_utf8_unchecked(&input[..]) };
        let mut lx = Lexer { line: 0, column: 0, rem: text };
        let r = lx.lex_string();
        let b0 = c[0];
        if N == 1 && b0 < 0x20 {
            assert!(matches!(r, Err(ParseError { kind: ParseErrorKind::InvalidChrInString, .. })), "C20:jsonlex:raw-control-character-in-a-string-is-rejected");
        } else if N == 1 && b0 == b'"' {
            assert!(matches!(r, Ok(Some(ref s)) if s.is_empty()) && lx.rem.len() == 1, "C20:jsonlex:quote-ends-the-string");
        } else if N == 1 && b0 == b'\\' {
            assert!(r.is_err(), "C20:jsonlex:lone-backslash-is-rejected");
        } else {
            match r {
                Ok(Some(s)) => {
                    let g = s.as_bytes();
                    assert!(g.len() == N && g[0] == c[0] && (N < 2 || g[1] == c[1]) && (N < 3 || g[2] == c[2]) && (N < 4 || g[3] == c[3]), "C20:jsonlex:unescaped-character-is-kept-exactly");
                    assert!(lx.rem.is_empty() && lx.column == 3, "C20:jsonlex:string-is-consumed-to-its-closing-quote-columns-count-characters");
                }
                _ => assert!(false, "C20:jsonlex:every-other-character-is-accepted-unescaped"),
            }
        }
    }

    //@harness props=C20,C05,C01 quickfor=C20,C05 strength=proof clause="std.parseJson string lexer on one raw 1-byte character, EVERY ASCII byte: U+0000..U+001F are rejected (RFC 8259: control characters must be escaped), the quote ends the string, a lone backslash is an error, every other byte is kept exactly" replay=json_raw_char
    #[kani::proof]
    #[kani::unwind(4)]
    fn json_string_raw_char_1() { raw::<1, 3>(); }
    //@harness props=C20,C05,C01 quickfor=C20,C05 strength=proof clause="std.parseJson string lexer on one raw 2-byte character, EVERY well-formed 2-byte UTF-8 sequence: accepted and kept exactly, one column" replay=json_raw_char
    #[kani::proof]
    #[kani::unwind(4)]
    fn json_string_raw_char_2() { raw::<2, 4>(); }
    //@harness props=C20,C05,C01 quickfor=C20,C05 strength=proof clause="std.parseJson string lexer on one raw 3-byte character, EVERY well-formed 3-byte UTF-8 sequence: accepted and kept exactly, one column" replay=json_raw_char
    #[kani::proof]
    #[kani::unwind(4)]
    fn json_string_raw_char_3() { raw::<3, 5>(); }
    //@harness props=C20,C05,C01 quickfor=C20,C05 strength=proof clause="std.parseJson string lexer on one raw 4-byte character, EVERY well-formed 4-byte UTF-8 sequence: accepted and kept exactly, one column" replay=json_raw_char
    #[kani::proof]
    #[kani::unwind(4)]
    fn json_string_raw_char_4() { raw::<4, 6>(); }

    //@harness props=C20,C05,C01 quickfor=C20,C05 strength=proof clause="std.parseJson single-character escapes, EVERY ASCII byte after the backslash: \\\" \\\\ \\/ \\b \\f \\n \\r \\t decode to exactly the RFC 8259 characters; every other byte (incl. the apostrophe, which JSON does not allow) is an InvalidStringEscape error"
    #[kani::proof]
    #[kani::unwind(4)]
    fn json_string_single_escape() {
        let x: u8 = kani::any(); kani::assume(x < 0x80);
        let input = [b'"', b'\\', x, b'"', b'"'];
        let text = unsafe { core::str::from_utf8_unchecked(&input[..]) };
        let mut lx = Lexer { line: 0, column: 0, rem: text };
        let r = lx.lex_string();
        let want: Option<u8> = match x { b'"' => Some(b'"'), b'\\' => Some(b'\\'), b'/' => Some(b'/'), b'b' => Some(8), b'f' => Some(12), b'n' => Some(10), b'r' => Some(13), b't' => Some(9), _ => None };
        match (r, want) {
            (Ok(Some(s)), Some(w)) => assert!(s.as_bytes().len() == 1 && s.as_bytes()[0] == w && lx.rem.len() == 1, "C20:jsonlex:single-escapes-decode-per-rfc-8259"),
            (Err(e), None) => assert!(matches!(e.kind, ParseErrorKind::InvalidStringEscape), "C20:jsonlex:unknown-escape-is-an-invalid-escape-error"),
            _ => assert!(false, "C20:jsonlex:escape-accepted-iff-rfc-8259-defines-it"),
        }
    }

    const HEXL: [u8; 16] = *b"0123456789abcdef";
    const HEXU: [u8; 16] = *b"0123456789ABCDEF";
    fn hex4(out: &mut [u8], at: usize, cu: u16, upper: bool) {
        let t = if upper { &HEXU } else { &HEXL };
        out[at] = t[(cu >> 12) as usize & 15]; out[at + 1] = t[(cu >> 8) as usize & 15]; out[at + 2] = t[(cu >> 4) as usize & 15]; out[at + 3] = t[cu as usize & 15];
    }
    /// loop-free: is `a` exactly the first n (<= 8) bytes of w?  (keeps the harness's own loops out of the global unwinding bound)
    fn same8(a: &[u8], w: &[u8; 8], n: usize) -> bool {
        a.len() == n && (n < 1 || a[0] == w[0]) && (n < 2 || a[1] == w[1]) && (n < 3 || a[2] == w[2]) && (n < 4 || a[3] == w[3])
            && (n < 5 || a[4] == w[4]) && (n < 6 || a[5] == w[5]) && (n < 7 || a[6] == w[6]) && (n < 8 || a[7] == w[7])
    }
    fn is_sur(cu: u16) -> bool { cu >= 0xD800 && cu <= 0xDFFF }
    fn enc(buf: &mut [u8; 8], n: &mut usize, cp: u32) {
        if cp < 0x80 { buf[*n] = cp as u8; *n += 1; }
        else if cp < 0x800 { buf[*n] = 0xC0 | (cp >> 6) as u8; buf[*n + 1] = 0x80 | (cp & 0x3F) as u8; *n += 2; }
        else if cp < 0x10000 { buf[*n] = 0xE0 | (cp >> 12) as u8; buf[*n + 1] = 0x80 | ((cp >> 6) & 0x3F) as u8; buf[*n + 2] = 0x80 | (cp & 0x3F) as u8; *n += 3; }
        else { buf[*n] = 0xF0 | (cp >> 18) as u8; buf[*n + 1] = 0x80 | ((cp >> 12) & 0x3F) as u8; buf[*n + 2] = 0x80 | ((cp >> 6) & 0x3F) as u8; buf[*n + 3] = 0x80 | (cp & 0x3F) as u8; *n += 4; }
    }

    //@harness props=C20,C05,C01 quickfor=C20,C05 strength=proof clause="std.parseJson on two adjacent \\uXXXX escapes, for EVERY pair of 16-bit code units and either hex-digit case (RFC 8259 section 7): a non-surrogate unit is that code point and the next escape is decoded independently; a high surrogate followed by a low surrogate is the one supplementary code point; every other surrogate combination is rejected; every VALID document of this shape is accepted" timeout=1200 replay=json_unicode_pair
    #[kani::proof]
    #[kani::unwind(4)]
    fn json_string_unicode_escape_pair() {
        let (cu1, cu2): (u16, u16) = (kani::any(), kani::any());
        let upper: bool = kani::any();
        let mut input = *b"\"\\u0000\\u0000\"";
        hex4(&mut input, 3, cu1, upper); hex4(&mut input, 9, cu2, upper);
        let text = unsafe { core::str::from_utf8_unchecked(&input[..]) };
        let mut lx = Lexer { line: 0, column: 0, rem: text };
        let r = lx.lex_string();
        let mut want = [0u8; 8]; let mut n = 0usize; let mut want_ok = true;
        if !is_sur(cu1) {
            enc(&mut want, &mut n, cu1 as u32);
            if !is_sur(cu2) { enc(&mut want, &mut n, cu2 as u32); } else { want_ok = false; }
        } else if cu1 < 0xDC00 && cu2 >= 0xDC00 && cu2 <= 0xDFFF {
            enc(&mut want, &mut n, 0x10000 + (((cu1 - 0xD800) as u32) << 10) + (cu2 - 0xDC00) as u32);
        } else { want_ok = false; }
        match r {
            Ok(Some(s)) => { assert!(want_ok, "C20:jsonlex:invalid-surrogate-combination-is-rejected"); assert!(same8(s.as_bytes(), &want, n), "C20:jsonlex:unicode-escapes-decode-to-exactly-their-code-points"); assert!(lx.rem.is_empty(), "C20:jsonlex:string-is-consumed-to-its-closing-quote-columns-count-characters"); }
            Ok(None) => assert!(false, "C20:jsonlex:a-quoted-string-is-a-string"),
            Err(e) => { assert!(!want_ok, "C20:jsonlex:valid-escape-pairs-are-accepted"); assert!(matches!(e.kind, ParseErrorKind::InvalidStringEscape), "C20:jsonlex:unknown-escape-is-an-invalid-escape-error"); }
        }
    }

    //@harness props=C20,C05,C01 quickfor=C20,C05 strength=proof clause="std.parseJson on ONE \\uXXXX escape, EVERY 16-bit code unit, either hex case: a non-surrogate unit decodes to that code point, a surrogate that is not followed by another escape is rejected" timeout=900
    #[kani::proof]
    #[kani::unwind(4)]
    fn json_string_unicode_escape_single() {
        let cu1: u16 = kani::any();
        let upper: bool = kani::any();
        let mut input = *b"\"\\u0000\"";
        hex4(&mut input, 3, cu1, upper);
        let text = unsafe { core::str::from_utf8_unchecked(&input[..]) };
        let mut lx = Lexer { line: 0, column: 0, rem: text };
        let r = lx.lex_string();
        let mut want = [0u8; 8]; let mut n = 0usize;
        if !is_sur(cu1) { enc(&mut want, &mut n, cu1 as u32); }
        match r {
            Ok(Some(s)) => { assert!(!is_sur(cu1), "C20:jsonlex:invalid-surrogate-combination-is-rejected"); assert!(same8(s.as_bytes(), &want, n), "C20:jsonlex:unicode-escapes-decode-to-exactly-their-code-points"); }
            Ok(None) => assert!(false, "C20:jsonlex:a-quoted-string-is-a-string"),
            Err(e) => { assert!(is_sur(cu1), "C20:jsonlex:valid-escape-pairs-are-accepted"); assert!(matches!(e.kind, ParseErrorKind::InvalidStringEscape), "C20:jsonlex:unknown-escape-is-an-invalid-escape-error"); }
        }
    }

    //@harness props=C20,C05,C01 quickfor=C20,C05 strength=proof clause="std.parseJson on \\uXXXX\\uYYYY whose first unit is ANY surrogate (U+D800..U+DFFF, all 2048) and whose second unit is ANY 16-bit value (lower-case hex): accepted exactly when it is a high surrogate followed by a low surrogate, and then decodes to 0x10000 + ((hi - 0xD800) << 10) + (lo - 0xDC00); every lead surrogate D800..DBFF is accepted with every trail" timeout=1200 replay=json_unicode_pair
    #[kani::proof]
    #[kani::unwind(4)]
    fn json_string_surrogate_pair() {
        let lo11: u16 = kani::any(); kani::assume(lo11 < 0x800);
        let cu1: u16 = 0xD800 | lo11;
        let cu2: u16 = kani::any();
        let mut input = *b"\"\\ud000\\u0000\"";
        // first hex digit is the concrete 'd'; the other three carry the 11 free bits
        let t = &HEXL; input[4] = t[(cu1 >> 8) as usize & 15]; input[5] = t[(cu1 >> 4) as usize & 15]; input[6] = t[cu1 as usize & 15];
        hex4(&mut input, 9, cu2, false);
        let text = unsafe { core::str::from_utf8_unchecked(&input[..]) };
        let mut lx = Lexer { line: 0, column: 0, rem: text };
        let r = lx.lex_string();
        let want_ok = cu1 < 0xDC00 && cu2 >= 0xDC00 && cu2 <= 0xDFFF;
        let mut want = [0u8; 8]; let mut n = 0usize;
        if want_ok { enc(&mut want, &mut n, 0x10000 + (((cu1 - 0xD800) as u32) << 10) + (cu2 - 0xDC00) as u32); }
        match r {
            Ok(Some(s)) => { assert!(want_ok, "C20:jsonlex:invalid-surrogate-combination-is-rejected"); assert!(same8(s.as_bytes(), &want, n), "C20:jsonlex:unicode-escapes-decode-to-exactly-their-code-points"); }
            Ok(None) => assert!(false, "C20:jsonlex:a-quoted-string-is-a-string"),
            Err(e) => { assert!(!want_ok, "C20:jsonlex:valid-escape-pairs-are-accepted"); }
        }
    }

    //@harness props=C20,C05 strength=proof expect=fail clause="canary"
    #[kani::proof]
    #[kani::unwind(4)]
    fn jsonlex_canary() {
        let x: u8 = kani::any(); kani::assume(x < 0x80);
        let input = [b'"', x, b'"'];
        let text = unsafe { core::str::from_utf8_unchecked(&input[..]) };
        let mut lx = Lexer { line: 0, column: 0, rem: text };
        assert!(lx.lex_string().is_ok(), "canary:jsonlex:every-ascii-byte-is-accepted-raw");
    }
}
} // mod u
fn main() {}
