// Unit lexprim: the POSITION PRIMITIVES of the lexer - the only functions that move `end_pos` / `start_pos` or
// build a Token (frame obligation F-lexpos checks that they are the only ones): eat_byte, eat_byte_if,
// eat_get_byte_if, eat_map_byte, eat_slice, eat_any_byte, eat_cont_any_char / eat_any_char, lex_operator,
// commit_token, make_span.  Extracted verbatim from lexer/mod.rs onto the same shim receiver and
// collaborators as unit lexstep.  Their contracts are the hypotheses of lemmas/tiling.rs (Verus), which derives
// that the tokens of any input tile it.  Inputs: every byte string of up to 6 bytes (symbolic length and
// content), every position pair start_pos <= end_pos <= len.
#![allow(dead_code, unused)]
pub mod span {
    #[derive(Copy, Clone, Debug, PartialEq, Eq, PartialOrd, Ord, Hash)]
    pub struct SpanId(pub usize, pub usize);
    #[derive(Copy, Clone, Debug, PartialEq, Eq, PartialOrd, Ord, Hash)]
    pub struct SpanContextId(pub usize);
    pub struct SpanManager { pub len: usize }
    impl SpanManager {
        pub fn intern_span(&mut self, _context: SpanContextId, start: usize, end: usize) -> SpanId {
            // precondition of the real SpanManager::intern_span (its three assert!s)
            assert!(start <= end, "C14,C01,C16:lexstep:span-handed-to-span-manager-has-start-le-end");
            assert!(end <= self.len, "C14,C01,C16:lexstep:span-handed-to-span-manager-lies-within-the-file");
            SpanId(start, end)
        }
    }
}
pub mod arena {
    pub struct Arena;
    impl Arena {
        pub fn alloc_str(&self, value: &str) -> &str { Box::leak(Box::<str>::from(value)) }
    }
}
pub mod interner {
    use crate::arena::Arena;
    #[derive(Copy, Clone, Debug, PartialEq, Eq, PartialOrd, Ord, Hash)]
    pub struct InternedStr<'a>(pub &'a str);
    pub struct StrInterner<'a>(pub core::marker::PhantomData<&'a ()>);
    impl<'a> StrInterner<'a> {
        pub fn intern(&self, arena: &'a Arena, value: &str) -> InternedStr<'a> { InternedStr(arena.alloc_str(value)) }
    }
}
pub mod token {
//@extract file=rsjsonnet-lang/src/token.rs whole
}
mod u {
use crate::arena::Arena;
use crate::interner::StrInterner;
use crate::span::{SpanContextId, SpanId, SpanManager};
use crate::token::{Number, STokenKind, Token, TokenKind};
//@include shim/bstr.rs
use self::BStr as String;

//@extract file=rsjsonnet-lang/src/lexer/error.rs item=enum:LexError

// shim receiver: the real struct's fields, same names, same types (collaborators are the shims above)
pub struct Lexer<'a, 'p, 'ast> {
    arena: &'p Arena,
    ast_arena: &'ast Arena,
    str_interner: &'a StrInterner<'p>,
    span_mgr: &'a mut SpanManager,
    span_ctx: SpanContextId,
    input: &'a [u8],
    start_pos: usize,
    end_pos: usize,
}

//@extract file=rsjsonnet-lang/src/lexer/mod.rs impl=Lexer methods=next_token,lex_single_line_comment,lex_multi_line_comment,lex_operator,lex_ident,lex_number,lex_quoted_string,lex_verbatim_string,lex_text_block,eat_byte,eat_byte_if,eat_get_byte_if,eat_map_byte,eat_slice,decode_cont_char,eat_any_byte,eat_cont_any_char,eat_any_char,commit_token,make_span

#[cfg(kani)]
mod vharness {
    use super::*;
    const N: usize = 6;

    /// requires of every primitive: start_pos <= end_pos <= len  (the lexer's position invariant)
    struct Env { input: [u8; N], len: usize, s: usize, e: usize }
    fn any_env() -> Env {
        let input: [u8; N] = kani::any();
        let len: usize = kani::any(); kani::assume(len <= N);
        let (s, e): (usize, usize) = (kani::any(), kani::any());
        kani::assume(s <= e && e <= len);
        Env { input, len, s, e }
    }
    macro_rules! with_lexer { ($env:ident, $lx:ident, $body:block) => {
        let arena = Arena; let interner = StrInterner(core::marker::PhantomData); let mut mgr = SpanManager { len: $env.len };
        let mut $lx = Lexer { arena: &arena, ast_arena: &arena, str_interner: &interner, span_mgr: &mut mgr, span_ctx: SpanContextId(0), input: &$env.input[..$env.len], start_pos: $env.s, end_pos: $env.e };
        $body
    } }

    //@harness props=C14,C01 strength=bounded bound="inputs of 0..6 arbitrary bytes, every position pair" clause="single-byte primitives (eat_byte, eat_byte_if, eat_get_byte_if, eat_map_byte, eat_any_byte): each either consumes exactly the byte at end_pos (which exists and satisfies the test) and advances end_pos by one, or consumes nothing; end_pos never passes the end of the input; start_pos is untouched" timeout=600
    #[kani::proof]
    #[kani::unwind(8)]
    fn single_byte_primitives_contract() {
        let env = any_env();
        let b: u8 = kani::any();
        let which: u8 = kani::any(); kani::assume(which < 5);
        with_lexer!(env, lx, {
            let at = env.e;
            let here = if at < env.len { Some(env.input[at]) } else { None };
            let (moved, ok_byte) = match which {
                0 => { let r = lx.eat_byte(b); (r, here == Some(b)) }
                1 => { let r = lx.eat_byte_if(|x| x & 1 == 0); (r, matches!(here, Some(x) if x & 1 == 0)) }
                2 => { let r = lx.eat_get_byte_if(|x| x > b); assert!(r.is_none() || r == here, "C14:lexprim:returned-byte-is-the-byte-at-the-position"); (r.is_some(), matches!(here, Some(x) if x > b)) }
                3 => { let r = lx.eat_map_byte(|x| if x < b { Some(x) } else { None }); assert!(r.is_none() || r == here, "C14:lexprim:returned-byte-is-the-byte-at-the-position"); (r.is_some(), matches!(here, Some(x) if x < b)) }
                _ => { let r = lx.eat_any_byte(); assert!(r == here, "C14:lexprim:returned-byte-is-the-byte-at-the-position"); (r.is_some(), here.is_some()) }
            };
            assert!(moved == ok_byte, "C14:lexprim:a-byte-is-consumed-exactly-when-it-exists-and-passes-the-test");
            assert!(lx.end_pos == if moved { at + 1 } else { at }, "C14:lexprim:end-pos-advances-by-exactly-the-consumed-byte");
            assert!(lx.end_pos <= env.len && lx.start_pos == env.s, "C14,C01:lexprim:position-invariant-is-kept");
        });
    }

    //@harness props=C14,C01 strength=bounded bound="inputs of 0..6 arbitrary bytes, every position pair; patterns of 1..3 arbitrary bytes" clause="eat_slice: consumes the pattern exactly when the input continues with it at end_pos, then advances end_pos by the pattern's length; otherwise nothing moves; end_pos never passes the end" timeout=600
    #[kani::proof]
    #[kani::unwind(8)]
    fn eat_slice_contract() {
        let env = any_env();
        let pat: [u8; 3] = kani::any();
        let pl: usize = kani::any(); kani::assume(pl >= 1 && pl <= 3);
        with_lexer!(env, lx, {
            let at = env.e;
            let mut matches_here = at + pl <= env.len;
            let mut i = 0; while i < pl { if matches_here && env.input[at + i] != pat[i] { matches_here = false; } i += 1; }
            let r = lx.eat_slice(&pat[..pl]);
            assert!(r == matches_here, "C14:lexprim:slice-is-consumed-exactly-when-the-input-continues-with-it");
            assert!(lx.end_pos == if r { at + pl } else { at }, "C14:lexprim:end-pos-advances-by-exactly-the-slice");
            assert!(lx.end_pos <= env.len && lx.start_pos == env.s, "C14,C01:lexprim:position-invariant-is-kept");
        });
    }

    //@harness props=C14,C01 strength=bounded bound="inputs of 0..6 arbitrary bytes, every position pair" clause="eat_any_char: at the end of the input consumes nothing and returns None; otherwise consumes between 1 and 4 bytes, never past the end (what the consumed bytes decode to is unit utf8's contract)" timeout=600
    #[kani::proof]
    #[kani::unwind(8)]
    fn eat_any_char_moves_forward_within_the_input() {
        let env = any_env();
        with_lexer!(env, lx, {
            let at = env.e;
            let r = lx.eat_any_char();
            if at == env.len { assert!(r.is_none() && lx.end_pos == at, "C14:lexprim:nothing-to-consume-at-the-end"); }
            else { assert!(r.is_some() && lx.end_pos > at && lx.end_pos <= at + 4, "C14:lexprim:a-character-or-an-invalid-sequence-of-1-to-4-bytes-is-consumed"); }
            assert!(lx.end_pos <= env.len && lx.start_pos == env.s, "C14,C01:lexprim:position-invariant-is-kept");
        });
    }

    //@harness props=C14,C01 strength=bounded bound="inputs of 0..6 arbitrary bytes, every position pair" clause="commit_token: the token's span is exactly (start_pos, end_pos) as they were, the next token starts where this one ended (start_pos := end_pos), end_pos is untouched; the span handed to the span manager satisfies its precondition" timeout=600
    #[kani::proof]
    #[kani::unwind(8)]
    fn commit_token_contract() {
        let env = any_env();
        with_lexer!(env, lx, {
            let tok = lx.commit_token(TokenKind::Whitespace);
            assert!(tok.span == SpanId(env.s, env.e), "C14:lexprim:token-span-is-start-pos-to-end-pos");
            assert!(lx.start_pos == env.e && lx.end_pos == env.e, "C14:lexprim:next-token-starts-where-this-one-ended");
            assert!(matches!(tok.kind, TokenKind::Whitespace), "C14:lexprim:kind-is-passed-through");
        });
    }

    //@harness props=C14,C01 strength=bounded bound="inputs of 1..6 arbitrary bytes, a token started one byte ago (the state in which next_token calls lex_operator)" clause="lex_operator: may look ahead but commits a token that ends after at least the first byte and not past the furthest byte it looked at (end_pos only moves back to a position it has already passed); the next token starts exactly there" timeout=900
    #[kani::proof]
    #[kani::unwind(8)]
    fn lex_operator_commits_a_nonempty_token_within_the_input() {
        let env = any_env();
        kani::assume(env.e == env.s + 1);         // next_token consumed the first operator byte ...
        kani::assume(matches!(env.input[env.s], b'!' | b'$' | b':' | b'~' | b'+' | b'-' | b'&' | b'^' | b'=' | b'<' | b'>' | b'*' | b'%' | b'/' | b'|'));   // ... which is one of these (the arms of next_token that call lex_operator)
        with_lexer!(env, lx, {
            let tok = lx.lex_operator();
            let SpanId(a, b) = tok.span;
            assert!(a == env.s && b >= env.s + 1 && b <= env.len, "C14:lexprim:operator-token-is-non-empty-and-within-the-input");
            assert!(lx.start_pos == b && lx.end_pos == b, "C14:lexprim:next-token-starts-where-this-one-ended");
        });
    }

    //@harness props=C14 strength=bounded expect=fail clause="canary"
    #[kani::proof]
    #[kani::unwind(8)]
    fn lexprim_canary() {
        let env = any_env();
        with_lexer!(env, lx, {
            let r = lx.eat_any_byte();
            assert!(r.is_some(), "canary:lexprim:there-is-always-a-byte");
        });
    }
}
} // mod u
fn main() {}
