// Unit gcnative: the collector (gc/mod.rs + gc/trace.rs, extracted WHOLE and verbatim, as in unit gc) compiled
// NATIVELY with rustc and driven by an EXHAUSTIVE ENUMERATION of small heaps - a bounded stand-in, because
// no deductive verifier here can execute gc() (five attempts, DESIGN section 11).  Not a proof, never counted
// as one: every heap of at most MAXN nodes (each allocated with alloc or alloc_view; each with two edge slots that
// are empty or point to any node, itself included; each external handle kept as Gc, kept as GcView, or
// dropped) is built, collected, and compared with reachability computed independently.
// Restructuring done by the extraction (module DECLARATIONS only): `mod trace;` / `#[cfg(test)] mod tests;` are
// dropped and gc/trace.rs is spliced in as the inline child module, where `mod trace;` put it.
#![allow(dead_code, unused)]
pub mod gc {
//@extract file=rsjsonnet-lang/src/gc/mod.rs whole drop=mod:trace,mod:tests
mod trace {
//@extract file=rsjsonnet-lang/src/gc/trace.rs whole
}
}
use gc::*;
use std::cell::RefCell;

// TRUSTED harness code: the node type.  Its `trace` visits each edge slot exactly once through the real
// RefCell / Option impls of gc/trace.rs (for the program's own types that is frame obligation F-gctrace).
pub struct Node { id: usize, e0: RefCell<Option<Gc<Node>>>, e1: RefCell<Option<Gc<Node>>> }
impl GcTrace for Node {
    fn trace<'a>(&self, ctx: &mut impl GcTraceCtx<'a>) where Self: 'a { self.e0.trace(ctx); self.e1.trace(ctx); }
}

#[derive(Clone, Copy, PartialEq, Eq, Debug)]
enum Keep { Dropped, Weak, View }

/// nodes reachable from the kept handles, by plain graph search over the edge table (the specification)
fn reachable(n: usize, edges: &[[Option<usize>; 2]], roots: &[bool]) -> Vec<bool> {
    let mut r = roots.to_vec();
    loop {
        let mut changed = false;
        for i in 0..n { if r[i] { for e in edges[i] { if let Some(j) = e { if !r[j] { r[j] = true; changed = true; } } } } }
        if !changed { return r; }
    }
}

struct Heap { gcs: Vec<Option<Gc<Node>>>, views: Vec<Option<GcView<Node>>> }

/// builds the heap, drops the handles that are not kept; returns the kept ones
fn build(ctx: &GcContext<'static>, n: usize, by_view: &[bool], edges: &[[Option<usize>; 2]], keep: &[Keep]) -> Heap {
    let mut all: Vec<GcView<Node>> = Vec::new();
    for i in 0..n {
        let node = Node { id: i, e0: RefCell::new(None), e1: RefCell::new(None) };
        let v = if by_view[i] { ctx.alloc_view(node) } else { ctx.alloc(node).view() };
        all.push(v);
    }
    for i in 0..n {
        if let Some(j) = edges[i][0] { *all[i].e0.borrow_mut() = Some(Gc::from(&all[j])); }
        if let Some(j) = edges[i][1] { *all[i].e1.borrow_mut() = Some(Gc::from(&all[j])); }
    }
    let mut gcs = Vec::new(); let mut views = Vec::new();
    for i in 0..n {
        gcs.push(if keep[i] == Keep::Weak { Some(Gc::from(&all[i])) } else { None });
        views.push(if keep[i] == Keep::View { Some(all[i].clone()) } else { None });
    }
    drop(all);
    Heap { gcs, views }
}

/// after a collection: exactly the reachable nodes survive, and every one of them can still be visited
fn check(ctx: &GcContext<'static>, h: &Heap, n: usize, edges: &[[Option<usize>; 2]], what: &str) -> Result<(), String> {
    let roots: Vec<bool> = (0..n).map(|i| h.gcs[i].is_some() || h.views[i].is_some()).collect();
    let reach = reachable(n, edges, &roots);
    let want = reach.iter().filter(|&&b| b).count();
    if ctx.num_objects() != want { return Err(format!("{what}: {} objects survive, {} are reachable", ctx.num_objects(), want)); }
    // walk the real heap from the kept handles: every edge must lead to a live object with the expected id
    let mut stack: Vec<GcView<Node>> = Vec::new();
    for i in 0..n {
        if let Some(g) = &h.gcs[i] { stack.push(g.view()); }      // panics "attempted to access destroyed object" if reclaimed
        if let Some(v) = &h.views[i] { stack.push(v.clone()); }
    }
    let mut seen = vec![false; n];
    while let Some(v) = stack.pop() {
        if seen[v.id] { continue; }
        seen[v.id] = true;
        let expect = edges[v.id];
        let got0 = v.e0.borrow().as_ref().map(|g| g.view());
        let got1 = v.e1.borrow().as_ref().map(|g| g.view());
        if got0.as_ref().map(|x| x.id) != expect[0] || got1.as_ref().map(|x| x.id) != expect[1] { return Err(format!("{what}: edges of node {} changed", v.id)); }
        if let Some(x) = got0 { stack.push(x); }
        if let Some(x) = got1 { stack.push(x); }
    }
    if seen != reach { return Err(format!("{what}: the set of nodes that can be visited differs from the reachable set")); }
    Ok(())
}

fn scenario(n: usize, by_view: &[bool], edges: &[[Option<usize>; 2]], keep: &[Keep]) -> Result<(), String> {
    let ctx: GcContext<'static> = GcContext::new();
    let mut h = build(&ctx, n, by_view, edges, keep);
    if ctx.num_objects() != n { return Err("allocation count".into()); }
    ctx.gc();
    check(&ctx, &h, n, edges, "first collection")?;
    ctx.gc();
    check(&ctx, &h, n, edges, "second collection (nothing changed in between)")?;
    // state left between collections: drop the kept handles one at a time, collecting after each
    for i in 0..n {
        if h.gcs[i].is_some() || h.views[i].is_some() {
            h.gcs[i] = None; h.views[i] = None;
            ctx.gc();
            check(&ctx, &h, n, edges, "collection after dropping one more handle")?;
        }
    }
    if ctx.num_objects() != 0 { return Err(format!("{} objects left after every handle was dropped", ctx.num_objects())); }
    Ok(())
}

fn main() {
    let maxn: usize = std::env::args().nth(1).and_then(|s| s.parse().ok()).unwrap_or(3);
    std::panic::set_hook(Box::new(|_| {}));
    let (mut total, mut failures) = (0u64, 0u64);
    let mut first: Option<String> = None;
    for n in 0..=maxn {
        let slot_choices = n + 1;                                   // None or one of n targets
        let per_node = 2 * 3 * slot_choices * slot_choices;          // alloc kind x keep kind x two slots
        let mut count = 1u64; for _ in 0..n { count *= per_node as u64; }
        for code in 0..count {
            let mut c = code;
            let mut by_view = vec![false; n]; let mut keep = vec![Keep::Dropped; n]; let mut edges = vec![[None, None]; n];
            for i in 0..n {
                let mut d = (c % per_node as u64) as usize; c /= per_node as u64;
                by_view[i] = d % 2 == 1; d /= 2;
                keep[i] = [Keep::Dropped, Keep::Weak, Keep::View][d % 3]; d /= 3;
                let s0 = d % slot_choices; d /= slot_choices; let s1 = d % slot_choices;
                edges[i] = [if s0 == 0 { None } else { Some(s0 - 1) }, if s1 == 0 { None } else { Some(s1 - 1) }];
            }
            total += 1;
            let r = std::panic::catch_unwind(|| scenario(n, &by_view, &edges, &keep));
            let err = match r { Ok(Ok(())) => None, Ok(Err(e)) => Some(e), Err(p) => Some(format!("PANIC: {}", p.downcast_ref::<&str>().map(|s| s.to_string()).or_else(|| p.downcast_ref::<String>().cloned()).unwrap_or_default())) };
            if let Some(e) = err {
                failures += 1;
                if first.is_none() { first = Some(format!("n={n} alloc_view={by_view:?} edges={edges:?} kept={keep:?}: {e}")); }
            }
        }
    }
    println!("GCNATIVE heaps={total} failures={failures} maxn={maxn}");
    if let Some(f) = first { println!("GCNATIVE first-failure {f}"); }
    std::process::exit(if failures == 0 { 0 } else { 1 });
}
