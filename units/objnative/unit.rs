// Unit objnative: the layered object representation - ObjectData::get_fields_order / find_field / has_field /
// has_visible_field, Program::extend_object / object_with_field_removed and the two clone helpers - extracted
// verbatim from program/data.rs, compiled NATIVELY with rustc and driven by an EXHAUSTIVE ENUMERATION of small
// REACHABLE objects.  A bounded stand-in, because CBMC cannot execute get_fields_order (real BTreeMap) or the layer cloning
// (DESIGN section 11: > 20 GB for 1 + 1 layers).  Not a proof, never counted as one.
// Hand-written environment (TRUSTED): Gc / GcView (raw pointers, nothing freed), interned strings (small ids ordered
// by id), FHashMap bound to std::collections::HashMap (the real one is hashbrown with foldhash; the extracted text
// uses get / iter / collect / default on it and must not depend on iteration order), Program with gc_alloc only.
#![allow(dead_code, unused)]
mod u {
use std::cell::{Cell, OnceCell, RefCell};
use std::collections::BTreeMap;
use std::marker::PhantomData;
use std::rc::Rc;
pub type FHashMap<K, V> = std::collections::HashMap<K, V>;
#[derive(Clone, Copy, PartialEq, Eq, PartialOrd, Ord, Hash, Debug)]
pub struct InternedStr<'p>(pub u8, pub PhantomData<&'p ()>);
#[derive(Clone, Copy, PartialEq, Eq, PartialOrd, Ord)]
pub struct SortedInternedStr<'p>(pub InternedStr<'p>);
pub mod ast { #[derive(Clone, Copy, PartialEq, Eq, Debug)] pub enum Visibility { Default, Hidden, ForceVisible } }
pub mod ir { pub struct Expr<'p>(pub u8, pub std::marker::PhantomData<&'p ()>); pub struct Assert<'p>(pub u8, pub std::marker::PhantomData<&'p ()>); }
pub struct Gc<T>(pub *const T);
impl<T> Clone for Gc<T> { fn clone(&self) -> Self { Gc(self.0) } }
impl<T> Gc<T> { pub fn new(v: T) -> Self { Gc(Box::into_raw(Box::new(v))) } pub fn view(&self) -> GcView<T> { GcView(self.0) } }
pub struct GcView<T>(pub *const T);
impl<T> std::ops::Deref for GcView<T> { type Target = T; fn deref(&self) -> &T { unsafe { &*self.0 } } }
pub struct ThunkEnv<'p>(pub PhantomData<&'p ()>);
pub struct ThunkData<'p>(pub u8, pub PhantomData<&'p ()>);
pub struct Program<'p> { pub _p: PhantomData<&'p ()> }
impl<'p> Program<'p> { fn gc_alloc<T>(&mut self, v: T) -> Gc<T> { Gc::new(v) } }

// ---- extracted, verbatim -------------------------------------------------------------------
//@extract file=rsjsonnet-lang/src/program/data.rs item=struct:ObjectData
//@extract file=rsjsonnet-lang/src/program/data.rs impl=ObjectData methods=new_empty,get_layer,find_field,has_field,has_visible_field,get_fields_order
//@extract file=rsjsonnet-lang/src/program/data.rs item=struct:ObjectLayer
//@extract file=rsjsonnet-lang/src/program/data.rs item=enum:ObjectField
//@extract file=rsjsonnet-lang/src/program/data.rs item=struct:ObjectFieldData
//@extract file=rsjsonnet-lang/src/program/data.rs impl=Program methods=extend_object,object_with_field_removed
//@extract file=rsjsonnet-lang/src/program/data.rs item=fn:extend_object_clone_field
//@extract file=rsjsonnet-lang/src/program/data.rs item=fn:extend_object_clone_layer

// ---- enumeration harness (TRUSTED) -----------------------------------------------------------
use ast::Visibility as V;
/// abstract view of one field name in one layer
#[derive(Clone, Copy, PartialEq, Eq, Debug)]
enum E { Absent, N(V), R(usize) }
const NAME: InternedStr<'static> = InternedStr(1, PhantomData);
const OTHER: InternedStr<'static> = InternedStr(2, PhantomData);
/// abstract layer: entries of NAME / OTHER and an identity tag (carried by the length of the `asserts` slice,
/// which the real clone helper copies)
#[derive(Clone, Copy, PartialEq, Eq, Debug)]
struct L { a: E, b: E, tag: usize }
static ASSERTS: [ir::Assert<'static>; 8] = [ir::Assert(0, PhantomData), ir::Assert(0, PhantomData), ir::Assert(0, PhantomData), ir::Assert(0, PhantomData), ir::Assert(0, PhantomData), ir::Assert(0, PhantomData), ir::Assert(0, PhantomData), ir::Assert(0, PhantomData)];

fn field(e: E) -> Option<ObjectField<'static>> {
    match e {
        E::Absent => None,
        E::N(v) => Some(ObjectField::Normal(ObjectFieldData { base_env: None, visibility: v, expr: None, thunk: OnceCell::new() })),
        E::R(d) => Some(ObjectField::Removed(d)),
    }
}
fn layer(l: L) -> ObjectLayer<'static> {
    let mut fields: FHashMap<InternedStr<'static>, ObjectField<'static>> = FHashMap::default();
    if let Some(f) = field(l.a) { fields.insert(NAME, f); }
    if let Some(f) = field(l.b) { fields.insert(OTHER, f); }
    ObjectLayer { is_top: false, locals: &[], base_env: None, env: OnceCell::new(), fields, asserts: &ASSERTS[..l.tag] }
}
fn object(ls: &[L]) -> ObjectData<'static> {
    ObjectData { self_layer: layer(ls[0]), super_layers: ls[1..].iter().map(|l| layer(*l)).collect(), fields_order: OnceCell::new(), asserts_checked: Cell::new(true) }
}
/// harness-side: objects made by the shim gc_alloc are freed by hand after use (nothing else refers to them)
fn free(v: GcView<ObjectData<'static>>) { unsafe { drop(Box::from_raw(v.0 as *mut ObjectData<'static>)); } }
fn entry_of(l: &ObjectLayer<'_>, name: InternedStr<'static>) -> E {
    match l.fields.get(&name) { None => E::Absent, Some(ObjectField::Normal(d)) => E::N(d.visibility), Some(ObjectField::Removed(d)) => E::R(*d) }
}
fn layers_of(o: &ObjectData<'_>) -> Vec<L> {
    let mut v = vec![L { a: entry_of(&o.self_layer, NAME), b: entry_of(&o.self_layer, OTHER), tag: o.self_layer.asserts.len() }];
    for l in o.super_layers.iter() { v.push(L { a: entry_of(l, NAME), b: entry_of(l, OTHER), tag: l.asserts.len() }); }
    v
}

// ---- specification (from the language definition of inheritance, not from the code; the same as in unit objlayers)
// Layers are listed from the right-most operand of `+` (index 0) to the left-most.  A field exists if some layer
// defines it and no objectRemoveKey marker above hides that layer: a marker R(d) makes the d layers directly below
// it invisible for this name.  Visibility: the first `::` or `:::` met from the top decides; `:` inherits from
// below; only `:` anywhere => visible.
fn spec_lookup(es: &[E], from: usize) -> Option<usize> {
    let mut i = from;
    while i < es.len() { match es[i] { E::N(_) => return Some(i), E::R(d) => i += d, E::Absent => {} } i += 1; }
    None
}
fn spec_visible(es: &[E]) -> bool {
    let mut i = 0; let mut found = false;
    while i < es.len() {
        match es[i] { E::N(V::Default) => found = true, E::N(V::Hidden) => return false, E::N(V::ForceVisible) => return true, E::R(d) => i += d, E::Absent => {} }
        i += 1;
    }
    found
}
/// the field list the language defines: names in order, each with "hidden or not"
fn spec_fields(ls: &[L]) -> Vec<(u8, bool)> {
    let a: Vec<E> = ls.iter().map(|l| l.a).collect();
    let b: Vec<E> = ls.iter().map(|l| l.b).collect();
    let mut out = Vec::new();
    if spec_lookup(&a, 0).is_some() { out.push((1, spec_visible(&a))); }
    if spec_lookup(&b, 0).is_some() { out.push((2, spec_visible(&b))); }
    out
}
fn real_fields(o: &ObjectData<'static>) -> Vec<(u8, bool)> {
    o.get_fields_order().iter().map(|(n, v)| (n.0, *v != V::Hidden)).collect()
}

/// the Jsonnet expression that builds exactly this layer list, when one exists: std.objectRemoveKey only leaves a
/// marker when the operand HAS the field, so a marker over an object without the field has no program (None)
fn to_jsonnet(ls: &[L]) -> Option<String> {
    fn lit(l: &L) -> String {
        fn f(n: &str, e: E) -> Option<String> { match e { E::N(V::Default) => Some(format!("{}: 1", n)), E::N(V::Hidden) => Some(format!("{}:: 1", n)), E::N(V::ForceVisible) => Some(format!("{}::: 1", n)), _ => None } }
        let v: Vec<String> = [f("a", l.a), f("b", l.b)].into_iter().flatten().collect();
        format!("{{ {} }}", v.join(", "))
    }
    let mut blocks: Vec<String> = Vec::new();
    let mut i = 0;
    while i < ls.len() {
        let (name, ent) = if let E::R(_) = ls[i].a { ("a", ls[i].a) } else { ("b", ls[i].b) };
        if let E::R(d) = ent {
            if i + d >= ls.len() { return None; }
            let inner = &ls[i + 1..=i + d];
            let es: Vec<E> = inner.iter().map(|l| if name == "a" { l.a } else { l.b }).collect();
            if spec_lookup(&es, 0).is_none() { return None; }
            blocks.push(format!("std.objectRemoveKey({}, '{}')", to_jsonnet(inner)?, name));
            i += d + 1;
        } else { blocks.push(lit(&ls[i])); i += 1; }
    }
    blocks.reverse();
    Some(if blocks.len() == 1 { blocks.pop().unwrap() } else { format!("({})", blocks.join(" + ")) })
}
/// self-checking program for the real binary: the two field lists of the object against the specification
fn cli_program(ls: &[L]) -> Option<String> {
    let e = to_jsonnet(ls)?;
    let want = spec_fields(ls);
    let nm = |i: u8| if i == 1 { "'a'" } else { "'b'" };
    let vis: Vec<&str> = want.iter().filter(|(_, v)| *v).map(|(i, _)| nm(*i)).collect();
    let all: Vec<&str> = want.iter().map(|(i, _)| nm(*i)).collect();
    let has = |i: u8| -> (bool, bool) { (want.iter().any(|(j, v)| *j == i && *v), want.iter().any(|(j, _)| *j == i)) };
    Some(format!("local o = {}; std.assertEqual([std.objectFields(o), std.objectFieldsAll(o), std.objectHas(o, 'a'), std.objectHasAll(o, 'a'), 'a' in o, std.objectHas(o, 'b'), std.objectHasAll(o, 'b'), 'b' in o], [[{}], [{}], {}, {}, {}, {}, {}, {}])", e, vis.join(", "), all.join(", "), has(1).0, has(1).1, has(1).1, has(2).0, has(2).1, has(2).1))
}
struct Tally { cases: u64, failures: u64, first: Option<String>, cli: Option<String> }
impl Tally {
    fn check(&mut self, ok: bool, what: &str, witness: impl FnOnce() -> String) {
        self.cases += 1;
        if !ok { self.failures += 1; if self.first.is_none() { self.first = Some(format!("{}: {}", what, witness())); } }
    }
}

// ---- precondition: the REACHABLE objects (the representation invariant of ObjectData) ------------------------
// Layers come into being in three ways only (ObjectField::Removed has ONE constructor, data.rs
// object_with_field_removed; super_layers is filled only there and in extend_object - frame obligation F-objfresh
// covers the two ObjectData literals): a literal / comprehension / stdlib-built object is one layer of Normal fields;
// A + B is B's layers followed by A's; objectRemoveKey(O, x) is one layer holding only `x: Removed(n)` followed by
// the n layers of O.  So a layer list is reachable iff it is a sequence of BLOCKS, a block being one literal layer or
// a marker layer {x: Removed(d)}, d >= 1, followed by a reachable list of exactly d layers.  Enumerated here: every
// reachable list of exactly n layers over two names and the three visibilities (unique block decomposition, so no
// list is produced twice).  Lists outside this set (Removed(0), a marker reaching past its own object) are states no
// program can build; the code is not required to give them a meaning and they are not enumerated.
const LIT: [E; 4] = [E::Absent, E::N(V::Default), E::N(V::Hidden), E::N(V::ForceVisible)];
fn genobj(n: usize, cur: &mut Vec<L>, k: &mut dyn FnMut(&mut Vec<L>)) {
    if n == 0 { k(cur); return; }
    for a in LIT { for b in LIT { cur.push(L { a, b, tag: 0 }); genobj(n - 1, cur, k); cur.pop(); } }
    for d in 1..n {
        for which in 0..2 {
            cur.push(if which == 0 { L { a: E::R(d), b: E::Absent, tag: 0 } } else { L { a: E::Absent, b: E::R(d), tag: 0 } });
            genobj(d, cur, &mut |cur: &mut Vec<L>| genobj(n - 1 - d, cur, k));
            cur.pop();
        }
    }
}
fn for_each_object(n: usize, f: &mut dyn FnMut(&[L])) { genobj(n, &mut Vec::new(), &mut |cur: &mut Vec<L>| f(cur)); }
fn all_objects(maxn: usize) -> Vec<Vec<L>> { let mut v = Vec::new(); for n in 1..=maxn { for_each_object(n, &mut |ls| v.push(ls.to_vec())); } v }
fn show(ls: &[L]) -> String {
    fn e(x: E) -> String { match x { E::Absent => "-".into(), E::N(V::Default) => ":".into(), E::N(V::Hidden) => "::".into(), E::N(V::ForceVisible) => ":::".into(), E::R(d) => format!("removed({})", d) } }
    let v: Vec<String> = ls.iter().map(|l| format!("{{a{} b{}}}", e(l.a), e(l.b))).collect();
    format!("layers(top first)=[{}]", v.join(", "))
}

pub fn run() {
    let maxl: usize = std::env::args().nth(1).map(|s| s.parse().unwrap()).unwrap_or(5);
    let mut t = Tally { cases: 0, failures: 0, first: None, cli: None };
    let mut prog = Program { _p: PhantomData };
    std::panic::set_hook(Box::new(|_| {}));   // panics are counted below, not printed
    let retag = |ls: &[L], t0: usize| -> Vec<L> { ls.iter().enumerate().map(|(i, l)| L { tag: t0 + i, ..*l }).collect() };

    // (1) field list == specification; agrees with find_field / has_field / has_visible_field
    for n in 1..=maxl {
        for_each_object(n, &mut |ls| {
            let o = &object(ls);
            let want = spec_fields(ls);
            let failures_before = t.failures;
            // a panic of the real code on a reachable object is a failure with this object as the witness
            let got = match std::panic::catch_unwind(std::panic::AssertUnwindSafe(|| { let g = real_fields(o); (g, [o.has_field(0, NAME), o.has_field(0, OTHER)], [o.has_visible_field(NAME), o.has_visible_field(OTHER)]) })) {
                Ok((g, _, _)) => g,
                Err(_) => { t.check(false, "C07:objnative:no-panic-on-a-reachable-object", || show(ls)); if t.cli.is_none() { t.cli = cli_program(ls); } return; }
            };
            t.check(got == want, "C07:objnative:field-list-is-the-visibility-rule-over-the-effective-definitions", || format!("{} got {:?} want {:?} (name id, visible)", show(ls), got, want));
            for (nm, id) in [(NAME, 1u8), (OTHER, 2u8)] {
                let listed = got.iter().find(|(i, _)| *i == id);
                t.check(listed.is_some() == o.has_field(0, nm), "C07:objnative:field-list-and-has-field-agree-on-which-fields-exist", || format!("{} name {}", show(ls), id));
                t.check(listed.map(|(_, v)| *v).unwrap_or(false) == o.has_visible_field(nm), "C07:objnative:field-list-and-has-visible-field-agree", || format!("{} name {}", show(ls), id));
            }
            // lookups that start below the top (what `super.f` / `e in super` from a field of layer from-1 perform)
            let ea: Vec<E> = ls.iter().map(|l| l.a).collect();
            for from in 0..ls.len() {
                let gotl = o.find_field(from, NAME).map(|(i, _)| i);
                t.check(gotl == spec_lookup(&ea, from) && o.has_field(from, NAME) == gotl.is_some(), "C07:objnative:lookup-from-a-layer-finds-the-first-effective-definition-at-or-below-it", || format!("{} name a from layer {} got {:?} want {:?}", show(ls), from, gotl, spec_lookup(&ea, from)));
            }
            // the cached list is returned unchanged by a second call
            t.check(real_fields(o) == got, "C07:objnative:field-list-is-stable", || show(ls));
            if t.failures > failures_before && t.cli.is_none() { t.cli = cli_program(ls); }
        });
    }

    let r23 = std::panic::catch_unwind(std::panic::AssertUnwindSafe(|| {
    // (2) extension concatenates layers (rhs first), the result starts unchecked and without a cached list;
    //     both bracketings of a three-way extension give the same layers; {} is a two-sided identity for the field list
    let small = all_objects(2);
    let third = all_objects(1);
    let empty_l = [L { a: E::Absent, b: E::Absent, tag: 7 }];
    for a in all_objects(maxl.min(4)).iter() {
        let oa = object(a);
        let empty = object(&empty_l);
        let l = prog.extend_object(&empty, &oa).view();
        let r = prog.extend_object(&oa, &empty).view();
        let fa = real_fields(&object(a));
        t.check(real_fields(&l) == fa, "C07:objnative:empty-object-is-a-left-identity", || show(a));
        t.check(real_fields(&r) == fa, "C07:objnative:empty-object-is-a-right-identity", || show(a));
        free(l); free(r);
    }
    for a in small.iter() {
        let a = retag(a, 0);
        let oa = object(&a);
        for b in small.iter() {
            let b = retag(b, 2);
            let ob = object(&b);
            let ab = prog.extend_object(&oa, &ob).view();
            let mut want = b.clone(); want.extend(a.iter().cloned());
            t.check(layers_of(&ab) == want, "C07:objnative:extension-is-rhs-layers-then-lhs-layers", || format!("lhs {} rhs {} got {}", show(&a), show(&b), show(&layers_of(&ab))));
            t.check(!ab.asserts_checked.get() && ab.fields_order.get().is_none(), "C07:objnative:combined-object-starts-unchecked-and-uncached", || format!("lhs {} rhs {}", show(&a), show(&b)));
            t.check(real_fields(&ab) == spec_fields(&want), "C07:objnative:field-list-of-an-extension-follows-the-specification", || format!("lhs {} rhs {}", show(&a), show(&b)));
            for c in third.iter() {
                let c = retag(c, 4);
                let oc = object(&c);
                let ab_c = prog.extend_object(&ab, &oc).view();
                let bc = prog.extend_object(&ob, &oc).view();
                let a_bc = prog.extend_object(&oa, &bc).view();
                t.check(layers_of(&ab_c) == layers_of(&a_bc), "C07:objnative:extension-is-associative-on-layers", || format!("A {} B {} C {}", show(&a), show(&b), show(&c)));
                t.check(real_fields(&ab_c) == real_fields(&a_bc), "C07:objnative:both-bracketings-list-the-same-fields", || format!("A {} B {} C {}", show(&a), show(&b), show(&c)));
                free(ab_c); free(bc); free(a_bc);
            }
            free(ab);
        }
    }

    // (3) objectRemoveKey: exactly the named field disappears, every other field keeps existence and visibility;
    //     the result is the marker layer {name: Removed(n)} over the n layers of the operand (so it is reachable in
    //     the sense above); a later extension can define the name again and sees nothing of the removed one
    for n in 1..=(maxl - 1).min(4) {
        for_each_object(n, &mut |ls| {
            let ls = &retag(ls, 1)[..];
            let o = object(ls);
            let before = real_fields(&object(ls));
            let r = prog.object_with_field_removed(&o, NAME).view();
            let mut want_layers = vec![L { a: E::R(n), b: E::Absent, tag: 0 }]; want_layers.extend(ls.iter().cloned());
            t.check(layers_of(&r) == want_layers && !r.asserts_checked.get() && r.fields_order.get().is_none(), "C07:objnative:remove-key-is-one-marker-layer-over-the-operand-and-starts-unchecked", || format!("{} got {}", show(ls), show(&layers_of(&r))));
            let after = real_fields(&r);
            let want: Vec<(u8, bool)> = before.iter().cloned().filter(|(i, _)| *i != 1).collect();
            t.check(after == want, "C07:objnative:remove-key-removes-exactly-the-named-field", || format!("{} before {:?} after {:?}", show(ls), before, after));
            t.check(!r.has_field(0, NAME) && !r.has_visible_field(NAME), "C07:objnative:removed-field-is-not-found", || show(ls));
            t.check(r.has_field(0, OTHER) == o.has_field(0, OTHER) && r.has_visible_field(OTHER) == o.has_visible_field(OTHER), "C07:objnative:remove-key-keeps-the-other-field", || show(ls));
            if n <= 3 {
                for v in [V::Default, V::Hidden, V::ForceVisible] {
                    let top = object(&[L { a: E::N(v), b: E::Absent, tag: 6 }]);
                    let x = prog.extend_object(&r, &top).view();
                    let f = real_fields(&x);
                    let mut want2 = vec![(1u8, v != V::Hidden)]; want2.extend(want.iter().cloned());
                    t.check(f == want2, "C07:objnative:a-field-defined-over-a-removed-one-inherits-nothing-from-it", || format!("{} then + {{a{:?}}} got {:?} want {:?}", show(ls), v, f, want2));
                    free(x);
                }
            }
            free(r);
        });
    }

    }));
    if r23.is_err() { t.check(false, "C07:objnative:no-panic-in-extension-or-removal-of-reachable-objects", || "a panic inside extend_object / object_with_field_removed / the queries on their result (run the unit natively for the backtrace)".to_string()); }
    println!("OBJNATIVE cases={} failures={} maxl={}", t.cases, t.failures, maxl);
    if let Some(w) = t.first { println!("OBJNATIVE first-failure {}", w); }
    if let Some(w) = t.cli { println!("OBJNATIVE cli-witness {}", w); }
}
} // mod u
fn main() { u::run(); }
