// Unit radix: parse_num_radix (std.parseHex / std.parseOctal kernel), extracted verbatim.
#![allow(dead_code, unused)]
mod u {
//@extract file=rsjsonnet-lang/src/program/eval/mod.rs item=enum:ParseNumRadixError
//@extract file=rsjsonnet-lang/src/program/eval/mod.rs item=fn:parse_num_radix

#[cfg(kani)]
mod vharness {
    use super::*;

    fn utf8_len(c: char) -> usize { let v = c as u32; if v < 0x80 { 1 } else if v < 0x800 { 2 } else if v < 0x10000 { 3 } else { 4 } }

    /// s = '1' * K ++ c ++ '1' * M, c an arbitrary char of UTF-8 length L.  K, L, M are compile-time
    /// constants per harness instance, so the string LENGTH is concrete and only the bytes of c are
    /// symbolic (a symbolic length / position exhausted 14 GB and 7 min in CBMC's symbolic
    /// execution).  Instances K = window-4 ..= window+1, L = 1..=4 put every char at every
    /// alignment around the 32-digit (hex) / 42-digit (octal) u128 window.
    fn shaped<const R: u8, const K: usize, const L: usize, const M: usize>() {
        let mut buf = [b'1'; 56];
        let cp: u32 = kani::any();
        match L {
            1 => { kani::assume(cp < 0x80); buf[K] = cp as u8; }
            2 => { kani::assume(cp >= 0x80 && cp < 0x800); buf[K] = 0xC0 | (cp >> 6) as u8; buf[K + 1] = 0x80 | (cp & 0x3F) as u8; }
            3 => { kani::assume(cp >= 0x800 && cp < 0x10000 && !(cp >= 0xD800 && cp < 0xE000));
                   buf[K] = 0xE0 | (cp >> 12) as u8; buf[K + 1] = 0x80 | ((cp >> 6) & 0x3F) as u8; buf[K + 2] = 0x80 | (cp & 0x3F) as u8; }
            _ => { kani::assume(cp >= 0x10000 && cp < 0x110000);
                   buf[K] = 0xF0 | (cp >> 18) as u8; buf[K + 1] = 0x80 | ((cp >> 12) & 0x3F) as u8; buf[K + 2] = 0x80 | ((cp >> 6) & 0x3F) as u8; buf[K + 3] = 0x80 | (cp & 0x3F) as u8; }
        }
        let c = char::from_u32(cp).unwrap();
        let s = unsafe { core::str::from_utf8_unchecked(&buf[..K + L + M]) };
        // contract: total (no panic: the implicit slice / char-boundary / overflow checks are the
        // obligations), and the verdict is InvalidDigit(c) exactly when c is not a digit
        let r = parse_num_radix::<R>(s);
        let is_digit = c.to_digit(R as u32).is_some();
        if L == 1 { kani::cover!(is_digit, "cover:radix:c-is-a-digit"); }
        kani::cover!(!is_digit, "cover:radix:c-is-not-a-digit");
        match r {
            Ok(v) => { assert!(is_digit, "C20,C01,C18:radix:ok-implies-all-digits"); assert!(v.is_finite() && v > 0.0, "C20,C06:radix:ok-is-finite-positive"); }
            Err(ParseNumRadixError::InvalidDigit(x)) => { assert!(!is_digit && x == c, "C20,C18:radix:reports-the-offending-char"); }
            Err(ParseNumRadixError::Overflow) => assert!(false, "C20:radix:no-overflow-below-2^1024"),
            Err(ParseNumRadixError::Empty) => assert!(false, "C20:radix:nonempty-is-not-empty"),
        }
    }
    macro_rules! shaped_k { ($h:ident, $r:expr, $k:expr, $l:expr, $u:expr) => {
        #[kani::proof]
        #[kani::unwind($u)]
        fn $h() { shaped::<$r, $k, $l, 1>(); }
    } }
    //@harness name=radix_hex_k28_l1 props=C20,C01,C18 quickfor=C20 strength=bounded bound="hex string '1'^28 c '1', c any char of UTF-8 length 1" clause="parseHex total on every char at this alignment to the 32-digit window; reports the offending char" timeout=600 replay=radix_hex_shaped:28 std_failures=violation tier=thorough
    shaped_k!(radix_hex_k28_l1, 16, 28, 1, 42);
    //@harness name=radix_hex_k28_l2 props=C20,C01,C18 quickfor=C20 strength=bounded bound="hex string '1'^28 c '1', c any char of UTF-8 length 2" clause="parseHex total on every char at this alignment to the 32-digit window; reports the offending char" timeout=600 replay=radix_hex_shaped:28 std_failures=violation tier=thorough
    shaped_k!(radix_hex_k28_l2, 16, 28, 2, 42);
    //@harness name=radix_hex_k28_l3 props=C20,C01,C18 quickfor=C20 strength=bounded bound="hex string '1'^28 c '1', c any char of UTF-8 length 3" clause="parseHex total on every char at this alignment to the 32-digit window; reports the offending char" timeout=600 replay=radix_hex_shaped:28 std_failures=violation tier=thorough
    shaped_k!(radix_hex_k28_l3, 16, 28, 3, 42);
    //@harness name=radix_hex_k28_l4 props=C20,C01,C18 quickfor=C20 strength=bounded bound="hex string '1'^28 c '1', c any char of UTF-8 length 4" clause="parseHex total on every char at this alignment to the 32-digit window; reports the offending char" timeout=600 replay=radix_hex_shaped:28 std_failures=violation tier=thorough
    shaped_k!(radix_hex_k28_l4, 16, 28, 4, 42);
    //@harness name=radix_hex_k29_l1 props=C20,C01,C18 quickfor=C20 strength=bounded bound="hex string '1'^29 c '1', c any char of UTF-8 length 1" clause="parseHex total on every char at this alignment to the 32-digit window; reports the offending char" timeout=600 replay=radix_hex_shaped:29 std_failures=violation
    shaped_k!(radix_hex_k29_l1, 16, 29, 1, 42);
    //@harness name=radix_hex_k29_l2 props=C20,C01,C18 quickfor=C20 strength=bounded bound="hex string '1'^29 c '1', c any char of UTF-8 length 2" clause="parseHex total on every char at this alignment to the 32-digit window; reports the offending char" timeout=600 replay=radix_hex_shaped:29 std_failures=violation
    shaped_k!(radix_hex_k29_l2, 16, 29, 2, 42);
    //@harness name=radix_hex_k29_l3 props=C20,C01,C18 quickfor=C20 strength=bounded bound="hex string '1'^29 c '1', c any char of UTF-8 length 3" clause="parseHex total on every char at this alignment to the 32-digit window; reports the offending char" timeout=600 replay=radix_hex_shaped:29 std_failures=violation
    shaped_k!(radix_hex_k29_l3, 16, 29, 3, 42);
    //@harness name=radix_hex_k29_l4 props=C20,C01,C18 quickfor=C20 strength=bounded bound="hex string '1'^29 c '1', c any char of UTF-8 length 4" clause="parseHex total on every char at this alignment to the 32-digit window; reports the offending char" timeout=600 replay=radix_hex_shaped:29 std_failures=violation
    shaped_k!(radix_hex_k29_l4, 16, 29, 4, 42);
    //@harness name=radix_hex_k30_l1 props=C20,C01,C18 quickfor=C20 strength=bounded bound="hex string '1'^30 c '1', c any char of UTF-8 length 1" clause="parseHex total on every char at this alignment to the 32-digit window; reports the offending char" timeout=600 replay=radix_hex_shaped:30 std_failures=violation
    shaped_k!(radix_hex_k30_l1, 16, 30, 1, 42);
    //@harness name=radix_hex_k30_l2 props=C20,C01,C18 quickfor=C20 strength=bounded bound="hex string '1'^30 c '1', c any char of UTF-8 length 2" clause="parseHex total on every char at this alignment to the 32-digit window; reports the offending char" timeout=600 replay=radix_hex_shaped:30 std_failures=violation
    shaped_k!(radix_hex_k30_l2, 16, 30, 2, 42);
    //@harness name=radix_hex_k30_l3 props=C20,C01,C18 strength=bounded bound="hex string '1'^30 c '1', c any char of UTF-8 length 3" clause="parseHex total on every char at this alignment to the 32-digit window; reports the offending char" timeout=600 replay=radix_hex_shaped:30 std_failures=violation
    shaped_k!(radix_hex_k30_l3, 16, 30, 3, 42);
    //@harness name=radix_hex_k30_l4 props=C20,C01,C18 quickfor=C20 strength=bounded bound="hex string '1'^30 c '1', c any char of UTF-8 length 4" clause="parseHex total on every char at this alignment to the 32-digit window; reports the offending char" timeout=600 replay=radix_hex_shaped:30 std_failures=violation
    shaped_k!(radix_hex_k30_l4, 16, 30, 4, 42);
    //@harness name=radix_hex_k31_l1 props=C20,C01,C18 quickfor=C20 strength=bounded bound="hex string '1'^31 c '1', c any char of UTF-8 length 1" clause="parseHex total on every char at this alignment to the 32-digit window; reports the offending char" timeout=600 replay=radix_hex_shaped:31 std_failures=violation
    shaped_k!(radix_hex_k31_l1, 16, 31, 1, 42);
    //@harness name=radix_hex_k31_l2 props=C20,C01,C18 strength=bounded bound="hex string '1'^31 c '1', c any char of UTF-8 length 2" clause="parseHex total on every char at this alignment to the 32-digit window; reports the offending char" timeout=600 replay=radix_hex_shaped:31 std_failures=violation
    shaped_k!(radix_hex_k31_l2, 16, 31, 2, 42);
    //@harness name=radix_hex_k31_l3 props=C20,C01,C18 quickfor=C20 strength=bounded bound="hex string '1'^31 c '1', c any char of UTF-8 length 3" clause="parseHex total on every char at this alignment to the 32-digit window; reports the offending char" timeout=600 replay=radix_hex_shaped:31 std_failures=violation
    shaped_k!(radix_hex_k31_l3, 16, 31, 3, 42);
    //@harness name=radix_hex_k31_l4 props=C20,C01,C18 strength=bounded bound="hex string '1'^31 c '1', c any char of UTF-8 length 4" clause="parseHex total on every char at this alignment to the 32-digit window; reports the offending char" timeout=600 replay=radix_hex_shaped:31 std_failures=violation
    shaped_k!(radix_hex_k31_l4, 16, 31, 4, 42);
    //@harness name=radix_hex_k32_l1 props=C20,C01,C18 quickfor=C20 strength=bounded bound="hex string '1'^32 c '1', c any char of UTF-8 length 1" clause="parseHex total on every char at this alignment to the 32-digit window; reports the offending char" timeout=600 replay=radix_hex_shaped:32 std_failures=violation
    shaped_k!(radix_hex_k32_l1, 16, 32, 1, 42);
    //@harness name=radix_hex_k32_l2 props=C20,C01,C18 strength=bounded bound="hex string '1'^32 c '1', c any char of UTF-8 length 2" clause="parseHex total on every char at this alignment to the 32-digit window; reports the offending char" timeout=600 replay=radix_hex_shaped:32 std_failures=violation
    shaped_k!(radix_hex_k32_l2, 16, 32, 2, 42);
    //@harness name=radix_hex_k32_l3 props=C20,C01,C18 quickfor=C20 strength=bounded bound="hex string '1'^32 c '1', c any char of UTF-8 length 3" clause="parseHex total on every char at this alignment to the 32-digit window; reports the offending char" timeout=600 replay=radix_hex_shaped:32 std_failures=violation
    shaped_k!(radix_hex_k32_l3, 16, 32, 3, 42);
    //@harness name=radix_hex_k32_l4 props=C20,C01,C18 quickfor=C20 strength=bounded bound="hex string '1'^32 c '1', c any char of UTF-8 length 4" clause="parseHex total on every char at this alignment to the 32-digit window; reports the offending char" timeout=600 replay=radix_hex_shaped:32 std_failures=violation
    shaped_k!(radix_hex_k32_l4, 16, 32, 4, 42);
    //@harness name=radix_hex_k33_l1 props=C20,C01,C18 quickfor=C20 strength=bounded bound="hex string '1'^33 c '1', c any char of UTF-8 length 1" clause="parseHex total on every char at this alignment to the 32-digit window; reports the offending char" timeout=600 replay=radix_hex_shaped:33 std_failures=violation tier=thorough
    shaped_k!(radix_hex_k33_l1, 16, 33, 1, 42);
    //@harness name=radix_hex_k33_l2 props=C20,C01,C18 quickfor=C20 strength=bounded bound="hex string '1'^33 c '1', c any char of UTF-8 length 2" clause="parseHex total on every char at this alignment to the 32-digit window; reports the offending char" timeout=600 replay=radix_hex_shaped:33 std_failures=violation tier=thorough
    shaped_k!(radix_hex_k33_l2, 16, 33, 2, 42);
    //@harness name=radix_hex_k33_l3 props=C20,C01,C18 quickfor=C20 strength=bounded bound="hex string '1'^33 c '1', c any char of UTF-8 length 3" clause="parseHex total on every char at this alignment to the 32-digit window; reports the offending char" timeout=600 replay=radix_hex_shaped:33 std_failures=violation tier=thorough
    shaped_k!(radix_hex_k33_l3, 16, 33, 3, 42);
    //@harness name=radix_hex_k33_l4 props=C20,C01,C18 quickfor=C20 strength=bounded bound="hex string '1'^33 c '1', c any char of UTF-8 length 4" clause="parseHex total on every char at this alignment to the 32-digit window; reports the offending char" timeout=600 replay=radix_hex_shaped:33 std_failures=violation tier=thorough
    shaped_k!(radix_hex_k33_l4, 16, 33, 4, 42);
    //@harness name=radix_oct_k38_l1 props=C20,C01,C18 quickfor=C20 strength=bounded bound="octal string '1'^38 c '1', c any char of UTF-8 length 1" clause="parseOctal total on every char at this alignment to the 42-digit window" timeout=600 replay=radix_oct_shaped:38 std_failures=violation tier=thorough
    shaped_k!(radix_oct_k38_l1, 8, 38, 1, 52);
    //@harness name=radix_oct_k38_l2 props=C20,C01,C18 quickfor=C20 strength=bounded bound="octal string '1'^38 c '1', c any char of UTF-8 length 2" clause="parseOctal total on every char at this alignment to the 42-digit window" timeout=600 replay=radix_oct_shaped:38 std_failures=violation tier=thorough
    shaped_k!(radix_oct_k38_l2, 8, 38, 2, 52);
    //@harness name=radix_oct_k38_l3 props=C20,C01,C18 quickfor=C20 strength=bounded bound="octal string '1'^38 c '1', c any char of UTF-8 length 3" clause="parseOctal total on every char at this alignment to the 42-digit window" timeout=600 replay=radix_oct_shaped:38 std_failures=violation tier=thorough
    shaped_k!(radix_oct_k38_l3, 8, 38, 3, 52);
    //@harness name=radix_oct_k38_l4 props=C20,C01,C18 quickfor=C20 strength=bounded bound="octal string '1'^38 c '1', c any char of UTF-8 length 4" clause="parseOctal total on every char at this alignment to the 42-digit window" timeout=600 replay=radix_oct_shaped:38 std_failures=violation tier=thorough
    shaped_k!(radix_oct_k38_l4, 8, 38, 4, 52);
    //@harness name=radix_oct_k39_l1 props=C20,C01,C18 quickfor=C20 strength=bounded bound="octal string '1'^39 c '1', c any char of UTF-8 length 1" clause="parseOctal total on every char at this alignment to the 42-digit window" timeout=600 replay=radix_oct_shaped:39 std_failures=violation tier=thorough
    shaped_k!(radix_oct_k39_l1, 8, 39, 1, 52);
    //@harness name=radix_oct_k39_l2 props=C20,C01,C18 quickfor=C20 strength=bounded bound="octal string '1'^39 c '1', c any char of UTF-8 length 2" clause="parseOctal total on every char at this alignment to the 42-digit window" timeout=600 replay=radix_oct_shaped:39 std_failures=violation tier=thorough
    shaped_k!(radix_oct_k39_l2, 8, 39, 2, 52);
    //@harness name=radix_oct_k39_l3 props=C20,C01,C18 quickfor=C20 strength=bounded bound="octal string '1'^39 c '1', c any char of UTF-8 length 3" clause="parseOctal total on every char at this alignment to the 42-digit window" timeout=600 replay=radix_oct_shaped:39 std_failures=violation tier=thorough
    shaped_k!(radix_oct_k39_l3, 8, 39, 3, 52);
    //@harness name=radix_oct_k39_l4 props=C20,C01,C18 quickfor=C20 strength=bounded bound="octal string '1'^39 c '1', c any char of UTF-8 length 4" clause="parseOctal total on every char at this alignment to the 42-digit window" timeout=600 replay=radix_oct_shaped:39 std_failures=violation tier=thorough
    shaped_k!(radix_oct_k39_l4, 8, 39, 4, 52);
    //@harness name=radix_oct_k40_l1 props=C20,C01,C18 quickfor=C20 strength=bounded bound="octal string '1'^40 c '1', c any char of UTF-8 length 1" clause="parseOctal total on every char at this alignment to the 42-digit window" timeout=600 replay=radix_oct_shaped:40 std_failures=violation tier=thorough
    shaped_k!(radix_oct_k40_l1, 8, 40, 1, 52);
    //@harness name=radix_oct_k40_l2 props=C20,C01,C18 quickfor=C20 strength=bounded bound="octal string '1'^40 c '1', c any char of UTF-8 length 2" clause="parseOctal total on every char at this alignment to the 42-digit window" timeout=600 replay=radix_oct_shaped:40 std_failures=violation tier=thorough
    shaped_k!(radix_oct_k40_l2, 8, 40, 2, 52);
    //@harness name=radix_oct_k40_l3 props=C20,C01,C18 quickfor=C20 strength=bounded bound="octal string '1'^40 c '1', c any char of UTF-8 length 3" clause="parseOctal total on every char at this alignment to the 42-digit window" timeout=600 replay=radix_oct_shaped:40 std_failures=violation tier=thorough
    shaped_k!(radix_oct_k40_l3, 8, 40, 3, 52);
    //@harness name=radix_oct_k40_l4 props=C20,C01,C18 quickfor=C20 strength=bounded bound="octal string '1'^40 c '1', c any char of UTF-8 length 4" clause="parseOctal total on every char at this alignment to the 42-digit window" timeout=600 replay=radix_oct_shaped:40 std_failures=violation tier=thorough
    shaped_k!(radix_oct_k40_l4, 8, 40, 4, 52);
    //@harness name=radix_oct_k41_l1 props=C20,C01,C18 quickfor=C20 strength=bounded bound="octal string '1'^41 c '1', c any char of UTF-8 length 1" clause="parseOctal total on every char at this alignment to the 42-digit window" timeout=600 replay=radix_oct_shaped:41 std_failures=violation tier=thorough
    shaped_k!(radix_oct_k41_l1, 8, 41, 1, 52);
    //@harness name=radix_oct_k41_l2 props=C20,C01,C18 quickfor=C20 strength=bounded bound="octal string '1'^41 c '1', c any char of UTF-8 length 2" clause="parseOctal total on every char at this alignment to the 42-digit window" timeout=600 replay=radix_oct_shaped:41 std_failures=violation tier=thorough
    shaped_k!(radix_oct_k41_l2, 8, 41, 2, 52);
    //@harness name=radix_oct_k41_l3 props=C20,C01,C18 quickfor=C20 strength=bounded bound="octal string '1'^41 c '1', c any char of UTF-8 length 3" clause="parseOctal total on every char at this alignment to the 42-digit window" timeout=600 replay=radix_oct_shaped:41 std_failures=violation tier=thorough
    shaped_k!(radix_oct_k41_l3, 8, 41, 3, 52);
    //@harness name=radix_oct_k41_l4 props=C20,C01,C18 quickfor=C20 strength=bounded bound="octal string '1'^41 c '1', c any char of UTF-8 length 4" clause="parseOctal total on every char at this alignment to the 42-digit window" timeout=600 replay=radix_oct_shaped:41 std_failures=violation tier=thorough
    shaped_k!(radix_oct_k41_l4, 8, 41, 4, 52);
    //@harness name=radix_oct_k42_l1 props=C20,C01,C18 quickfor=C20 strength=bounded bound="octal string '1'^42 c '1', c any char of UTF-8 length 1" clause="parseOctal total on every char at this alignment to the 42-digit window" timeout=600 replay=radix_oct_shaped:42 std_failures=violation tier=thorough
    shaped_k!(radix_oct_k42_l1, 8, 42, 1, 52);
    //@harness name=radix_oct_k42_l2 props=C20,C01,C18 quickfor=C20 strength=bounded bound="octal string '1'^42 c '1', c any char of UTF-8 length 2" clause="parseOctal total on every char at this alignment to the 42-digit window" timeout=600 replay=radix_oct_shaped:42 std_failures=violation tier=thorough
    shaped_k!(radix_oct_k42_l2, 8, 42, 2, 52);
    //@harness name=radix_oct_k42_l3 props=C20,C01,C18 quickfor=C20 strength=bounded bound="octal string '1'^42 c '1', c any char of UTF-8 length 3" clause="parseOctal total on every char at this alignment to the 42-digit window" timeout=600 replay=radix_oct_shaped:42 std_failures=violation tier=thorough
    shaped_k!(radix_oct_k42_l3, 8, 42, 3, 52);
    //@harness name=radix_oct_k42_l4 props=C20,C01,C18 quickfor=C20 strength=bounded bound="octal string '1'^42 c '1', c any char of UTF-8 length 4" clause="parseOctal total on every char at this alignment to the 42-digit window" timeout=600 replay=radix_oct_shaped:42 std_failures=violation tier=thorough
    shaped_k!(radix_oct_k42_l4, 8, 42, 4, 52);
    //@harness name=radix_oct_k43_l1 props=C20,C01,C18 quickfor=C20 strength=bounded bound="octal string '1'^43 c '1', c any char of UTF-8 length 1" clause="parseOctal total on every char at this alignment to the 42-digit window" timeout=600 replay=radix_oct_shaped:43 std_failures=violation tier=thorough
    shaped_k!(radix_oct_k43_l1, 8, 43, 1, 52);
    //@harness name=radix_oct_k43_l2 props=C20,C01,C18 quickfor=C20 strength=bounded bound="octal string '1'^43 c '1', c any char of UTF-8 length 2" clause="parseOctal total on every char at this alignment to the 42-digit window" timeout=600 replay=radix_oct_shaped:43 std_failures=violation tier=thorough
    shaped_k!(radix_oct_k43_l2, 8, 43, 2, 52);
    //@harness name=radix_oct_k43_l3 props=C20,C01,C18 quickfor=C20 strength=bounded bound="octal string '1'^43 c '1', c any char of UTF-8 length 3" clause="parseOctal total on every char at this alignment to the 42-digit window" timeout=600 replay=radix_oct_shaped:43 std_failures=violation tier=thorough
    shaped_k!(radix_oct_k43_l3, 8, 43, 3, 52);
    //@harness name=radix_oct_k43_l4 props=C20,C01,C18 quickfor=C20 strength=bounded bound="octal string '1'^43 c '1', c any char of UTF-8 length 4" clause="parseOctal total on every char at this alignment to the 42-digit window" timeout=600 replay=radix_oct_shaped:43 std_failures=violation tier=thorough
    shaped_k!(radix_oct_k43_l4, 8, 43, 4, 52);

    fn hexval(b: u8) -> Option<u32> {
        match b { b'0'..=b'9' => Some((b - b'0') as u32), b'a'..=b'f' => Some((b - b'a') as u32 + 10), b'A'..=b'F' => Some((b - b'A') as u32 + 10), _ => None }
    }

    //@harness props=C20 strength=bounded bound="ASCII strings of length 0..=6, every byte symbolic" clause="parseHex value = sum d_i*16^i exactly; first non-digit reported; empty -> Empty; leading zeros ignored" timeout=1500
    #[kani::proof]
    #[kani::unwind(9)]
    fn radix_hex_value_small() {
        let w: [u8; 6] = kani::any();
        let n: usize = kani::any();
        kani::assume(n <= 6);
        let mut i = 0;
        let mut val: u64 = 0;
        let mut bad: Option<u8> = None;
        let mut seen_nonzero = false;
        while i < n {
            kani::assume(w[i] < 0x80);
            // the real function trims leading '0' first, then scans: the first non-digit AFTER
            // the leading zeros is reported
            if bad.is_none() {
                match hexval(w[i]) { Some(d) => { val = val * 16 + d as u64; } None => { bad = Some(w[i]); } }
            }
            i += 1;
        }
        let s = unsafe { core::str::from_utf8_unchecked(&w[..n]) };
        let r = parse_num_radix::<16>(s);
        if n == 0 {
            assert!(matches!(r, Err(ParseNumRadixError::Empty)), "C20:radix:empty-string-is-Empty");
        } else {
            match (r, bad) {
                (Ok(v), None) => assert!(v == val as f64, "C20:radix:hex-value-exact"),
                (Err(ParseNumRadixError::InvalidDigit(x)), Some(b)) => assert!(x == b as char, "C20:radix:first-invalid-digit-reported"),
                _ => assert!(false, "C20:radix:ok-iff-all-hex-digits"),
            }
        }
    }

    //@harness props=C20 strength=bounded bound="ASCII strings of length 0..=6" clause="parseOctal value exact; 8 and 9 rejected" timeout=1500
    #[kani::proof]
    #[kani::unwind(9)]
    fn radix_oct_value_small() {
        let w: [u8; 6] = kani::any();
        let n: usize = kani::any();
        kani::assume(n <= 6);
        let mut i = 0;
        let mut val: u64 = 0;
        let mut bad: Option<u8> = None;
        while i < n {
            kani::assume(w[i] < 0x80);
            if bad.is_none() {
                if w[i] >= b'0' && w[i] <= b'7' { val = val * 8 + (w[i] - b'0') as u64; } else { bad = Some(w[i]); }
            }
            i += 1;
        }
        let s = unsafe { core::str::from_utf8_unchecked(&w[..n]) };
        let r = parse_num_radix::<8>(s);
        if n == 0 {
            assert!(matches!(r, Err(ParseNumRadixError::Empty)), "C20:radix:empty-string-is-Empty-oct");
        } else {
            match (r, bad) {
                (Ok(v), None) => assert!(v == val as f64, "C20:radix:oct-value-exact"),
                (Err(ParseNumRadixError::InvalidDigit(x)), Some(b)) => assert!(x == b as char, "C20:radix:first-invalid-octal-digit-reported"),
                _ => assert!(false, "C20:radix:ok-iff-all-octal-digits"),
            }
        }
    }

    /// exact value on LONG digit strings: the digits are the hex expansion of an arbitrary integer N of exactly K
    /// digits (leading digit non-zero), so the expected result is the correctly rounded double of N - computed by
    /// the cast `N as f64`, which CBMC models bit-precisely - whatever K is relative to any internal digit window
    fn hex_value_k<const K: usize>() {
        const HEX: [u8; 16] = *b"0123456789abcdef";
        let n: u128 = kani::any();
        if K < 32 { kani::assume(n < (1u128 << (4 * K))); }
        kani::assume(n >> (4 * (K - 1)) != 0);                 // exactly K significant digits
        let mut buf = [0u8; K];
        let mut i = 0; while i < K { buf[i] = HEX[((n >> (4 * (K - 1 - i))) & 15) as usize]; i += 1; }
        let s = unsafe { core::str::from_utf8_unchecked(&buf[..]) };
        match parse_num_radix::<16>(s) {
            Ok(v) => assert!(v == n as f64, "C20:radix:hex-value-is-the-correctly-rounded-double-of-the-integer"),
            Err(_) => assert!(false, "C20:radix:a-string-of-hex-digits-is-accepted"),
        }
    }
    //@harness props=C20,C06 strength=bounded bound="hex strings of exactly 17 digits, EVERY value (16^16 .. 16^17 - 1)" clause="std.parseHex of a 17-digit string is the correctly rounded double of the integer it denotes (more digits than a double's 53 bits, fewer than any 128-bit window)" timeout=1200 replay=radix_value
    #[kani::proof]
    #[kani::unwind(20)]
    fn radix_hex_value_17_digits() { hex_value_k::<17>(); }
    //@harness props=C20,C06 strength=bounded tier=thorough bound="hex strings of exactly 24 digits, EVERY value" clause="std.parseHex of a 24-digit string is the correctly rounded double of the integer it denotes" timeout=1800 replay=radix_value
    #[kani::proof]
    #[kani::unwind(27)]
    fn radix_hex_value_24_digits() { hex_value_k::<24>(); }

    //@harness props=C20 strength=bounded expect=fail clause="canary"
    #[kani::proof]
    #[kani::unwind(9)]
    fn radix_canary() {
        let w: [u8; 2] = kani::any();
        kani::assume(w[0] < 0x80 && w[1] < 0x80);
        let s = unsafe { core::str::from_utf8_unchecked(&w[..]) };
        assert!(parse_num_radix::<16>(s).is_ok(), "canary:radix:always-ok");
    }
}
} // mod u
fn main() {}
