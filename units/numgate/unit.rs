// Unit numgate: every operator / builtin kernel that constructs a number, extracted verbatim,
// under the contract  "requires: operands finite (representation invariant I)
//                      ensures:  Ok  => exactly one value pushed and it is a FINITE number
//                                Err => a numeric error kind".
#![allow(dead_code, unused)]
mod u {
use std::marker::PhantomData;
mod float {
//@extract file=rsjsonnet-lang/src/float.rs whole drop=mod:tests
}
mod ast {
    #[derive(Clone, Copy, PartialEq, Eq)]
    pub enum BinaryOp { Add, Sub, Mul, Div, Rem, Shl, Shr, BitwiseAnd, BitwiseOr, BitwiseXor }
    #[derive(Clone, Copy, PartialEq, Eq)]
    pub enum UnaryOp { Minus, Plus, BitwiseNot, LogicNot }
}
// ---- shim environment -------------------------------------------------------------------
pub type SpanId = u32;
pub enum EvalErrorValueType { Null, Bool, Number, String, Array, Object, Function }
impl EvalErrorValueType {
    fn from_value(v: &ValueData<'_>) -> Self { match v { ValueData::Null => Self::Null, ValueData::Bool(_) => Self::Bool, ValueData::Number(_) => Self::Number, ValueData::_P(_) => Self::Null } }
    fn to_str(&self) -> &'static str { "?" }
}
pub enum EvalErrorKind {
    NumberNan { span: Option<SpanId> },
    NumberOverflow { span: Option<SpanId> },
    NumberNotBitwiseSafe { span: Option<SpanId> },
    DivByZero { span: Option<SpanId> },
    ShiftByNegative { span: Option<SpanId> },
    InvalidStdFuncArgType { func_name: FuncName, arg_index: usize, expected_types: [EvalErrorValueType; 1], got_type: EvalErrorValueType },
    Other { span: Option<SpanId>, message: &'static str },
}
pub struct FuncName;
impl From<&str> for FuncName { fn from(_: &str) -> Self { FuncName } }
pub struct EvalError { pub kind: EvalErrorKind }
type EvalResult<T> = Result<T, Box<EvalError>>;
pub enum ValueData<'p> { Null, Bool(bool), Number(f64), _P(PhantomData<&'p ()>) }
pub struct ItemThunk;
pub struct ArrItem;
impl ArrItem { fn view(&self) -> ItemThunk { ItemThunk } }
pub struct ArrayData<'p> { n: usize, it: ArrItem, _p: PhantomData<&'p ()> }
impl<'p> ArrayData<'p> { fn len(&self) -> usize { self.n } }
impl<'p> core::ops::Index<usize> for ArrayData<'p> { type Output = ArrItem; fn index(&self, i: usize) -> &ArrItem { assert!(i < self.n, "SHIM-ARRAY-INDEX"); &self.it } }
pub struct GcView<T>(T);
impl<T> core::ops::Deref for GcView<T> { type Target = T; fn deref(&self) -> &T { &self.0 } }
pub enum State<'p> {
    StdSumItem { array: GcView<ArrayData<'p>>, index: usize, sum: f64 },
    StdAvgItem { array: GcView<ArrayData<'p>>, index: usize, sum: f64 },
    DoThunk(ItemThunk),
}
pub struct Evaluator<'a, 'p> {
    value_stack: Vec<ValueData<'p>>,
    state_stack: Vec<State<'p>>,
    _a: PhantomData<&'a ()>,
}
impl<'a, 'p> Evaluator<'a, 'p> {
    fn new() -> Self { Evaluator { value_stack: Vec::new(), state_stack: Vec::new(), _a: PhantomData } }
    // shim: the real one also captures the stack trace (not part of this contract)
    fn report_error(&self, kind: EvalErrorKind) -> Box<EvalError> { Box::new(EvalError { kind }) }
}
macro_rules! format { ($($t:tt)*) => { "<formatted message elided by shim>" } }
macro_rules! vec { ($($t:tt)*) => { [$($t)*] } }

// ---- extracted, verbatim ---------------------------------------------------------------
//@extract file=rsjsonnet-lang/src/program/eval/mod.rs impl=Evaluator methods=safe_f64_to_i64,check_number_value,expect_std_func_arg_number
//@extract file=rsjsonnet-lang/src/program/eval/stdlib.rs impl=Evaluator methods=do_std_exponent,do_std_mantissa,do_std_floor,do_std_ceil,do_std_modulo,do_std_pow,do_std_exp,do_std_log,do_std_log2,do_std_log10,do_std_sqrt,do_std_sin,do_std_cos,do_std_tan,do_std_asin,do_std_acos,do_std_atan,do_std_atan2,do_std_deg2rad,do_std_rad2deg,do_std_hypot,do_std_sum_item,do_std_avg_item

impl<'p> Evaluator<'_, 'p> {
    fn arm_add(&mut self, lhs: f64, rhs: f64, span: Option<SpanId>) -> EvalResult<()> {
//@extract file=rsjsonnet-lang/src/program/eval/expr.rs in=impl:Evaluator/fn:do_binary_op arm="(ast::BinaryOp::Add, ValueData::Number(lhs), ValueData::Number(rhs))"
        Ok(())
    }
    fn arm_sub(&mut self, lhs: f64, rhs: f64, span: Option<SpanId>) -> EvalResult<()> {
//@extract file=rsjsonnet-lang/src/program/eval/expr.rs in=impl:Evaluator/fn:do_binary_op arm="(ast::BinaryOp::Sub, ValueData::Number(lhs), ValueData::Number(rhs))"
        Ok(())
    }
    fn arm_mul(&mut self, lhs: f64, rhs: f64, span: Option<SpanId>) -> EvalResult<()> {
//@extract file=rsjsonnet-lang/src/program/eval/expr.rs in=impl:Evaluator/fn:do_binary_op arm="(ast::BinaryOp::Mul, ValueData::Number(lhs), ValueData::Number(rhs))"
        Ok(())
    }
    fn arm_div(&mut self, lhs: f64, rhs: f64, span: Option<SpanId>) -> EvalResult<()> {
//@extract file=rsjsonnet-lang/src/program/eval/expr.rs in=impl:Evaluator/fn:do_binary_op arm="(ast::BinaryOp::Div, ValueData::Number(lhs), ValueData::Number(rhs))"
        Ok(())
    }
    fn arm_rem(&mut self, lhs: f64, rhs: f64, span: Option<SpanId>) -> EvalResult<()> {
//@extract file=rsjsonnet-lang/src/program/eval/expr.rs in=impl:Evaluator/fn:do_binary_op arm="(ast::BinaryOp::Rem, ValueData::Number(lhs), ValueData::Number(rhs))"
        Ok(())
    }
    fn arm_shl(&mut self, lhs: f64, rhs: f64, span: Option<SpanId>) -> EvalResult<()> {
//@extract file=rsjsonnet-lang/src/program/eval/expr.rs in=impl:Evaluator/fn:do_binary_op arm="(ast::BinaryOp::Shl, ValueData::Number(lhs), ValueData::Number(rhs))"
        Ok(())
    }
    fn arm_shr(&mut self, lhs: f64, rhs: f64, span: Option<SpanId>) -> EvalResult<()> {
//@extract file=rsjsonnet-lang/src/program/eval/expr.rs in=impl:Evaluator/fn:do_binary_op arm="(ast::BinaryOp::Shr, ValueData::Number(lhs), ValueData::Number(rhs))"
        Ok(())
    }
    fn arm_and(&mut self, lhs: f64, rhs: f64, span: Option<SpanId>) -> EvalResult<()> {
//@extract file=rsjsonnet-lang/src/program/eval/expr.rs in=impl:Evaluator/fn:do_binary_op arm="(ast::BinaryOp::BitwiseAnd, ValueData::Number(lhs), ValueData::Number(rhs))"
        Ok(())
    }
    fn arm_or(&mut self, lhs: f64, rhs: f64, span: Option<SpanId>) -> EvalResult<()> {
//@extract file=rsjsonnet-lang/src/program/eval/expr.rs in=impl:Evaluator/fn:do_binary_op arm="(ast::BinaryOp::BitwiseOr, ValueData::Number(lhs), ValueData::Number(rhs))"
        Ok(())
    }
    fn arm_xor(&mut self, lhs: f64, rhs: f64, span: Option<SpanId>) -> EvalResult<()> {
//@extract file=rsjsonnet-lang/src/program/eval/expr.rs in=impl:Evaluator/fn:do_binary_op arm="(ast::BinaryOp::BitwiseXor, ValueData::Number(lhs), ValueData::Number(rhs))"
        Ok(())
    }
    fn arm_neg(&mut self, rhs: f64, span: SpanId) -> EvalResult<()> {
//@extract file=rsjsonnet-lang/src/program/eval/mod.rs in=impl:Evaluator/fn:run arm="(ast::UnaryOp::Minus, ValueData::Number(rhs))"
        Ok(())
    }
    fn arm_plus(&mut self, rhs: f64, span: SpanId) -> EvalResult<()> {
//@extract file=rsjsonnet-lang/src/program/eval/mod.rs in=impl:Evaluator/fn:run arm="(ast::UnaryOp::Plus, ValueData::Number(rhs))"
        Ok(())
    }
    fn arm_bitnot(&mut self, rhs: f64, span: SpanId) -> EvalResult<()> {
//@extract file=rsjsonnet-lang/src/program/eval/mod.rs in=impl:Evaluator/fn:run arm="(ast::UnaryOp::BitwiseNot, ValueData::Number(rhs))"
        Ok(())
    }
    fn arm_std_mod_number(&mut self, lhs: f64, rhs: ValueData<'p>) -> EvalResult<()> {
//@extract file=rsjsonnet-lang/src/program/eval/stdlib.rs in=impl:Evaluator/fn:do_std_mod arm="ValueData::Number(lhs)"
    }
    fn arm_push_u32(&mut self, value: u32) {
//@extract file=rsjsonnet-lang/src/program/eval/mod.rs in=impl:Evaluator/fn:run arm="State::PushU32AsValue(value)"
    }
}

#[cfg(kani)]
mod vharness {
    use super::*;

    fn finite() -> f64 { let x: f64 = kani::any(); kani::assume(x.is_finite()); x }

    /// the common postcondition: on Ok exactly one value was pushed on top of `base` values and
    /// it is a finite number; on Err nothing is required of the stack but the kind is numeric.
    fn post(ev: &Evaluator<'_, '_>, r: &EvalResult<()>, base: usize) {
        match r {
            Ok(()) => {
                assert!(ev.value_stack.len() == base + 1, "C06:numgate:pushes-exactly-one-value");
                match ev.value_stack[base] {
                    ValueData::Number(x) => assert!(x.is_finite(), "C06:numgate:pushed-number-is-finite"),
                    _ => assert!(false, "C06:numgate:pushed-value-is-number"),
                }
            }
            Err(e) => {
                assert!(matches!(e.kind, EvalErrorKind::NumberNan { .. } | EvalErrorKind::NumberOverflow { .. }
                    | EvalErrorKind::NumberNotBitwiseSafe { .. } | EvalErrorKind::DivByZero { .. } | EvalErrorKind::ShiftByNegative { .. }),
                    "C06:numgate:error-is-a-numeric-error-kind");
            }
        }
    }

    //@harness props=C06,C01 strength=proof clause="check_number_value(v) is Ok <=> v finite; NaN -> NumberNan; +-inf -> NumberOverflow (all f64)"
    #[kani::proof]
    fn gate_check_number_value() {
        let v: f64 = kani::any();
        let mut ev = Evaluator::new();
        let r = ev.check_number_value(v, None);
        match r {
            Ok(()) => assert!(v.is_finite(), "C06:numgate:gate-ok-implies-finite"),
            Err(e) => {
                assert!(!v.is_finite(), "C06:numgate:gate-err-implies-nonfinite");
                if v.is_nan() { assert!(matches!(e.kind, EvalErrorKind::NumberNan { .. }), "C06:numgate:nan-kind"); }
                else { assert!(matches!(e.kind, EvalErrorKind::NumberOverflow { .. }), "C06:numgate:overflow-kind"); }
            }
        }
        assert!(ev.value_stack.len() == 0 && ev.state_stack.len() == 0, "C06:numgate:gate-frame");
    }

    //@harness props=C06,C01 strength=proof clause="safe_f64_to_i64: Ok(i) <=> |v| <= 2^53-1 (and not NaN... see note), i == trunc(v) exactly; never UB/overflow (all f64)"
    #[kani::proof]
    fn gate_safe_f64_to_i64() {
        let v: f64 = kani::any();
        let mut ev = Evaluator::new();
        let r = ev.safe_f64_to_i64(v, None);
        let max = 9007199254740991.0f64;
        match r {
            Ok(i) => {
                // NaN compares false with both bounds and is let through by the real code as 0;
                // under invariant I (finite operands) that input cannot occur.
                if !v.is_nan() {
                    assert!(v >= -max && v <= max, "C06:numgate:i64-ok-implies-safe-range");
                    assert!(i as f64 == v.trunc(), "C06:numgate:i64-is-truncation");
                    assert!(i >= -9007199254740991 && i <= 9007199254740991, "C06:numgate:i64-in-safe-range");
                }
            }
            Err(e) => {
                assert!(v < -max || v > max, "C06:numgate:i64-err-implies-out-of-range");
                assert!(matches!(e.kind, EvalErrorKind::NumberNotBitwiseSafe { .. }), "C06:numgate:i64-err-kind");
            }
        }
    }

    macro_rules! bin_arm { ($h:ident, $f:ident) => {
        #[kani::proof]
        fn $h() {
            let (a, b) = (finite(), finite());
            let mut ev = Evaluator::new();
            let r = ev.$f(a, b, None);
            post(&ev, &r, 0);
        }
    } }
    //@harness name=arm_add_finite props=C06,C01 strength=proof clause="a + b: result finite or error (all finite pairs)" replay=probe:do_binary_op
    bin_arm!(arm_add_finite, arm_add);
    //@harness name=arm_sub_finite props=C06,C01 strength=proof clause="a - b" replay=probe:do_binary_op
    bin_arm!(arm_sub_finite, arm_sub);
    //@harness name=arm_mul_finite props=C06,C01 strength=proof clause="a * b" replay=probe:do_binary_op
    bin_arm!(arm_mul_finite, arm_mul);
    //@harness name=arm_div_finite props=C06,C01 strength=proof clause="a / b incl. division by zero" replay=probe:do_binary_op
    bin_arm!(arm_div_finite, arm_div);
    //@harness name=arm_rem_finite props=C06,C01 strength=proof clause="a % b incl. zero divisor" timeout=1200 replay=probe:do_binary_op
    bin_arm!(arm_rem_finite, arm_rem);
    //@harness name=arm_shl_finite props=C06,C01 strength=proof clause="a << b: no shift overflow / UB, result finite" replay=probe:do_binary_op
    bin_arm!(arm_shl_finite, arm_shl);
    //@harness name=arm_shr_finite props=C06,C01 strength=proof clause="a >> b" replay=probe:do_binary_op
    bin_arm!(arm_shr_finite, arm_shr);
    //@harness name=arm_and_finite props=C06,C01 strength=proof clause="a & b" replay=probe:do_binary_op
    bin_arm!(arm_and_finite, arm_and);
    //@harness name=arm_or_finite props=C06,C01 strength=proof clause="a | b" replay=probe:do_binary_op
    bin_arm!(arm_or_finite, arm_or);
    //@harness name=arm_xor_finite props=C06,C01 strength=proof clause="a ^ b" replay=probe:do_binary_op
    bin_arm!(arm_xor_finite, arm_xor);

    macro_rules! un_arm { ($h:ident, $f:ident) => {
        #[kani::proof]
        fn $h() {
            let a = finite();
            let mut ev = Evaluator::new();
            let r = ev.$f(a, 0);
            post(&ev, &r, 0);
        }
    } }
    //@harness name=arm_neg_finite props=C06,C01 strength=proof clause="-a" replay=probe:run
    un_arm!(arm_neg_finite, arm_neg);
    //@harness name=arm_plus_finite props=C06,C01 strength=proof clause="+a" replay=probe:run
    un_arm!(arm_plus_finite, arm_plus);
    //@harness name=arm_bitnot_finite props=C06,C01 strength=proof clause="~a" replay=probe:run
    un_arm!(arm_bitnot_finite, arm_bitnot);

    macro_rules! std1 { ($h:ident, $f:ident) => {
        #[kani::proof]
        fn $h() {
            let a = finite();
            let mut ev = Evaluator::new();
            ev.value_stack.push(ValueData::Number(a));
            let r = ev.$f();
            post(&ev, &r, 0);
        }
    } }
    macro_rules! std2 { ($h:ident, $f:ident) => {
        #[kani::proof]
        fn $h() {
            let (a, b) = (finite(), finite());
            let mut ev = Evaluator::new();
            ev.value_stack.push(ValueData::Number(a));
            ev.value_stack.push(ValueData::Number(b));
            let r = ev.$f();
            post(&ev, &r, 0);
        }
    } }
    // libm functions Kani cannot execute (foreign C): replaced by an ARBITRARY double - the contract
    // proved is that the gate filters whatever libm returns.
    fn nd1(_x: f64) -> f64 { kani::any() }
    fn nd2(_x: f64, _y: f64) -> f64 { kani::any() }
    macro_rules! std1s { ($h:ident, $f:ident, $m:path) => {
        #[kani::proof]
        #[kani::stub($m, nd1)]
        fn $h() {
            let a = finite();
            let mut ev = Evaluator::new();
            ev.value_stack.push(ValueData::Number(a));
            let r = ev.$f();
            post(&ev, &r, 0);
        }
    } }
    macro_rules! std2s { ($h:ident, $f:ident, $m:path) => {
        #[kani::proof]
        #[kani::stub($m, nd2)]
        fn $h() {
            let (a, b) = (finite(), finite());
            let mut ev = Evaluator::new();
            ev.value_stack.push(ValueData::Number(a));
            ev.value_stack.push(ValueData::Number(b));
            let r = ev.$f();
            post(&ev, &r, 0);
        }
    } }
    //@harness name=std_exponent_finite props=C06,C01 strength=proof clause="std.exponent" replay=probe:do_std_exponent
    std1!(std_exponent_finite, do_std_exponent);
    //@harness name=std_mantissa_finite props=C06,C01 strength=proof clause="std.mantissa" replay=probe:do_std_mantissa
    std1!(std_mantissa_finite, do_std_mantissa);
    //@harness name=std_floor_finite props=C06,C01 strength=proof clause="std.floor" replay=probe:do_std_floor
    std1!(std_floor_finite, do_std_floor);
    //@harness name=std_ceil_finite props=C06,C01 strength=proof clause="std.ceil" replay=probe:do_std_ceil
    std1!(std_ceil_finite, do_std_ceil);
    //@harness name=std_modulo_finite props=C06,C01 strength=proof clause="std.modulo" timeout=1200 replay=probe:do_std_modulo
    std2!(std_modulo_finite, do_std_modulo);
    //@harness name=std_pow_finite props=C06,C01 strength=proof clause="std.pow (libm result treated as arbitrary by CBMC: the gate is what is proved)" replay=probe:do_std_pow
    std2!(std_pow_finite, do_std_pow);
    //@harness name=std_exp_finite props=C06,C01 strength=proof clause="std.exp" replay=probe:do_std_exp
    std1!(std_exp_finite, do_std_exp);
    //@harness name=std_log_finite props=C06,C01 strength=proof clause="std.log" replay=probe:do_std_log
    std1!(std_log_finite, do_std_log);
    //@harness name=std_log2_finite props=C06,C01 strength=proof clause="std.log2" replay=probe:do_std_log2
    std1!(std_log2_finite, do_std_log2);
    //@harness name=std_log10_finite props=C06,C01 strength=proof clause="std.log10" replay=probe:do_std_log10
    std1!(std_log10_finite, do_std_log10);
    //@harness name=std_sqrt_finite props=C06,C01 strength=proof clause="std.sqrt" replay=probe:do_std_sqrt
    std1!(std_sqrt_finite, do_std_sqrt);
    //@harness name=std_sin_finite props=C06,C01 strength=proof clause="std.sin" replay=probe:do_std_sin
    std1!(std_sin_finite, do_std_sin);
    //@harness name=std_cos_finite props=C06,C01 strength=proof clause="std.cos" replay=probe:do_std_cos
    std1!(std_cos_finite, do_std_cos);
    //@harness name=std_tan_finite props=C06,C01 strength=proof clause="std.tan (libm result stubbed as arbitrary double)" args="-Z stubbing" replay=probe:do_std_tan
    std1s!(std_tan_finite, do_std_tan, f64::tan);
    //@harness name=std_asin_finite props=C06,C01 strength=proof clause="std.asin (libm result stubbed as arbitrary double)" args="-Z stubbing" replay=probe:do_std_asin
    std1s!(std_asin_finite, do_std_asin, f64::asin);
    //@harness name=std_acos_finite props=C06,C01 strength=proof clause="std.acos (libm result stubbed as arbitrary double)" args="-Z stubbing" replay=probe:do_std_acos
    std1s!(std_acos_finite, do_std_acos, f64::acos);
    //@harness name=std_atan_finite props=C06,C01 strength=proof clause="std.atan (libm result stubbed as arbitrary double)" args="-Z stubbing" replay=probe:do_std_atan
    std1s!(std_atan_finite, do_std_atan, f64::atan);
    //@harness name=std_atan2_finite props=C06,C01 strength=proof clause="std.atan2 (libm result stubbed as arbitrary double)" args="-Z stubbing" replay=probe:do_std_atan2
    std2s!(std_atan2_finite, do_std_atan2, f64::atan2);
    //@harness name=std_deg2rad_finite props=C06,C01 strength=proof clause="std.deg2rad" replay=probe:do_std_deg2rad
    std1!(std_deg2rad_finite, do_std_deg2rad);
    //@harness name=std_rad2deg_finite props=C06,C01 strength=proof clause="std.rad2deg" replay=probe:do_std_rad2deg
    std1!(std_rad2deg_finite, do_std_rad2deg);
    //@harness name=std_hypot_finite props=C06,C01 strength=proof clause="std.hypot (libm result stubbed as arbitrary double)" args="-Z stubbing" replay=probe:do_std_hypot
    std2s!(std_hypot_finite, do_std_hypot, f64::hypot);

    //@harness props=C06,C01 strength=proof clause="std.mod on numbers" timeout=1200 replay=probe:do_std_mod
    #[kani::proof]
    fn std_mod_number_finite() {
        let (a, b) = (finite(), finite());
        let mut ev = Evaluator::new();
        let r = ev.arm_std_mod_number(a, ValueData::Number(b));
        post(&ev, &r, 0);
    }

    //@harness props=C06 strength=proof clause="PushU32AsValue pushes a finite number for every u32"
    #[kani::proof]
    fn push_u32_finite() {
        let v: u32 = kani::any();
        let mut ev = Evaluator::new();
        ev.arm_push_u32(v);
        post(&ev, &Ok(()), 0);
        match ev.value_stack[0] { ValueData::Number(x) => assert!(x == v as f64, "C06:numgate:u32-exact"), _ => () }
    }

    // std.sum / std.avg step: requires the running sum and the item finite (I); ensures: whatever
    // is pushed is finite, and the running sum stored back into the continuation state is finite
    // (so that the requires of the next step holds: the loop invariant of the fold).
    fn sum_post(ev: &Evaluator<'_, '_>, r: &EvalResult<()>, last: bool) {
        match r {
            Ok(()) => {
                if last {
                    post(ev, r, 0);
                    assert!(ev.state_stack.len() == 0, "C06:numgate:sum-last-step-pushes-no-state");
                } else {
                    assert!(ev.value_stack.len() == 0, "C06:numgate:sum-inner-step-pushes-no-value");
                    assert!(ev.state_stack.len() == 2, "C06:numgate:sum-inner-step-continues");
                    match &ev.state_stack[0] {
                        State::StdSumItem { sum, .. } | State::StdAvgItem { sum, .. } => assert!(sum.is_finite(), "C06:numgate:sum-invariant-running-sum-finite"),
                        _ => assert!(false, "C06:numgate:sum-continuation-state"),
                    }
                }
            }
            Err(_) => post(ev, r, 0),
        }
    }
    //@harness props=C06,C01 strength=proof clause="std.sum step keeps the running sum finite and pushes only finite numbers" replay=probe:do_std_sum_item
    #[kani::proof]
    fn std_sum_item_finite() {
        let (sum, item) = (finite(), finite());
        let n: usize = kani::any();
        let index: usize = kani::any();
        kani::assume(n >= 1 && n <= 1usize << 40 && index < n);
        let mut ev = Evaluator::new();
        ev.value_stack.push(ValueData::Number(item));
        let arr = GcView(ArrayData { n, it: ArrItem, _p: PhantomData });
        let r = ev.do_std_sum_item(arr, index, sum);
        sum_post(&ev, &r, index + 1 == n);
    }
    //@harness props=C06,C01 strength=proof clause="std.avg step keeps the running sum finite and pushes only finite numbers" replay=probe:do_std_avg_item
    #[kani::proof]
    fn std_avg_item_finite() {
        let (sum, item) = (finite(), finite());
        let n: usize = kani::any();
        let index: usize = kani::any();
        kani::assume(n >= 1 && n <= 1usize << 40 && index < n);
        let mut ev = Evaluator::new();
        ev.value_stack.push(ValueData::Number(item));
        let arr = GcView(ArrayData { n, it: ArrItem, _p: PhantomData });
        let r = ev.do_std_avg_item(arr, index, sum);
        sum_post(&ev, &r, index + 1 == n);
    }

    //@harness props=C06 strength=proof clause="rule I lemma: every integer-to-f64 conversion is finite (u8..u128, i8..i128, usize)"
    #[kani::proof]
    fn int_to_f64_is_finite() {
        let a: u64 = kani::any();
        let b: i64 = kani::any();
        let c: u128 = kani::any();
        let d: i128 = kani::any();
        let e: u32 = kani::any();
        let f: i16 = kani::any();
        assert!((a as f64).is_finite() && (b as f64).is_finite(), "C06:numgate:int64-cast-finite");
        assert!((c as f64).is_finite() && (d as f64).is_finite(), "C06:numgate:int128-cast-finite");
        assert!(f64::from(e).is_finite() && f64::from(f).is_finite(), "C06:numgate:from-int-finite");
        assert!((a as usize as f64).is_finite(), "C06:numgate:usize-cast-finite");
    }

    //@harness props=C06 strength=proof expect=fail clause="canary: without the gate an addition can overflow"
    #[kani::proof]
    fn numgate_canary() {
        let (a, b) = (finite(), finite());
        assert!((a + b).is_finite(), "canary:numgate:ungated-add-finite");
    }
}
} // mod u
fn main() {}
