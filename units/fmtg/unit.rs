// Unit fmtg: the %g / %G arm of std.format (Evaluator::do_std_format_code, program/eval/format.rs): the
// statements that choose between exponent and plain form and compute the precision handed to the
// renderer, extracted verbatim as a statement slice.  Hand-written environment: the two renderers are
// RECORDING SHIMS here (which one was called, with which precision) - the real render_float_exp /
// render_float_def are under contract in unit fmt; FormatCode & co. are extracted.
#![allow(dead_code, unused)]
mod u {
//@extract file=rsjsonnet-lang/src/program/eval/format.rs item=struct:FormatCode
//@extract file=rsjsonnet-lang/src/program/eval/format.rs item=struct:CFlags
//@extract file=rsjsonnet-lang/src/program/eval/format.rs item=enum:LenMod
//@extract file=rsjsonnet-lang/src/program/eval/format.rs item=enum:ConvType
//@extract file=rsjsonnet-lang/src/program/eval/format.rs item=enum:FieldWidth
pub type InternedStr<'p> = &'p str;

pub static mut CALL: (u8, usize, bool) = (0, 0, false);      // (1 = exp / 2 = def, precision, trim_zeros)
fn render_float_exp(value: f64, prec: usize, zero_pad: usize, plus: bool, blank: bool, ensure_pt: bool, trim_zeros: bool, uppercase: bool) -> u8 {
    unsafe { CALL = (1, prec, trim_zeros); } 0
}
fn render_float_def(value: f64, prec: usize, zero_pad: usize, plus: bool, blank: bool, ensure_pt: bool, trim_zeros: bool) -> u8 {
    unsafe { CALL = (2, prec, trim_zeros); } 0
}

fn g_arm(value: f64, fpprec: usize, zp: usize, code: &FormatCode) -> u8 {
//@extract file=rsjsonnet-lang/src/program/eval/format.rs in=impl:Evaluator/fn:do_std_format_code from="let exponent = if value == 0.0" to="let s = if exponent"
    s
}

#[cfg(kani)]
mod vharness {
    use super::*;

    // f64::log10 is a foreign libm call CBMC cannot execute: its result is an ARBITRARY double here, so
    // both forms are explored for every precision whatever the value
    fn nd_log10(_x: f64) -> f64 { kani::any() }

    fn code(alt: bool, upper: bool) -> FormatCode {
        FormatCode { mkey: None, cflags: CFlags { alt, zero: false, left: false, blank: false, plus: false }, fw: None, prec: None, _len_mod: None, ctype: if upper { ConvType::FloatGUpper } else { ConvType::FloatGLower } }
    }

    fn g_case(value: f64, int_digits: usize) {
        let fpprec: usize = kani::any();
        let alt: bool = kani::any();
        let c = code(alt, kani::any());
        let _ = g_arm(value, fpprec, 0, &c);
        let (which, prec, trim) = unsafe { CALL };
        assert!(which == 1 || which == 2, "C19:fmtg:one-of-the-two-forms-is-rendered");
        if which == 1 {
            assert!(prec == if fpprec == 0 { 0 } else { fpprec - 1 }, "C19:fmtg:exponent-form-has-precision-minus-one-digits-zero-treated-as-one");
        } else {
            assert!(prec == fpprec.saturating_sub(int_digits), "C19:fmtg:plain-form-has-precision-minus-integer-digits");
        }
        assert!(trim == !alt, "C19:fmtg:trailing-zeros-trimmed-iff-no-alternate-flag");
    }
    //@harness props=C19,C01 strength=proof clause="%g / %G of the value 0.5 (the integer-digit count goes through f64 -> String, which CBMC executes only for a concrete value), for EVERY precision (any usize, incl. 0) and either choice of form: computing the renderer's precision never overflows or panics; the exponent form is rendered with max(P, 1) - 1 fractional digits (C printf: precision 0 is treated as 1), the plain form with P minus the number of integer digits, never below 0; trailing zeros are trimmed exactly when '#' is absent" args="-Z stubbing" replay=fmt_g
    #[kani::proof]
    #[kani::unwind(12)]
    #[kani::stub(f64::log10, nd_log10)]
    fn g_precision_any_half() { g_case(0.5, 1); }
    //@harness props=C19,C01 strength=proof clause="%g / %G of the value 7.25 (the integer-digit count goes through f64 -> String, which CBMC executes only for a concrete value), for EVERY precision (any usize, incl. 0) and either choice of form: computing the renderer's precision never overflows or panics; the exponent form is rendered with max(P, 1) - 1 fractional digits (C printf: precision 0 is treated as 1), the plain form with P minus the number of integer digits, never below 0; trailing zeros are trimmed exactly when '#' is absent" args="-Z stubbing" replay=fmt_g
    #[kani::proof]
    #[kani::unwind(12)]
    #[kani::stub(f64::log10, nd_log10)]
    fn g_precision_any_seven() { g_case(7.25, 1); }
    //@harness props=C19,C01 strength=proof clause="%g / %G of the value -123.5 (the integer-digit count goes through f64 -> String, which CBMC executes only for a concrete value), for EVERY precision (any usize, incl. 0) and either choice of form: computing the renderer's precision never overflows or panics; the exponent form is rendered with max(P, 1) - 1 fractional digits (C printf: precision 0 is treated as 1), the plain form with P minus the number of integer digits, never below 0; trailing zeros are trimmed exactly when '#' is absent" args="-Z stubbing" replay=fmt_g
    #[kani::proof]
    #[kani::unwind(12)]
    #[kani::stub(f64::log10, nd_log10)]
    fn g_precision_any_neg123() { g_case(-123.5, 3); }
    //@harness props=C19,C01 strength=proof clause="%g / %G of the value 654321.0 (the integer-digit count goes through f64 -> String, which CBMC executes only for a concrete value), for EVERY precision (any usize, incl. 0) and either choice of form: computing the renderer's precision never overflows or panics; the exponent form is rendered with max(P, 1) - 1 fractional digits (C printf: precision 0 is treated as 1), the plain form with P minus the number of integer digits, never below 0; trailing zeros are trimmed exactly when '#' is absent" args="-Z stubbing" replay=fmt_g
    #[kani::proof]
    #[kani::unwind(12)]
    #[kani::stub(f64::log10, nd_log10)]
    fn g_precision_any_big() { g_case(654321.0, 6); }

    //@harness props=C19,C01 strength=proof expect=fail clause="canary" args="-Z stubbing"
    #[kani::proof]
    #[kani::unwind(12)]
    #[kani::stub(f64::log10, nd_log10)]
    fn fmtg_canary() {
        let fpprec: usize = kani::any();
        let c = code(false, false);
        let _ = g_arm(7.25, fpprec, 0, &c);
        assert!(unsafe { CALL.0 } == 1, "canary:fmtg:always-exponent-form");
    }
}
} // mod u
fn main() {}
