#!/usr/bin/env python3
"""Expands the concrete-string harness instances of unit fmt (unit.rs.in -> unit.rs)."""
import os, re
here = os.path.dirname(os.path.abspath(__file__))
strings = [("empty", ""), ("a", "a"), ("e2", "\\u{e9}"), ("e3", "\\u{20ac}"), ("e4", "\\u{1F600}"), ("ae2", "a\\u{e9}"),
           ("e2e2", "\\u{e9}\\u{e9}"), ("e2e3", "\\u{e9}\\u{20ac}"), ("ae4", "a\\u{1F600}"), ("e2e2e2", "\\u{e9}\\u{e9}\\u{e9}")]
def nchars(s):
    return len(re.findall(r'\\u\{[0-9a-fA-F]+\}|.', s))
inst = ""
for tag, lit in strings:
    for which, fn in (("arr", "pad_block_array"), ("obj", "pad_block_object")):
        # all instances are quick-tier: the object form used to have only e2e2 / ae4 in quick (for
        # speed), and a seeded change to the object form was caught only thanks to those two
        tier = ""
        inst += '''    //@harness name=pad_%s_%s props=C19,C18 strength=bounded bound="s = '%s' (concrete), fw in 0..=8 and the '-' flag symbolic, previous output 'xy'" clause="padded field = s plus max(0, fw - chars(s)) spaces on the correct side; never shorter than fw characters" timeout=600 replay=fmt_pad:%s:%s%s
    pad_inst!(pad_%s_%s, %s, "%s", %d);
''' % (which, tag, lit.replace("\\", ""), which, tag, tier, which, tag, fn, lit, nchars(lit))
tpl = open(os.path.join(here, "unit.rs.in")).read()
open(os.path.join(here, "unit.rs"), "w").write(tpl.replace("@@PAD_INSTANCES@@", inst))
