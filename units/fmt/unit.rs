// Unit fmt: std.format kernels, extracted verbatim: the width-padding blocks, the precision
// plumbing of %e/%f/%g (render_float_*), decorate_digits, render_int, render_hex.
// (unit.rs is generated from unit.rs.in by units/fmt/gen.py: it only expands the list of
//  concrete-string harness instances; run it after editing this file.)
#![allow(dead_code, unused)]
mod u {
use std::marker::PhantomData;
//@include shim/bstr.rs
impl BStr {
    pub fn extend<I: IntoIterator<Item = char>>(&mut self, it: I) { for c in it { self.push(c); } }
}
use self::BStr as String;

//@extract file=rsjsonnet-lang/src/program/eval/format.rs item=struct:FormatCode
//@extract file=rsjsonnet-lang/src/program/eval/format.rs item=struct:CFlags
//@extract file=rsjsonnet-lang/src/program/eval/format.rs item=enum:LenMod
//@extract file=rsjsonnet-lang/src/program/eval/format.rs item=enum:ConvType
//@extract file=rsjsonnet-lang/src/program/eval/format.rs item=enum:FieldWidth
//@extract file=rsjsonnet-lang/src/program/eval/format.rs item=const:MAX_FLOAT_FMT_PREC optional
//@extract file=rsjsonnet-lang/src/program/eval/format.rs item=fn:render_float_def
//@extract file=rsjsonnet-lang/src/program/eval/format.rs item=fn:render_float_exp
//@extract file=rsjsonnet-lang/src/program/eval/format.rs item=fn:decorate_digits


// the padding block of do_std_format_codes_array_3 as a function of its free variables
fn pad_block_array(fw: u32, s: String, result: &mut String, code: &FormatCode) {
//@extract file=rsjsonnet-lang/src/program/eval/format.rs in=impl:Evaluator/fn:do_std_format_codes_array_3 from="let fw = fw as usize" to="if"
}
// ... and of do_std_format_codes_object_2
fn pad_block_object(fw: u32, s: String, result: &mut String, code: &FormatCode) {
//@extract file=rsjsonnet-lang/src/program/eval/format.rs in=impl:Evaluator/fn:do_std_format_codes_object_2 from="let fw = fw as usize" to="if"
}

// render_int / render_hex are methods of Evaluator that do not touch it: extracted onto an empty receiver
pub struct Evaluator<'a, 'p>(PhantomData<(&'a (), &'p ())>);
//@extract file=rsjsonnet-lang/src/program/eval/format.rs impl=Evaluator methods=render_int,render_hex

fn slice_float_def_format(value: f64, value_abs: f64, prec: usize) {
//@extract file=rsjsonnet-lang/src/program/eval/format.rs in=fn:render_float_def from="let is_neg" to="let mut digits_str"
}
fn slice_float_exp_format(value: f64, value_abs: f64, prec: usize) {
//@extract file=rsjsonnet-lang/src/program/eval/format.rs in=fn:render_float_exp from="let is_neg" to="let digits_str"
}

#[cfg(kani)]
mod vharness {
    use super::*;

    fn code(left: bool) -> FormatCode {
        FormatCode { mkey: None, cflags: CFlags { alt: false, zero: false, left, blank: false, plus: false },
                     fw: None, prec: None, _len_mod: None, ctype: ConvType::String }
    }

    macro_rules! pad_inst { ($h:ident, $f:ident, $s:expr, $nch:expr) => {
        #[kani::proof]
        #[kani::unwind(12)]
        fn $h() {
            let s_lit: &str = $s;
            let nch: usize = $nch;
            let fw: u32 = kani::any();
            kani::assume(fw <= 8);
            let left: bool = kani::any();
            let mut result = BStr::from("xy");
            let c = code(left);
            $f(fw, BStr::from(s_lit), &mut result, &c);
            pad_post(fw, left, s_lit, nch, &result);
        }
    } }
    fn pad_post(fw: u32, left: bool, s_lit: &str, nch: usize, result: &BStr) {
        let sb = s_lit.as_bytes();
        let pad = if (fw as usize) > nch { fw as usize - nch } else { 0 };
        let b = result.as_bytes();
        assert!(b.len() == 2 + sb.len() + pad, "C19,C18:fmt:padded-length-is-s-plus-max0-fw-minus-chars");
        assert!(b[0] == b'x' && b[1] == b'y', "C19:fmt:previous-output-untouched");
        // field counted in characters is never shorter than fw
        assert!(nch + pad >= fw as usize, "C19,C18:fmt:field-never-shorter-than-width-in-chars");
        let (s_at, p_at) = if left { (2, 2 + sb.len()) } else { (2 + pad, 2) };
        let mut i = 0;
        while i < sb.len() { assert!(b[s_at + i] == sb[i], "C19:fmt:value-text-verbatim"); i += 1; }
        let mut j = 0;
        while j < pad { assert!(b[p_at + j] == b' ', "C19:fmt:padding-is-spaces-on-the-correct-side"); j += 1; }
    }
    //@harness name=pad_arr_empty props=C19,C18 strength=bounded bound="s = '' (concrete), fw in 0..=8 and the '-' flag symbolic, previous output 'xy'" clause="padded field = s plus max(0, fw - chars(s)) spaces on the correct side; never shorter than fw characters" timeout=600 replay=fmt_pad:arr:empty
    pad_inst!(pad_arr_empty, pad_block_array, "", 0);
    //@harness name=pad_obj_empty props=C19,C18 strength=bounded bound="s = '' (concrete), fw in 0..=8 and the '-' flag symbolic, previous output 'xy'" clause="padded field = s plus max(0, fw - chars(s)) spaces on the correct side; never shorter than fw characters" timeout=600 replay=fmt_pad:obj:empty
    pad_inst!(pad_obj_empty, pad_block_object, "", 0);
    //@harness name=pad_arr_a props=C19,C18 strength=bounded bound="s = 'a' (concrete), fw in 0..=8 and the '-' flag symbolic, previous output 'xy'" clause="padded field = s plus max(0, fw - chars(s)) spaces on the correct side; never shorter than fw characters" timeout=600 replay=fmt_pad:arr:a
    pad_inst!(pad_arr_a, pad_block_array, "a", 1);
    //@harness name=pad_obj_a props=C19,C18 strength=bounded bound="s = 'a' (concrete), fw in 0..=8 and the '-' flag symbolic, previous output 'xy'" clause="padded field = s plus max(0, fw - chars(s)) spaces on the correct side; never shorter than fw characters" timeout=600 replay=fmt_pad:obj:a
    pad_inst!(pad_obj_a, pad_block_object, "a", 1);
    //@harness name=pad_arr_e2 props=C19,C18 strength=bounded bound="s = 'u{e9}' (concrete), fw in 0..=8 and the '-' flag symbolic, previous output 'xy'" clause="padded field = s plus max(0, fw - chars(s)) spaces on the correct side; never shorter than fw characters" timeout=600 replay=fmt_pad:arr:e2
    pad_inst!(pad_arr_e2, pad_block_array, "\u{e9}", 1);
    //@harness name=pad_obj_e2 props=C19,C18 strength=bounded bound="s = 'u{e9}' (concrete), fw in 0..=8 and the '-' flag symbolic, previous output 'xy'" clause="padded field = s plus max(0, fw - chars(s)) spaces on the correct side; never shorter than fw characters" timeout=600 replay=fmt_pad:obj:e2
    pad_inst!(pad_obj_e2, pad_block_object, "\u{e9}", 1);
    //@harness name=pad_arr_e3 props=C19,C18 strength=bounded bound="s = 'u{20ac}' (concrete), fw in 0..=8 and the '-' flag symbolic, previous output 'xy'" clause="padded field = s plus max(0, fw - chars(s)) spaces on the correct side; never shorter than fw characters" timeout=600 replay=fmt_pad:arr:e3
    pad_inst!(pad_arr_e3, pad_block_array, "\u{20ac}", 1);
    //@harness name=pad_obj_e3 props=C19,C18 strength=bounded bound="s = 'u{20ac}' (concrete), fw in 0..=8 and the '-' flag symbolic, previous output 'xy'" clause="padded field = s plus max(0, fw - chars(s)) spaces on the correct side; never shorter than fw characters" timeout=600 replay=fmt_pad:obj:e3
    pad_inst!(pad_obj_e3, pad_block_object, "\u{20ac}", 1);
    //@harness name=pad_arr_e4 props=C19,C18 strength=bounded bound="s = 'u{1F600}' (concrete), fw in 0..=8 and the '-' flag symbolic, previous output 'xy'" clause="padded field = s plus max(0, fw - chars(s)) spaces on the correct side; never shorter than fw characters" timeout=600 replay=fmt_pad:arr:e4
    pad_inst!(pad_arr_e4, pad_block_array, "\u{1F600}", 1);
    //@harness name=pad_obj_e4 props=C19,C18 strength=bounded bound="s = 'u{1F600}' (concrete), fw in 0..=8 and the '-' flag symbolic, previous output 'xy'" clause="padded field = s plus max(0, fw - chars(s)) spaces on the correct side; never shorter than fw characters" timeout=600 replay=fmt_pad:obj:e4
    pad_inst!(pad_obj_e4, pad_block_object, "\u{1F600}", 1);
    //@harness name=pad_arr_ae2 props=C19,C18 strength=bounded bound="s = 'au{e9}' (concrete), fw in 0..=8 and the '-' flag symbolic, previous output 'xy'" clause="padded field = s plus max(0, fw - chars(s)) spaces on the correct side; never shorter than fw characters" timeout=600 replay=fmt_pad:arr:ae2
    pad_inst!(pad_arr_ae2, pad_block_array, "a\u{e9}", 2);
    //@harness name=pad_obj_ae2 props=C19,C18 strength=bounded bound="s = 'au{e9}' (concrete), fw in 0..=8 and the '-' flag symbolic, previous output 'xy'" clause="padded field = s plus max(0, fw - chars(s)) spaces on the correct side; never shorter than fw characters" timeout=600 replay=fmt_pad:obj:ae2
    pad_inst!(pad_obj_ae2, pad_block_object, "a\u{e9}", 2);
    //@harness name=pad_arr_e2e2 props=C19,C18 strength=bounded bound="s = 'u{e9}u{e9}' (concrete), fw in 0..=8 and the '-' flag symbolic, previous output 'xy'" clause="padded field = s plus max(0, fw - chars(s)) spaces on the correct side; never shorter than fw characters" timeout=600 replay=fmt_pad:arr:e2e2
    pad_inst!(pad_arr_e2e2, pad_block_array, "\u{e9}\u{e9}", 2);
    //@harness name=pad_obj_e2e2 props=C19,C18 strength=bounded bound="s = 'u{e9}u{e9}' (concrete), fw in 0..=8 and the '-' flag symbolic, previous output 'xy'" clause="padded field = s plus max(0, fw - chars(s)) spaces on the correct side; never shorter than fw characters" timeout=600 replay=fmt_pad:obj:e2e2
    pad_inst!(pad_obj_e2e2, pad_block_object, "\u{e9}\u{e9}", 2);
    //@harness name=pad_arr_e2e3 props=C19,C18 strength=bounded bound="s = 'u{e9}u{20ac}' (concrete), fw in 0..=8 and the '-' flag symbolic, previous output 'xy'" clause="padded field = s plus max(0, fw - chars(s)) spaces on the correct side; never shorter than fw characters" timeout=600 replay=fmt_pad:arr:e2e3
    pad_inst!(pad_arr_e2e3, pad_block_array, "\u{e9}\u{20ac}", 2);
    //@harness name=pad_obj_e2e3 props=C19,C18 strength=bounded bound="s = 'u{e9}u{20ac}' (concrete), fw in 0..=8 and the '-' flag symbolic, previous output 'xy'" clause="padded field = s plus max(0, fw - chars(s)) spaces on the correct side; never shorter than fw characters" timeout=600 replay=fmt_pad:obj:e2e3
    pad_inst!(pad_obj_e2e3, pad_block_object, "\u{e9}\u{20ac}", 2);
    //@harness name=pad_arr_ae4 props=C19,C18 strength=bounded bound="s = 'au{1F600}' (concrete), fw in 0..=8 and the '-' flag symbolic, previous output 'xy'" clause="padded field = s plus max(0, fw - chars(s)) spaces on the correct side; never shorter than fw characters" timeout=600 replay=fmt_pad:arr:ae4
    pad_inst!(pad_arr_ae4, pad_block_array, "a\u{1F600}", 2);
    //@harness name=pad_obj_ae4 props=C19,C18 strength=bounded bound="s = 'au{1F600}' (concrete), fw in 0..=8 and the '-' flag symbolic, previous output 'xy'" clause="padded field = s plus max(0, fw - chars(s)) spaces on the correct side; never shorter than fw characters" timeout=600 replay=fmt_pad:obj:ae4
    pad_inst!(pad_obj_ae4, pad_block_object, "a\u{1F600}", 2);
    //@harness name=pad_arr_e2e2e2 props=C19,C18 strength=bounded bound="s = 'u{e9}u{e9}u{e9}' (concrete), fw in 0..=8 and the '-' flag symbolic, previous output 'xy'" clause="padded field = s plus max(0, fw - chars(s)) spaces on the correct side; never shorter than fw characters" timeout=600 replay=fmt_pad:arr:e2e2e2
    pad_inst!(pad_arr_e2e2e2, pad_block_array, "\u{e9}\u{e9}\u{e9}", 3);
    //@harness name=pad_obj_e2e2e2 props=C19,C18 strength=bounded bound="s = 'u{e9}u{e9}u{e9}' (concrete), fw in 0..=8 and the '-' flag symbolic, previous output 'xy'" clause="padded field = s plus max(0, fw - chars(s)) spaces on the correct side; never shorter than fw characters" timeout=600 replay=fmt_pad:obj:e2e2e2
    pad_inst!(pad_obj_e2e2e2, pad_block_object, "\u{e9}\u{e9}\u{e9}", 3);

    // ---- precision plumbing: the precision handed to format! is accepted for EVERY requested
    // precision (format! panics with "Formatting argument out of range" above u16::MAX).  The
    // contract is on the statement slice `let is_neg = ..; [cap]; let digits_str = format!(..)` of
    // each renderer; alloc::fmt::format itself is stubbed (float digits are trusted std), so what
    // is executed is exactly the argument construction (core::fmt::rt::Argument::from_usize).
    fn stub_format(_a: core::fmt::Arguments<'_>) -> std::string::String { std::string::String::new() }
    //@harness props=C19,C01 strength=proof clause="render_float_def: precision argument of format! in range for every precision (usize up to u32::MAX), value, flags" args="-Z stubbing" std_failures=violation replay=fmt_prec:f timeout=600
    #[kani::proof]
    #[kani::stub(alloc::fmt::format, stub_format)]
    fn float_def_any_precision() {
        let value: f64 = kani::any();
        kani::assume(value.is_finite());
        let prec: usize = kani::any();
        kani::assume(prec <= u32::MAX as usize);
        kani::cover!(prec > 65535, "cover:fmt:precision-above-u16");
        slice_float_def_format(value, value.abs(), prec);
        assert!(true, "C19:fmt:float-def-format-call-returns");
    }
    //@harness props=C19,C01 strength=proof clause="render_float_exp: precision argument of format! in range for every precision" args="-Z stubbing" std_failures=violation replay=fmt_prec:e timeout=600
    #[kani::proof]
    #[kani::stub(alloc::fmt::format, stub_format)]
    fn float_exp_any_precision() {
        let value: f64 = kani::any();
        kani::assume(value.is_finite());
        let prec: usize = kani::any();
        kani::assume(prec <= u32::MAX as usize);
        kani::cover!(prec > 65535, "cover:fmt:precision-above-u16-exp");
        slice_float_exp_format(value, value.abs(), prec);
        assert!(true, "C19:fmt:float-exp-format-call-returns");
    }

    // ---- decorate_digits: sign / zero padding / precision ----
    //@harness props=C19 strength=bounded bound="digit strings of 1..=4 digits (concrete '7's, symbolic length), min_chars, min_digits <= 8" clause="decorate_digits: sign char, then zeros, then digits; length = max(sign+digits, min_chars, sign+min_digits)" timeout=600
    #[kani::proof]
    #[kani::unwind(12)]
    fn decorate_digits_contract() {
        let n: usize = kani::any();
        kani::assume(n >= 1 && n <= 4);
        let digits = &"7777"[..n];
        let (is_neg, sign, blank): (bool, bool, bool) = (kani::any(), kani::any(), kani::any());
        let min_chars: usize = kani::any();
        let min_digits: usize = kani::any();
        kani::assume(min_chars <= 8 && min_digits <= 8);
        let r = decorate_digits(digits, is_neg, min_chars, min_digits, sign, blank);
        let b = r.as_bytes();
        let sl = if is_neg || sign || blank { 1 } else { 0 };
        if is_neg { assert!(b[0] == b'-', "C19:fmt:minus-sign-first"); }
        else if sign { assert!(b[0] == b'+', "C19:fmt:plus-flag"); }
        else if blank { assert!(b[0] == b' ', "C19:fmt:space-flag"); }
        let want_digits = if min_digits > n { min_digits } else { n };
        let want = if sl + want_digits > min_chars { sl + want_digits } else { min_chars };
        assert!(b.len() == want, "C19:fmt:length-is-max-of-width-and-precision");
        let mut i = sl;
        while i < b.len() - n { assert!(b[i] == b'0', "C19:fmt:zero-padding-between-sign-and-digits"); i += 1; }
        while i < b.len() { assert!(b[i] == b'7', "C19:fmt:digits-verbatim-at-the-end"); i += 1; }
    }

    // render_int / render_hex (digit loops `mag % radix_f`): NOT under contract. CBMC 6.11
    // over-approximates f64 `%` (measured: `(m as f64) % 8.0 == (m % 8) as f64` fails for u16 m),
    // so the digit value and even the `b'0' + digit` overflow check cannot be decided. See DESIGN.md.

    // %d %i %u %o %x %X of the value ZERO.  The digit loops of render_int / render_hex use f64 `%`, which CBMC
    // over-approximates even for constants (measured: 255.0 % 16.0 == 15.0 FAILS), so non-zero magnitudes cannot
    // be decided; for zero the functions skip the loop and everything else - sign, '#' prefix, zero padding by
    // width and by precision - is executed and checked against printf's layout.
    fn zero_layout(hex: bool) {
        let (min_chars, min_digits): (usize, usize) = (kani::any(), kani::any());
        kani::assume(min_chars <= 8 && min_digits <= 8);
        let (blank, plus, alt, capitals, neg): (bool, bool, bool, bool, bool) = (kani::any(), kani::any(), kani::any(), kani::any(), kani::any());
        let octal: bool = kani::any();
        let mut ev = Evaluator(PhantomData);
        let out = if hex { ev.render_hex(if neg { -0.0 } else { 0.0 }, min_chars, min_digits, blank, plus, alt, capitals) }
                  else { ev.render_int(neg, 0.0, min_chars, min_digits, blank, plus, if octal { 8 } else { 10 }, if octal && alt { "0" } else { "" }) };
        let o = out.as_bytes();
        // expected: [sign] [0x | 0X] zeros "0"   (Python / C: '%#x' % 0 == '0x0', '%#o' % 0 == '0' in C, '0o0' in Python: not pinned here)
        let sign: Option<u8> = if !hex && neg { Some(b'-') } else if plus { Some(b'+') } else if blank { Some(b' ') } else { None };
        let prefix: &[u8] = if hex && alt { if capitals { b"0X" } else { b"0x" } } else { b"" };
        let head = sign.is_some() as usize + prefix.len();
        let digits = 1usize;
        let zeros = core::cmp::max(min_digits.saturating_sub(digits), min_chars.saturating_sub(head + digits));
        assert!(o.len() == head + zeros + digits, "C19:fmt:integer-zero-length-is-sign-prefix-padding-digit");
        let mut k = 0;
        if let Some(sg) = sign { assert!(o[0] == sg, "C19:fmt:sign-comes-first"); k = 1; }
        let mut j = 0; while j < prefix.len() { assert!(o[k + j] == prefix[j], "C19:fmt:alternate-form-prefix-follows-the-sign-and-precedes-the-zero-padding"); j += 1; }
        k += prefix.len();
        let mut z = 0; while z < zeros + digits { assert!(o[k + z] == b'0', "C19:fmt:zero-padding-then-the-digit"); z += 1; }
    }
    //@harness props=C19,C01 strength=bounded bound="the value 0, width and precision 0..8, every flag combination, radix 10 and 8" clause="%d / %o of zero: [sign] then zero padding up to the precision or the width, then the digit" timeout=600
    #[kani::proof]
    #[kani::unwind(12)]
    fn int_zero_layout() { zero_layout(false); }

    //@harness props=C19,C18 strength=bounded expect=fail clause="canary"
    #[kani::proof]
    #[kani::unwind(12)]
    fn fmt_canary() {
        let fw: u32 = kani::any();
        kani::assume(fw <= 8);
        let mut result = BStr::from("xy");
        pad_block_array(fw, BStr::from("a"), &mut result, &code(false));
        assert!(result.len() == 3, "canary:fmt:never-pads");
    }
}
} // mod u
fn main() {}
