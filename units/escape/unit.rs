// Unit escape: string escapers of manifest.rs (JSON / Python / TOML) and the bash / XML
// escaping builtins, extracted verbatim; contract = "the output is a well-formed string
// literal of the target syntax whose standard decoding is the input" for EVERY char.
#![allow(dead_code, unused)]
// (everything lives in `mod u` so that the extracted `pub(super)` visibilities stay verbatim)
mod u {
use std::fmt::Write as _;
//@include shim/bstr.rs
use self::BStr as String;

//@extract file=rsjsonnet-lang/src/program/eval/manifest.rs item=fn:escape_string_json
//@extract file=rsjsonnet-lang/src/program/eval/manifest.rs item=fn:escape_string_python
//@extract file=rsjsonnet-lang/src/program/eval/manifest.rs item=fn:escape_string_toml
//@extract file=rsjsonnet-lang/src/program/eval/manifest.rs item=fn:is_safe_toml_plain
//@extract file=rsjsonnet-lang/src/program/eval/manifest.rs item=fn:escape_key_toml

// ---- shim evaluator for the two escaping builtins: exactly the two stacks they touch ----
pub enum ValueData { String(BStr) }
pub struct Evaluator<'a, 'p> {
    string_stack: Vec<&'a str>,
    value_stack: Vec<ValueData>,
    _p: core::marker::PhantomData<&'p ()>,
}
//@extract file=rsjsonnet-lang/src/program/eval/stdlib.rs impl=Evaluator methods=do_std_escape_string_json,do_std_escape_string_python,do_std_escape_string_bash,do_std_escape_string_xml

// ---- specification (independent of the code): RFC 8259 section 7 string body decoding ----
fn hexv(b: u8) -> Option<u32> {
    match b {
        b'0'..=b'9' => Some((b - b'0') as u32),
        b'a'..=b'f' => Some((b - b'a') as u32 + 10),
        b'A'..=b'F' => Some((b - b'A') as u32 + 10),
        _ => None,
    }
}
fn hex4(b: &[u8], at: usize) -> Option<u32> {
    if at + 4 > b.len() { return None; }
    Some((hexv(b[at])? << 12) | (hexv(b[at + 1])? << 8) | (hexv(b[at + 2])? << 4) | hexv(b[at + 3])?)
}
#[derive(Clone, Copy, PartialEq, Eq)]
enum Syntax { Json, Toml, Python }
/// Decodes `body` (the bytes strictly between the quotes) as exactly ONE character of a
/// string in the given syntax; None if it is not a well-formed single-character body.
fn unescape_one(b: &[u8], syn: Syntax) -> Option<u32> {
    let n = b.len();
    if n == 0 { return None; }
    if b[0] == b'\\' {
        if n < 2 { return None; }
        let simple = match b[1] {
            b'"' => Some(0x22), b'\\' => Some(0x5C),
            b'/' => if syn == Syntax::Json { Some(0x2F) } else { None },
            b'b' => Some(8), b'f' => Some(0xC), b'n' => Some(0xA), b'r' => Some(0xD), b't' => Some(9),
            _ => None,
        };
        if let Some(v) = simple { return if n == 2 { Some(v) } else { None }; }
        if b[1] != b'u' { return None; }
        let cu1 = hex4(b, 2)?;
        if cu1 >= 0xD800 && cu1 <= 0xDFFF {
            // JSON: surrogate pair; TOML/Python: \u must be a scalar value
            if syn != Syntax::Json { return None; }
            if !(cu1 <= 0xDBFF) || n != 12 || b[6] != b'\\' || b[7] != b'u' { return None; }
            let cu2 = hex4(b, 8)?;
            if !(cu2 >= 0xDC00 && cu2 <= 0xDFFF) { return None; }
            return Some(0x10000 + ((cu1 - 0xD800) << 10) + (cu2 - 0xDC00));
        }
        return if n == 6 { Some(cu1) } else { None };
    }
    // raw character: must be well-formed UTF-8 of exactly n bytes and allowed unescaped
    let cp = if b[0] < 0x80 { if n != 1 { return None; } b[0] as u32 }
        else if b[0] >= 0xC2 && b[0] <= 0xDF { if n != 2 || b[1] & 0xC0 != 0x80 { return None; } ((b[0] as u32 & 0x1F) << 6) | (b[1] as u32 & 0x3F) }
        else if b[0] >= 0xE0 && b[0] <= 0xEF {
            if n != 3 || b[1] & 0xC0 != 0x80 || b[2] & 0xC0 != 0x80 { return None; }
            let v = ((b[0] as u32 & 0x0F) << 12) | ((b[1] as u32 & 0x3F) << 6) | (b[2] as u32 & 0x3F);
            if v < 0x800 || (v >= 0xD800 && v <= 0xDFFF) { return None; }
            v
        } else if b[0] >= 0xF0 && b[0] <= 0xF4 {
            if n != 4 || b[1] & 0xC0 != 0x80 || b[2] & 0xC0 != 0x80 || b[3] & 0xC0 != 0x80 { return None; }
            let v = ((b[0] as u32 & 0x07) << 18) | ((b[1] as u32 & 0x3F) << 12) | ((b[2] as u32 & 0x3F) << 6) | (b[3] as u32 & 0x3F);
            if v < 0x10000 || v > 0x10FFFF { return None; }
            v
        } else { return None; };
    // Which characters may appear RAW between the quotes:
    //   JSON  (RFC 8259): %x20-21 / %x23-5B / %x5D-10FFFF.
    //   TOML  (v1.0 basic string): C0 controls except TAB, and U+007F, must be escaped (raw TAB is legal).
    //   Python ("..." literal): everything except quote, backslash and {U+0000, U+000A, U+000D}.
    //     MEASURED with Python's own parser (ast.literal_eval on '"' + c + '"' for every C0 control,
    //     DEL, NEL, LS, PS): only NUL, LF, CR fail to decode back to themselves.  An earlier version
    //     of this spec demanded `< 0x20` for Python too, which is MORE than the property states
    //     ("the target language's own parser decodes to the same value") and raised a false alarm
    //     on a seeded change that stopped escaping U+001F (DESIGN.md section 12).
    if cp == 0x22 || cp == 0x5C { return None; }
    match syn {
        Syntax::Json => if cp < 0x20 { return None; },
        // MEASURED with tomllib: raw TAB is accepted and round-trips; every other C0 control and U+007F is rejected
        Syntax::Toml => if (cp < 0x20 && cp != 0x09) || cp == 0x7F { return None; },
        Syntax::Python => if cp == 0x00 || cp == 0x0A || cp == 0x0D { return None; },
    }
    Some(cp)
}

#[cfg(kani)]
mod vharness {
    use super::*;

    fn check_one(c: char, out: &BStr, syn: Syntax) {
        let b = out.as_bytes();
        let n = b.len();
        assert!(n >= 3, "C05,C20:escape:quoted-nonempty");
        assert!(b[0] == b'"' && b[n - 1] == b'"', "C05,C20:escape:delimited-by-quotes");
        let body = &b[1..n - 1];
        // well-formed single-char body per the TARGET grammar: which raw characters are allowed
        // differs per syntax (see unescape_one); quote and backslash are never allowed raw
        let dec = unescape_one(body, syn);
        assert!(dec.is_some(), "C05,C20:escape:body-is-a-wellformed-single-char-literal-of-the-target-grammar");
        assert!(dec == Some(c as u32), "C05,C20:escape:decodes-to-input-char");
    }

    //@harness props=C05,C20 strength=proof clause="escape_string_json: every char -> well-formed RFC 8259 string decoding to it" timeout=900 replay=escape_json_char
    #[kani::proof]
    #[kani::unwind(8)]
    fn escape_json_every_char() {
        let c: char = kani::any();
        let mut buf = [0u8; 4];
        let s: &str = c.encode_utf8(&mut buf);
        let mut out = String::new();
        escape_string_json(s, &mut out);
        kani::cover!(c == '\u{1F}', "cover:escape:last-c0-control");
        kani::cover!(c as u32 >= 0x10000, "cover:escape:astral");
        check_one(c, &out, Syntax::Json);
    }

    //@harness props=C05 strength=proof clause="escape_string_toml: every char -> TOML basic string decoding to it" timeout=900 replay=escape_toml_char
    #[kani::proof]
    #[kani::unwind(8)]
    fn escape_toml_every_char() {
        let c: char = kani::any();
        let mut buf = [0u8; 4];
        let s: &str = c.encode_utf8(&mut buf);
        let mut out = String::new();
        escape_string_toml(s, &mut out);
        check_one(c, &out, Syntax::Toml);
    }

    //@harness props=C05,C20 strength=proof clause="escape_string_python: every char -> Python str literal decoding to it" timeout=900 replay=escape_python_char
    #[kani::proof]
    #[kani::unwind(8)]
    fn escape_python_every_char() {
        let c: char = kani::any();
        let mut buf = [0u8; 4];
        let s: &str = c.encode_utf8(&mut buf);
        let mut out = String::new();
        escape_string_python(s, &mut out);
        check_one(c, &out, Syntax::Python);
    }


    // String level (bounded): on concrete multi-char strings the output is quote + concatenation of
    // the per-char images + quote, i.e. the loop only concatenates (lifts the per-char proof).
    //@harness props=C05,C20 strength=bounded bound="3 concrete strings of 2-3 chars mixing ASCII, quote, backslash, C0 control, 2/3/4-byte chars" clause="escape_string_json concatenates per-char images" timeout=600
    #[kani::proof]
    #[kani::unwind(16)]
    fn escape_json_concat_concrete() {
        let mut o = String::new();
        escape_string_json("a\u{1b}\"", &mut o);
        assert!(o.as_bytes() == b"\"a\\u001b\\\"\"", "C05,C20:escape:concat-1");
        let mut o = String::new();
        escape_string_json("\u{e9}\\\u{20ac}", &mut o);
        assert!(o.as_bytes() == b"\"\xc3\xa9\\\\\xe2\x82\xac\"", "C05,C20:escape:concat-2");
        let mut o = String::new();
        escape_string_json("\u{1F600}\n", &mut o);
        assert!(o.as_bytes() == b"\"\xf0\x9f\x98\x80\\n\"", "C05,C20:escape:concat-3");
    }

    // escapeStringBash: 'body' where a quote becomes '"'"' and everything else is verbatim
    //@harness props=C20 strength=proof clause="std.escapeStringBash on every char; stack frame: pops 1 string, pushes 1 value" timeout=600
    #[kani::proof]
    #[kani::unwind(8)]
    fn escape_bash_every_char() {
        let c: char = kani::any();
        let mut buf = [0u8; 4];
        let s: &str = c.encode_utf8(&mut buf);
        let slen = s.len();
        let mut ev = Evaluator { string_stack: vec![s], value_stack: Vec::new(), _p: core::marker::PhantomData };
        ev.do_std_escape_string_bash();
        assert!(ev.string_stack.len() == 0 && ev.value_stack.len() == 1, "C20:escape:bash-stack-frame");
        let ValueData::String(out) = &ev.value_stack[0];
        let b = out.as_bytes();
        if c == '\'' {
            assert!(b == b"''\"'\"''", "C20:escape:bash-quote");
        } else {
            assert!(b.len() == slen + 2 && b[0] == b'\'' && b[b.len() - 1] == b'\'', "C20:escape:bash-delims");
            let mut i = 0;
            while i < slen {
                assert!(b[1 + i] == buf[i], "C20:escape:bash-verbatim");
                i += 1;
            }
        }
    }

    //@harness props=C20 strength=proof clause="std.escapeStringXml on every char" timeout=600
    #[kani::proof]
    #[kani::unwind(8)]
    fn escape_xml_every_char() {
        let c: char = kani::any();
        let mut buf = [0u8; 4];
        let s: &str = c.encode_utf8(&mut buf);
        let slen = s.len();
        let mut ev = Evaluator { string_stack: vec![s], value_stack: Vec::new(), _p: core::marker::PhantomData };
        ev.do_std_escape_string_xml();
        assert!(ev.string_stack.len() == 0 && ev.value_stack.len() == 1, "C20:escape:xml-stack-frame");
        let ValueData::String(out) = &ev.value_stack[0];
        let b = out.as_bytes();
        match c {
            '<' => assert!(b == b"&lt;", "C20:escape:xml-lt"),
            '>' => assert!(b == b"&gt;", "C20:escape:xml-gt"),
            '&' => assert!(b == b"&amp;", "C20:escape:xml-amp"),
            '"' => assert!(b == b"&quot;", "C20:escape:xml-quot"),
            '\'' => assert!(b == b"&apos;", "C20:escape:xml-apos"),
            _ => {
                assert!(b.len() == slen, "C20:escape:xml-verbatim-len");
                let mut i = 0;
                while i < slen {
                    assert!(b[i] == buf[i], "C20:escape:xml-verbatim");
                    i += 1;
                }
            }
        }
    }

    // TOML bare keys: is_safe_toml_plain(s) <=> s in [A-Za-z0-9_-]+ ; escape_key_toml returns the
    // key itself iff bare, else the quoted escaped form.
    //@harness props=C05 strength=bounded bound="keys of 0..3 arbitrary ASCII bytes" clause="TOML bare-key test exact on ASCII keys; quoted otherwise" timeout=600
    #[kani::proof]
    #[kani::unwind(6)]
    fn toml_bare_key_exact() {
        let w: [u8; 3] = kani::any();
        let n: usize = kani::any();
        kani::assume(n <= 3);
        let mut ascii = true;
        let mut bare = n > 0;
        let mut i = 0;
        while i < n {
            if w[i] >= 0x80 { ascii = false; }
            let b = w[i];
            if !((b >= b'0' && b <= b'9') || (b >= b'a' && b <= b'z') || (b >= b'A' && b <= b'Z') || b == b'_' || b == b'-') { bare = false; }
            i += 1;
        }
        kani::assume(ascii);
        let s = unsafe { core::str::from_utf8_unchecked(&w[..n]) };
        assert!(is_safe_toml_plain(s) == bare, "C05:escape:toml-bare-key-iff");
    }

    // (a symbolic non-ASCII character made the harness time out on code that asks the Unicode tables -
    //  char::is_alphanumeric - so the keys are concrete: letters and digits of several scripts)
    //@harness props=C05 strength=bounded bound="the concrete keys 'e-acute', 'a' + 'e-acute', U+540D, U+0663 (Arabic-Indic digit three), U+00B2 (superscript two), 'u-umlaut' + 'x'" clause="a TOML key containing a non-ASCII letter or digit is never bare (TOML 1.0 bare keys are ASCII letters, digits, _ and - only): is_safe_toml_plain is false for it" timeout=900 replay=toml_key
    #[kani::proof]
    #[kani::unwind(70)]
    fn toml_key_with_non_ascii_char_is_quoted() {
        assert!(!is_safe_toml_plain("\u{e9}"), "C05:escape:toml-key-with-a-non-ascii-character-is-not-bare");
        assert!(!is_safe_toml_plain("a\u{e9}"), "C05:escape:toml-key-with-a-non-ascii-character-is-not-bare");
        assert!(!is_safe_toml_plain("\u{540d}"), "C05:escape:toml-key-with-a-non-ascii-character-is-not-bare");
        assert!(!is_safe_toml_plain("\u{663}"), "C05:escape:toml-key-with-a-non-ascii-character-is-not-bare");
        assert!(!is_safe_toml_plain("\u{b2}"), "C05:escape:toml-key-with-a-non-ascii-character-is-not-bare");
        assert!(!is_safe_toml_plain("\u{fc}x"), "C05:escape:toml-key-with-a-non-ascii-character-is-not-bare");
        assert!(is_safe_toml_plain("a-b_9"), "C05:escape:toml-bare-key-iff");
    }

    //@harness props=C05,C20 strength=proof expect=fail clause="canary"
    #[kani::proof]
    #[kani::unwind(8)]
    fn escape_canary() {
        let c: char = kani::any();
        let mut buf = [0u8; 4];
        let s: &str = c.encode_utf8(&mut buf);
        let mut out = String::new();
        escape_string_json(s, &mut out);
        assert!(out.len() == 3, "canary:escape:always-3-bytes");
    }
}
} // mod u
fn main() {}
