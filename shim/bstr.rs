// ---- shim BStr: fixed-capacity UTF-8 append buffer standing in for std::string::String ----
// Bound as `String` by the unit (`use BStr as String`). Capacity overrun is a shim assertion
// ("BSTR-CAP"), which the driver reports as a bound overrun (exit 2), never as a violation.
pub const BSTR_CAP: usize = 64;
#[derive(Clone, Copy)]
pub struct BStr {
    pub buf: [u8; BSTR_CAP],
    pub len: usize,
}
impl BStr {
    pub fn new() -> Self { BStr { buf: [0; BSTR_CAP], len: 0 } }
    pub fn with_capacity(_n: usize) -> Self { Self::new() }
    pub fn len(&self) -> usize { self.len }
    pub fn is_empty(&self) -> bool { self.len == 0 }
    pub fn as_bytes(&self) -> &[u8] { &self.buf[..self.len] }
    pub fn as_str(&self) -> &str { unsafe { core::str::from_utf8_unchecked(&self.buf[..self.len]) } }
    pub fn clear(&mut self) { self.len = 0; }
    pub fn push_byte(&mut self, b: u8) {
        assert!(self.len < BSTR_CAP, "BSTR-CAP");
        self.buf[self.len] = b;
        self.len += 1;
    }
    pub fn push(&mut self, c: char) {
        let cp = c as u32;
        if cp < 0x80 {
            self.push_byte(cp as u8);
        } else if cp < 0x800 {
            self.push_byte(0xC0 | (cp >> 6) as u8);
            self.push_byte(0x80 | (cp & 0x3F) as u8);
        } else if cp < 0x10000 {
            self.push_byte(0xE0 | (cp >> 12) as u8);
            self.push_byte(0x80 | ((cp >> 6) & 0x3F) as u8);
            self.push_byte(0x80 | (cp & 0x3F) as u8);
        } else {
            self.push_byte(0xF0 | (cp >> 18) as u8);
            self.push_byte(0x80 | ((cp >> 12) & 0x3F) as u8);
            self.push_byte(0x80 | ((cp >> 6) & 0x3F) as u8);
            self.push_byte(0x80 | (cp & 0x3F) as u8);
        }
    }
    pub fn push_str(&mut self, s: &str) {
        let b = s.as_bytes();
        let mut i = 0;
        while i < b.len() {
            self.push_byte(b[i]);
            i += 1;
        }
    }
    pub fn truncate(&mut self, n: usize) { if n < self.len { self.len = n; } }
    pub fn insert(&mut self, idx: usize, c: char) {
        let mut t = BStr::new();
        t.push(c);
        self.insert_str(idx, t.as_str());
    }
    pub fn insert_str(&mut self, idx: usize, s: &str) {
        let b = s.as_bytes();
        let k = b.len();
        assert!(idx <= self.len, "BSTR-INSERT-IDX");
        assert!(self.len + k <= BSTR_CAP, "BSTR-CAP");
        let mut i = self.len;
        while i > idx {
            self.buf[i - 1 + k] = self.buf[i - 1];
            i -= 1;
        }
        let mut j = 0;
        while j < k {
            self.buf[idx + j] = b[j];
            j += 1;
        }
        self.len += k;
    }
}
impl core::fmt::Write for BStr {
    fn write_str(&mut self, s: &str) -> core::fmt::Result { self.push_str(s); Ok(()) }
    fn write_char(&mut self, c: char) -> core::fmt::Result { self.push(c); Ok(()) }
}
impl core::ops::Deref for BStr {
    type Target = str;
    fn deref(&self) -> &str { self.as_str() }
}
impl From<&str> for BStr {
    fn from(s: &str) -> Self { let mut r = BStr::new(); r.push_str(s); r }
}
