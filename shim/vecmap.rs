// shim/vecmap.rs: `FHashMap<K, V>` as an insertion-ordered association list.  The real alias is
// std::collections::HashMap<K, V, foldhash::fast::RandomState>; the extracted text of the units that
// include this file uses only default / get / iter / values / insert / collect on it.  Assumption
// recorded in the evidence: a finite map; iteration order irrelevant to the results computed.
pub struct FHashMap<K, V> { items: Vec<(K, V)> }
impl<K, V> Default for FHashMap<K, V> { fn default() -> Self { FHashMap { items: Vec::new() } } }
impl<K: PartialEq, V> FHashMap<K, V> {
    pub fn get(&self, k: &K) -> Option<&V> { let mut i = 0; while i < self.items.len() { if self.items[i].0 == *k { return Some(&self.items[i].1); } i += 1; } None }
    pub fn insert(&mut self, k: K, v: V) -> Option<V> {
        let mut i = 0;
        while i < self.items.len() { if self.items[i].0 == k { return Some(std::mem::replace(&mut self.items[i].1, v)); } i += 1; }
        self.items.push((k, v)); None
    }
    pub fn len(&self) -> usize { self.items.len() }
    pub fn is_empty(&self) -> bool { self.items.is_empty() }
    pub fn iter(&self) -> FHashMapIter<'_, K, V> { FHashMapIter { m: self, i: 0 } }
    pub fn values(&self) -> FHashMapValues<'_, K, V> { FHashMapValues { m: self, i: 0 } }
}
pub struct FHashMapIter<'a, K, V> { m: &'a FHashMap<K, V>, i: usize }
impl<'a, K, V> Iterator for FHashMapIter<'a, K, V> { type Item = (&'a K, &'a V); fn next(&mut self) -> Option<Self::Item> { if self.i < self.m.items.len() { let e = &self.m.items[self.i]; self.i += 1; Some((&e.0, &e.1)) } else { None } } }
pub struct FHashMapValues<'a, K, V> { m: &'a FHashMap<K, V>, i: usize }
impl<'a, K, V> Iterator for FHashMapValues<'a, K, V> { type Item = &'a V; fn next(&mut self) -> Option<Self::Item> { if self.i < self.m.items.len() { let e = &self.m.items[self.i]; self.i += 1; Some(&e.1) } else { None } } }
impl<K: PartialEq, V> FromIterator<(K, V)> for FHashMap<K, V> { fn from_iter<I: IntoIterator<Item = (K, V)>>(it: I) -> Self { let mut m = FHashMap::default(); for (k, v) in it { m.insert(k, v); } m } }
