// shim/btshim.rs: a local module named `std` that re-exports the real std and replaces
// std::collections::{BTreeMap, btree_map::Entry} by a TWO-slot ordered map (heap slots, straight-line code).
// Needed because data.rs names `std::collections::btree_map::Entry::{Vacant, Occupied}` by full path: with
// uniform paths a local `std` module shadows the extern crate for the extracted text, which is not edited.
// The real B-tree node code made get_fields_order exceed 15 min for two-layer objects (measured).
// TRUSTED: an ordered finite map with entry API; iteration in ascending key order.  A third distinct key is
// an assertion of the shim (stated bound: two field names).
pub mod std {
    pub use ::std::*;
    pub mod collections {
        pub use ::std::collections::*;
        pub struct BTreeMap<K, V> { slots: Box<[Option<(K, V)>; 2]> }
        impl<K: Ord, V> BTreeMap<K, V> {
            pub fn new() -> Self { BTreeMap { slots: Box::new([None, None]) } }
            fn put(&mut self, k: K, v: V) {
                if let Some((kk, vv)) = &mut self.slots[0] { if *kk == k { *vv = v; return; } }
                if let Some((kk, vv)) = &mut self.slots[1] { if *kk == k { *vv = v; return; } }
                if self.slots[0].is_none() { self.slots[0] = Some((k, v)); return; }
                if self.slots[1].is_none() { self.slots[1] = Some((k, v)); return; }
                panic!("BTSHIM-CAP");
            }
            pub fn extend<I: IntoIterator<Item = (K, V)>>(&mut self, it: I) {
                let mut it = it.into_iter();
                if let Some((k, v)) = it.next() { self.put(k, v); } else { return; }
                if let Some((k, v)) = it.next() { self.put(k, v); } else { return; }
                if let Some((k, v)) = it.next() { self.put(k, v); }
            }
            pub fn entry(&mut self, key: K) -> btree_map::Entry<'_, K, V> {
                let at = if matches!(&self.slots[0], Some((kk, _)) if *kk == key) { 0 } else if matches!(&self.slots[1], Some((kk, _)) if *kk == key) { 1 } else { 2 };
                if at < 2 { btree_map::Entry::Occupied(btree_map::OccupiedEntry { slot: &mut self.slots[at] }) }
                else { btree_map::Entry::Vacant(btree_map::VacantEntry { map: self, key }) }
            }
        }
        impl<K: Ord, V> IntoIterator for BTreeMap<K, V> {
            type Item = (K, V);
            type IntoIter = btree_map::IntoIter<K, V>;
            fn into_iter(self) -> Self::IntoIter {
                let [a, b] = *self.slots;
                // ascending key order
                let (first, second) = match (a, b) {
                    (Some(x), Some(y)) => if x.0 <= y.0 { (Some(x), Some(y)) } else { (Some(y), Some(x)) },
                    (Some(x), None) => (Some(x), None),
                    (None, y) => (y, None),
                };
                btree_map::IntoIter { first, second }
            }
        }
        pub mod btree_map {
            pub enum Entry<'a, K, V> { Vacant(VacantEntry<'a, K, V>), Occupied(OccupiedEntry<'a, K, V>) }
            pub struct VacantEntry<'a, K, V> { pub(super) map: &'a mut super::BTreeMap<K, V>, pub(super) key: K }
            impl<'a, K: Ord, V> VacantEntry<'a, K, V> { pub fn insert(self, v: V) { self.map.put(self.key, v); } }
            pub struct OccupiedEntry<'a, K, V> { pub(super) slot: &'a mut Option<(K, V)> }
            impl<'a, K, V> OccupiedEntry<'a, K, V> { pub fn get_mut(&mut self) -> &mut V { match self.slot { Some((_, v)) => v, None => unreachable!() } } }
            pub struct IntoIter<K, V> { pub(super) first: Option<(K, V)>, pub(super) second: Option<(K, V)> }
            impl<K, V> Iterator for IntoIter<K, V> { type Item = (K, V); fn next(&mut self) -> Option<(K, V)> { if self.first.is_some() { self.first.take() } else { self.second.take() } } }
        }
    }
}
