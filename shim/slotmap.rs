// shim/slotmap.rs: `FHashMap<K, V>` as TWO fixed slots on the heap (no symbolic length, no loops).  The real
// alias is std::collections::HashMap<K, V, foldhash::fast::RandomState>; the extracted text of the units
// that include this file uses only default / get / iter / values / insert / collect on it.  A third distinct
// key is an assertion of the shim (a stated bound of the harness, reported as exit 2).
// Measured on the way here: an association list with conditional pushes (symbolic length) exhausted 14 GB in
// every harness; inline slots made every move of a layer a ~200-byte copy of nested enums (20 GB in the
// propositional reduction); slots scanned by `while` loops gave 608 unwindings of next() and 1.1 M steps for
// a 1+1-layer extend.  Hence: heap slots, straight-line code.
// Assumption recorded in the evidence: a finite map; iteration order irrelevant to the results computed.
pub const SLOTS: usize = 2;
pub struct FHashMap<K, V> { pub slots: Box<[Option<(K, V)>; 2]> }
impl<K, V> Default for FHashMap<K, V> { fn default() -> Self { FHashMap { slots: Box::new([None, None]) } } }
impl<K, V> FHashMap<K, V> { pub fn from_slots(a: Option<(K, V)>, b: Option<(K, V)>) -> Self { FHashMap { slots: Box::new([a, b]) } } }
impl<K: PartialEq, V> FHashMap<K, V> {
    pub fn get(&self, k: &K) -> Option<&V> {
        if let Some((kk, v)) = &self.slots[0] { if *kk == *k { return Some(v); } }
        if let Some((kk, v)) = &self.slots[1] { if *kk == *k { return Some(v); } }
        None
    }
    pub fn insert(&mut self, k: K, v: V) -> Option<V> {
        if let Some((kk, vv)) = &mut self.slots[0] { if *kk == k { return Some(std::mem::replace(vv, v)); } }
        if let Some((kk, vv)) = &mut self.slots[1] { if *kk == k { return Some(std::mem::replace(vv, v)); } }
        if self.slots[0].is_none() { self.slots[0] = Some((k, v)); return None; }
        if self.slots[1].is_none() { self.slots[1] = Some((k, v)); return None; }
        panic!("SLOTMAP-CAP");
    }
    pub fn len(&self) -> usize { self.slots[0].is_some() as usize + self.slots[1].is_some() as usize }
    pub fn is_empty(&self) -> bool { self.len() == 0 }
    pub fn iter(&self) -> FHashMapIter<'_, K, V> { FHashMapIter { m: self, i: 0 } }
    pub fn values(&self) -> FHashMapValues<'_, K, V> { FHashMapValues { m: self, i: 0 } }
}
pub struct FHashMapIter<'a, K, V> { m: &'a FHashMap<K, V>, i: u8 }
impl<'a, K, V> Iterator for FHashMapIter<'a, K, V> {
    type Item = (&'a K, &'a V);
    fn next(&mut self) -> Option<Self::Item> {
        if self.i == 0 { self.i = 1; if let Some((k, v)) = &self.m.slots[0] { return Some((k, v)); } }
        if self.i == 1 { self.i = 2; if let Some((k, v)) = &self.m.slots[1] { return Some((k, v)); } }
        None
    }
}
pub struct FHashMapValues<'a, K, V> { m: &'a FHashMap<K, V>, i: u8 }
impl<'a, K, V> Iterator for FHashMapValues<'a, K, V> {
    type Item = &'a V;
    fn next(&mut self) -> Option<Self::Item> {
        if self.i == 0 { self.i = 1; if let Some((_, v)) = &self.m.slots[0] { return Some(v); } }
        if self.i == 1 { self.i = 2; if let Some((_, v)) = &self.m.slots[1] { return Some(v); } }
        None
    }
}
impl<K: PartialEq, V> FromIterator<(K, V)> for FHashMap<K, V> {
    fn from_iter<I: IntoIterator<Item = (K, V)>>(it: I) -> Self {
        // at most two items fit; a third is the capacity assertion inside insert
        let mut m = FHashMap::default();
        let mut it = it.into_iter();
        if let Some((k, v)) = it.next() { m.insert(k, v); } else { return m; }
        if let Some((k, v)) = it.next() { m.insert(k, v); } else { return m; }
        if let Some((k, v)) = it.next() { m.insert(k, v); }
        m
    }
}
