// shim/slotmap.rs: `FHashMap<K, V>` as SLOTS fixed slots (no symbolic length).  The real alias is
// std::collections::HashMap<K, V, foldhash::fast::RandomState>; the extracted text of the units that
// include this file uses only default / get / iter / values / insert / collect on it.  More than SLOTS
// distinct keys is an assertion of the shim (a stated bound of the harness, reported as exit 2).
// Assumption recorded in the evidence: a finite map; iteration order irrelevant to the results computed.
pub const SLOTS: usize = 2;
// the slots live on the heap: a layer that embeds the map stays a few words, so moving layers around is
// cheap for CBMC (an inline [Option<(K, V)>; 2] made every move of a layer a ~200-byte copy of nested
// enums and the propositional reduction ran out of 20 GB - measured)
pub struct FHashMap<K, V> { pub slots: Vec<Option<(K, V)>> }
impl<K, V> Default for FHashMap<K, V> { fn default() -> Self { let mut v = Vec::with_capacity(SLOTS); let mut i = 0; while i < SLOTS { v.push(None); i += 1; } FHashMap { slots: v } } }
impl<K, V> FHashMap<K, V> { pub fn from_slots(a: Option<(K, V)>, b: Option<(K, V)>) -> Self { let mut v = Vec::with_capacity(SLOTS); v.push(a); v.push(b); FHashMap { slots: v } } }
impl<K: PartialEq, V> FHashMap<K, V> {
    pub fn get(&self, k: &K) -> Option<&V> { let mut i = 0; while i < SLOTS { if let Some((kk, v)) = &self.slots[i] { if *kk == *k { return Some(v); } } i += 1; } None }
    pub fn insert(&mut self, k: K, v: V) -> Option<V> {
        let mut i = 0;
        while i < SLOTS { if let Some((kk, vv)) = &mut self.slots[i] { if *kk == k { return Some(std::mem::replace(vv, v)); } } i += 1; }
        i = 0;
        while i < SLOTS { if self.slots[i].is_none() { self.slots[i] = Some((k, v)); return None; } i += 1; }
        panic!("SLOTMAP-CAP");
    }
    pub fn len(&self) -> usize { let mut n = 0; let mut i = 0; while i < SLOTS { if self.slots[i].is_some() { n += 1; } i += 1; } n }
    pub fn is_empty(&self) -> bool { self.len() == 0 }
    pub fn iter(&self) -> FHashMapIter<'_, K, V> { FHashMapIter { m: self, i: 0 } }
    pub fn values(&self) -> FHashMapValues<'_, K, V> { FHashMapValues { m: self, i: 0 } }
}
pub struct FHashMapIter<'a, K, V> { m: &'a FHashMap<K, V>, i: usize }
impl<'a, K, V> Iterator for FHashMapIter<'a, K, V> { type Item = (&'a K, &'a V); fn next(&mut self) -> Option<Self::Item> { while self.i < SLOTS { let j = self.i; self.i += 1; if let Some((k, v)) = &self.m.slots[j] { return Some((k, v)); } } None } }
pub struct FHashMapValues<'a, K, V> { m: &'a FHashMap<K, V>, i: usize }
impl<'a, K, V> Iterator for FHashMapValues<'a, K, V> { type Item = &'a V; fn next(&mut self) -> Option<Self::Item> { while self.i < SLOTS { let j = self.i; self.i += 1; if let Some((_, v)) = &self.m.slots[j] { return Some(v); } } None } }
impl<K: PartialEq, V> FromIterator<(K, V)> for FHashMap<K, V> { fn from_iter<I: IntoIterator<Item = (K, V)>>(it: I) -> Self { let mut m = FHashMap::default(); for (k, v) in it { m.insert(k, v); } m } }
