//@lemma props=C17
// Composition lemma for C17 (std.sort, merge phase).  The step contracts that Kani discharges on the real
// do_std_sort_merge_pre_compare / do_std_sort_merge_post_compare (units/sortset: merge_pre_* instances and
// merge_post_compare_contract) are transcribed below as the transition function of an abstract machine:
//   * a run exhausted  => the rest of the other run is copied in order            (merge_pre, exhausted case)
//   * otherwise the two run heads are compared, left head first operand            (merge_pre, compare case)
//   * left key <= right key => the LEFT head is placed, else the right head; the taken run advances by one,
//     the element is placed at the next output position                            (merge_post)
// Elements are identified by TAGS: tag i < |L| is element i of the left run, tag |L| + j is element j of the
// right run; the left run precedes the right run in the input, so "input order" is tag order.
// Proved here, for runs of EVERY length, by induction on the number of elements left:
//   * the output lists each element of both runs exactly once (a permutation),
//   * if both runs are sorted by key, the output is sorted by key,
//   * and it is STABLE: elements with equal keys appear in input (tag) order.
// This file contains no code of /repo and models nothing but the CONTRACT TEXTS; if a step function stops
// satisfying its contract the Kani harness fails, not this lemma.  The bounded part of the argument is the
// Kani side (runs of <= 3 elements); this lemma removes the bound from the composition only.
use vstd::prelude::*;
verus! {

pub open spec fn sorted(k: Seq<int>) -> bool { forall|a: int, b: int| 0 <= a <= b < k.len() ==> k[a] <= k[b] }

pub open spec fn key_of(kl: Seq<int>, kr: Seq<int>, tag: int) -> int {
    if tag < kl.len() { kl[tag] } else { kr[tag - kl.len()] }
}

// the machine described by the step contracts: output tags from progress (li, ri) on
pub open spec fn merge_m(kl: Seq<int>, kr: Seq<int>, li: int, ri: int) -> Seq<int>
    decreases (kl.len() - li) + (kr.len() - ri),
{
    if !(0 <= li <= kl.len() && 0 <= ri <= kr.len()) { Seq::empty() }
    else if li == kl.len() && ri == kr.len() { Seq::empty() }
    else if li == kl.len() { seq![kl.len() + ri] + merge_m(kl, kr, li, ri + 1) }      // rest of the right run, in order
    else if ri == kr.len() { seq![li] + merge_m(kl, kr, li + 1, ri) }                  // rest of the left run, in order
    else if kl[li] <= kr[ri] { seq![li] + merge_m(kl, kr, li + 1, ri) }                // tie or smaller: LEFT head
    else { seq![kl.len() + ri] + merge_m(kl, kr, li, ri + 1) }                          // strictly smaller: right head
}

// a tag that is still to be placed at progress (li, ri)
pub open spec fn pending(kl: Seq<int>, kr: Seq<int>, li: int, ri: int, t: int) -> bool {
    (li <= t < kl.len()) || (kl.len() + ri <= t < kl.len() + kr.len())
}

proof fn lemma_len_and_range(kl: Seq<int>, kr: Seq<int>, li: int, ri: int)
    requires 0 <= li <= kl.len(), 0 <= ri <= kr.len(),
    ensures
        merge_m(kl, kr, li, ri).len() == (kl.len() - li) + (kr.len() - ri),
        forall|p: int| 0 <= p < merge_m(kl, kr, li, ri).len() ==> pending(kl, kr, li, ri, #[trigger] merge_m(kl, kr, li, ri)[p]),
    decreases (kl.len() - li) + (kr.len() - ri),
{
    if li == kl.len() && ri == kr.len() {
    } else if li == kl.len() || (ri < kr.len() && !(kl[li] <= kr[ri])) {
        lemma_len_and_range(kl, kr, li, ri + 1);
        let t = merge_m(kl, kr, li, ri + 1);
        let out = merge_m(kl, kr, li, ri);
        assert(out =~= seq![kl.len() + ri] + t);
        assert forall|p: int| 0 <= p < out.len() implies pending(kl, kr, li, ri, #[trigger] out[p]) by {
            if p > 0 { assert(out[p] == t[p - 1]); assert(pending(kl, kr, li, ri + 1, t[p - 1])); }
        }
    } else {
        lemma_len_and_range(kl, kr, li + 1, ri);
        let t = merge_m(kl, kr, li + 1, ri);
        let out = merge_m(kl, kr, li, ri);
        assert(out =~= seq![li] + t);
        assert forall|p: int| 0 <= p < out.len() implies pending(kl, kr, li, ri, #[trigger] out[p]) by {
            if p > 0 { assert(out[p] == t[p - 1]); assert(pending(kl, kr, li + 1, ri, t[p - 1])); }
        }
    }
}

// every pending element is placed (with lemma_len_and_range: exactly the pending ones, and as many => once each)
proof fn lemma_every_pending_is_placed(kl: Seq<int>, kr: Seq<int>, li: int, ri: int, t: int)
    requires 0 <= li <= kl.len(), 0 <= ri <= kr.len(), pending(kl, kr, li, ri, t),
    ensures merge_m(kl, kr, li, ri).contains(t),
    decreases (kl.len() - li) + (kr.len() - ri),
{
    let out = merge_m(kl, kr, li, ri);
    if li == kl.len() || (ri < kr.len() && !(kl[li] <= kr[ri])) {
        let tl = merge_m(kl, kr, li, ri + 1);
        assert(out =~= seq![kl.len() + ri] + tl);
        if t == kl.len() + ri { assert(out[0] == t); }
        else { lemma_every_pending_is_placed(kl, kr, li, ri + 1, t); let q = choose|q: int| 0 <= q < tl.len() && tl[q] == t; assert(out[q + 1] == t); }
    } else {
        let tl = merge_m(kl, kr, li + 1, ri);
        assert(out =~= seq![li] + tl);
        if t == li { assert(out[0] == t); }
        else { lemma_every_pending_is_placed(kl, kr, li + 1, ri, t); let q = choose|q: int| 0 <= q < tl.len() && tl[q] == t; assert(out[q + 1] == t); }
    }
}

// sorted by key, and stable: equal keys keep tag (= input) order
pub open spec fn sorted_stable(kl: Seq<int>, kr: Seq<int>, out: Seq<int>) -> bool {
    forall|p: int, q: int| #![auto] 0 <= p < q < out.len() ==>
        key_of(kl, kr, out[p]) <= key_of(kl, kr, out[q]) && (key_of(kl, kr, out[p]) == key_of(kl, kr, out[q]) ==> out[p] < out[q])
}

proof fn lemma_merge_sorted_stable(kl: Seq<int>, kr: Seq<int>, li: int, ri: int)
    requires 0 <= li <= kl.len(), 0 <= ri <= kr.len(), sorted(kl), sorted(kr),
    ensures sorted_stable(kl, kr, merge_m(kl, kr, li, ri)),
    decreases (kl.len() - li) + (kr.len() - ri),
{
    let out = merge_m(kl, kr, li, ri);
    if li == kl.len() && ri == kr.len() {
    } else if li == kl.len() || (ri < kr.len() && !(kl[li] <= kr[ri])) {
        // head = right element ri
        let tl = merge_m(kl, kr, li, ri + 1);
        lemma_merge_sorted_stable(kl, kr, li, ri + 1);
        lemma_len_and_range(kl, kr, li, ri + 1);
        assert(out =~= seq![kl.len() + ri] + tl);
        let h = kl.len() + ri;
        assert forall|p: int, q: int| #![auto] 0 <= p < q < out.len() implies
            key_of(kl, kr, out[p]) <= key_of(kl, kr, out[q]) && (key_of(kl, kr, out[p]) == key_of(kl, kr, out[q]) ==> out[p] < out[q]) by {
            if p == 0 {
                let t = tl[q - 1];
                assert(out[q] == t);
                assert(pending(kl, kr, li, ri + 1, t));
                if t < kl.len() {
                    // a left element still pending: li <= t, and the head was taken because kl[li] > kr[ri]
                    assert(li < kl.len());
                    assert(kl[li] <= kl[t]);
                    assert(kr[ri] < kl[li]);
                } else {
                    assert(kr[ri] <= kr[t - kl.len()]);
                }
            } else {
                assert(out[p] == tl[p - 1] && out[q] == tl[q - 1]);
            }
        }
    } else {
        // head = left element li (right run exhausted, or kl[li] <= kr[ri])
        let tl = merge_m(kl, kr, li + 1, ri);
        lemma_merge_sorted_stable(kl, kr, li + 1, ri);
        lemma_len_and_range(kl, kr, li + 1, ri);
        assert(out =~= seq![li] + tl);
        assert forall|p: int, q: int| #![auto] 0 <= p < q < out.len() implies
            key_of(kl, kr, out[p]) <= key_of(kl, kr, out[q]) && (key_of(kl, kr, out[p]) == key_of(kl, kr, out[q]) ==> out[p] < out[q]) by {
            if p == 0 {
                let t = tl[q - 1];
                assert(out[q] == t);
                assert(pending(kl, kr, li + 1, ri, t));
                if t < kl.len() {
                    assert(kl[li] <= kl[t]);
                } else {
                    // a right element still pending: ri <= t - |L| < |R|, so the right run was not exhausted
                    assert(ri < kr.len());
                    assert(kr[ri] <= kr[t - kl.len()]);
                    assert(kl[li] <= kr[ri]);
                }
            } else {
                assert(out[p] == tl[p - 1] && out[q] == tl[q - 1]);
            }
        }
    }
}

// ---- the statement used by C17: merging two sorted runs gives a stable sorted permutation, for every length
pub proof fn lemma_merge_is_a_stable_sorted_permutation(kl: Seq<int>, kr: Seq<int>)
    requires sorted(kl), sorted(kr),
    ensures
        merge_m(kl, kr, 0, 0).len() == kl.len() + kr.len(),
        forall|t: int| 0 <= t < kl.len() + kr.len() ==> merge_m(kl, kr, 0, 0).contains(t),
        forall|p: int| 0 <= p < merge_m(kl, kr, 0, 0).len() ==> 0 <= #[trigger] merge_m(kl, kr, 0, 0)[p] < kl.len() + kr.len(),
        sorted_stable(kl, kr, merge_m(kl, kr, 0, 0)),
{
    lemma_len_and_range(kl, kr, 0, 0);
    lemma_merge_sorted_stable(kl, kr, 0, 0);
    assert forall|t: int| 0 <= t < kl.len() + kr.len() implies merge_m(kl, kr, 0, 0).contains(t) by {
        lemma_every_pending_is_placed(kl, kr, 0, 0, t);
    }
}

// stability really depends on the tie rule: with "take the right head on a tie" the output is NOT stable
// (a two-element witness) - guards against a vacuous definition of sorted_stable
pub open spec fn merge_bad(kl: Seq<int>, kr: Seq<int>) -> Seq<int> { seq![kl.len() as int, 0int] }
pub proof fn lemma_tie_rule_matters()
    ensures !sorted_stable(seq![5int], seq![5int], merge_bad(seq![5int], seq![5int])),
{
    let kl = seq![5int]; let kr = seq![5int];
    let out = merge_bad(kl, kr);
    assert(out[0] == 1 && out[1] == 0);
    assert(key_of(kl, kr, out[0]) == key_of(kl, kr, out[1]));
    assert(!(out[0] < out[1]));
}

} // verus!
fn main() {}
