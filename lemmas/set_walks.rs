//@lemma props=C17
// Composition lemma for C17 (std.setInter / setUnion / setDiff).  The step contracts that Kani discharges on
// the real do_std_set_{inter,union,diff}_aux (units/sortset: set_*_at_* instances; entry conditions from the
// builtins' own empty-set shortcuts) are transcribed as the transition function of an abstract two-pointer
// machine over the KEYS of the two inputs:
//   inter: less => A advances; equal => A's element emitted, both advance; greater => B advances;
//          the walk ends when either side is exhausted
//   union: less => A's element emitted; equal => A's element emitted once, both advance; greater => B's element
//          emitted; when one side is exhausted the rest of the other is appended in order
//   diff:  less => A's element emitted; equal => dropped, both advance; greater => B advances;
//          when B is exhausted the rest of A is appended, when A is exhausted the walk ends
// Proved here for inputs of EVERY length that are sets (strictly increasing keys), by induction on the number
// of elements left: the output contains exactly the keys of the intersection / union / difference, and is
// itself strictly increasing (a set, no duplicates).
// This file contains no code of /repo and models nothing but the CONTRACT TEXTS.
use vstd::prelude::*;
verus! {

pub open spec fn strict(s: Seq<int>) -> bool { forall|a: int, b: int| #![auto] 0 <= a < b < s.len() ==> s[a] < s[b] }
pub open spec fn has_from(s: Seq<int>, i: int, x: int) -> bool { exists|k: int| i <= k < s.len() && #[trigger] s[k] == x }
// every element of `out` is > lo (lo = "everything already emitted / skipped")
pub open spec fn all_above(out: Seq<int>, lo: int) -> bool { forall|p: int| 0 <= p < out.len() ==> #[trigger] out[p] > lo }

// ---------------------------------------------------------------------------------------------- machines
pub open spec fn inter_m(a: Seq<int>, b: Seq<int>, i: int, j: int) -> Seq<int>
    decreases (a.len() - i) + (b.len() - j),
{
    if !(0 <= i < a.len() && 0 <= j < b.len()) { Seq::empty() }
    else if a[i] < b[j] { inter_m(a, b, i + 1, j) }
    else if a[i] == b[j] { seq![a[i]] + inter_m(a, b, i + 1, j + 1) }
    else { inter_m(a, b, i, j + 1) }
}
pub open spec fn union_m(a: Seq<int>, b: Seq<int>, i: int, j: int) -> Seq<int>
    decreases (a.len() - i) + (b.len() - j),
{
    if !(0 <= i <= a.len() && 0 <= j <= b.len()) { Seq::empty() }
    else if i == a.len() { b.subrange(j, b.len() as int) }
    else if j == b.len() { a.subrange(i, a.len() as int) }
    else if a[i] < b[j] { seq![a[i]] + union_m(a, b, i + 1, j) }
    else if a[i] == b[j] { seq![a[i]] + union_m(a, b, i + 1, j + 1) }
    else { seq![b[j]] + union_m(a, b, i, j + 1) }
}
pub open spec fn diff_m(a: Seq<int>, b: Seq<int>, i: int, j: int) -> Seq<int>
    decreases (a.len() - i) + (b.len() - j),
{
    if !(0 <= i <= a.len() && 0 <= j <= b.len()) { Seq::empty() }
    else if i == a.len() { Seq::empty() }
    else if j == b.len() { a.subrange(i, a.len() as int) }
    else if a[i] < b[j] { seq![a[i]] + diff_m(a, b, i + 1, j) }
    else if a[i] == b[j] { diff_m(a, b, i + 1, j + 1) }
    else { diff_m(a, b, i, j + 1) }
}

// ---------------------------------------------------------------------------------------------- helpers
proof fn lemma_strict_tail_above(s: Seq<int>, i: int, x: int)
    requires strict(s), 0 <= i < s.len(), has_from(s, i + 1, x),
    ensures x > s[i],
{
    let k = choose|k: int| i + 1 <= k < s.len() && s[k] == x;
    assert(s[i] < s[k]);
}
proof fn lemma_not_in_tail_if_below(s: Seq<int>, j: int, x: int)
    requires strict(s), 0 <= j < s.len(), x < s[j],
    ensures !has_from(s, j, x),
{
    if has_from(s, j, x) {
        let k = choose|k: int| j <= k < s.len() && s[k] == x;
        if k > j { assert(s[j] < s[k]); }
    }
}
proof fn lemma_has_from_step(s: Seq<int>, i: int, x: int)
    requires 0 <= i < s.len(),
    ensures has_from(s, i, x) == (s[i] == x || has_from(s, i + 1, x)),
{
    if has_from(s, i, x) {
        let k = choose|k: int| i <= k < s.len() && s[k] == x;
        if k != i { assert(i + 1 <= k < s.len() && s[k] == x); }
    }
    if s[i] == x { assert(i <= i < s.len() && s[i] == x); }
    if has_from(s, i + 1, x) { let k = choose|k: int| i + 1 <= k < s.len() && s[k] == x; assert(i <= k < s.len() && s[k] == x); }
}
proof fn lemma_subrange_has(s: Seq<int>, i: int, x: int)
    requires 0 <= i <= s.len(),
    ensures s.subrange(i, s.len() as int).contains(x) == has_from(s, i, x),
{
    let t = s.subrange(i, s.len() as int);
    if t.contains(x) { let q = choose|q: int| 0 <= q < t.len() && t[q] == x; assert(s[i + q] == x); assert(i <= i + q < s.len()); }
    if has_from(s, i, x) { let k = choose|k: int| i <= k < s.len() && s[k] == x; assert(t[k - i] == x); }
}
proof fn lemma_cons_contains(h: int, t: Seq<int>, x: int)
    ensures (seq![h] + t).contains(x) == (h == x || t.contains(x)),
{
    let o = seq![h] + t;
    if o.contains(x) { let q = choose|q: int| 0 <= q < o.len() && o[q] == x; if q > 0 { assert(t[q - 1] == x); } }
    if h == x { assert(o[0] == x); }
    if t.contains(x) { let q = choose|q: int| 0 <= q < t.len() && t[q] == x; assert(o[q + 1] == x); }
}
proof fn lemma_cons_strict(h: int, t: Seq<int>)
    requires strict(t), all_above(t, h),
    ensures strict(seq![h] + t),
{
    let o = seq![h] + t;
    assert forall|a: int, b: int| #![auto] 0 <= a < b < o.len() implies o[a] < o[b] by {
        if a == 0 { assert(o[b] == t[b - 1]); } else { assert(o[a] == t[a - 1] && o[b] == t[b - 1]); }
    }
}

// ---------------------------------------------------------------------------------------------- intersection
proof fn lemma_inter(a: Seq<int>, b: Seq<int>, i: int, j: int)
    requires strict(a), strict(b), 0 <= i <= a.len(), 0 <= j <= b.len(),
    ensures
        forall|x: int| #![auto] inter_m(a, b, i, j).contains(x) == (has_from(a, i, x) && has_from(b, j, x)),
        strict(inter_m(a, b, i, j)),
        forall|lo: int| (forall|k: int| i <= k < a.len() ==> #[trigger] a[k] > lo) ==> all_above(inter_m(a, b, i, j), lo),
    decreases (a.len() - i) + (b.len() - j),
{
    let out = inter_m(a, b, i, j);
    if !(i < a.len() && j < b.len()) {
        assert forall|x: int| #![auto] out.contains(x) == (has_from(a, i, x) && has_from(b, j, x)) by { }
    } else if a[i] < b[j] {
        lemma_inter(a, b, i + 1, j);
        assert forall|x: int| #![auto] out.contains(x) == (has_from(a, i, x) && has_from(b, j, x)) by {
            lemma_has_from_step(a, i, x);
            if a[i] == x { lemma_not_in_tail_if_below(b, j, x); }
        }
    } else if a[i] == b[j] {
        lemma_inter(a, b, i + 1, j + 1);
        let t = inter_m(a, b, i + 1, j + 1);
        assert forall|x: int| #![auto] out.contains(x) == (has_from(a, i, x) && has_from(b, j, x)) by {
            lemma_cons_contains(a[i], t, x);
            lemma_has_from_step(a, i, x); lemma_has_from_step(b, j, x);
            if x != a[i] {
            } else {
                // x == a[i] == b[j]: in both
            }
            if has_from(a, i + 1, x) && !has_from(b, j + 1, x) && x != a[i] { }
            if has_from(a, i + 1, x) { lemma_strict_tail_above(a, i, x); }
            if has_from(b, j + 1, x) { lemma_strict_tail_above(b, j, x); }
        }
        assert(all_above(t, a[i])) by { assert forall|k: int| i + 1 <= k < a.len() implies #[trigger] a[k] > a[i] by { assert(a[i] < a[k]); } }
        lemma_cons_strict(a[i], t);
        assert forall|lo: int| (forall|k: int| i <= k < a.len() ==> #[trigger] a[k] > lo) implies all_above(out, lo) by {
            assert(a[i] > lo);
            assert forall|p: int| 0 <= p < out.len() implies #[trigger] out[p] > lo by { if p > 0 { assert(out[p] == t[p - 1]); assert(t[p - 1] > a[i]); } }
        }
    } else {
        lemma_inter(a, b, i, j + 1);
        assert forall|x: int| #![auto] out.contains(x) == (has_from(a, i, x) && has_from(b, j, x)) by {
            lemma_has_from_step(b, j, x);
            if b[j] == x { lemma_not_in_tail_if_below(a, i, x); }
        }
    }
}

// ---------------------------------------------------------------------------------------------- union
proof fn lemma_union(a: Seq<int>, b: Seq<int>, i: int, j: int)
    requires strict(a), strict(b), 0 <= i <= a.len(), 0 <= j <= b.len(),
    ensures
        forall|x: int| #![auto] union_m(a, b, i, j).contains(x) == (has_from(a, i, x) || has_from(b, j, x)),
        strict(union_m(a, b, i, j)),
        forall|lo: int| (forall|k: int| i <= k < a.len() ==> #[trigger] a[k] > lo) && (forall|k: int| j <= k < b.len() ==> #[trigger] b[k] > lo) ==> all_above(union_m(a, b, i, j), lo),
    decreases (a.len() - i) + (b.len() - j),
{
    let out = union_m(a, b, i, j);
    if i == a.len() {
        assert forall|x: int| #![auto] out.contains(x) == (has_from(a, i, x) || has_from(b, j, x)) by { lemma_subrange_has(b, j, x); }
        assert forall|p: int, q: int| #![auto] 0 <= p < q < out.len() implies out[p] < out[q] by { assert(b[j + p] < b[j + q]); }
    } else if j == b.len() {
        assert forall|x: int| #![auto] out.contains(x) == (has_from(a, i, x) || has_from(b, j, x)) by { lemma_subrange_has(a, i, x); }
        assert forall|p: int, q: int| #![auto] 0 <= p < q < out.len() implies out[p] < out[q] by { assert(a[i + p] < a[i + q]); }
    } else {
        let (h, ni, nj) = if a[i] < b[j] { (a[i], i + 1, j) } else if a[i] == b[j] { (a[i], i + 1, j + 1) } else { (b[j], i, j + 1) };
        lemma_union(a, b, ni, nj);
        let t = union_m(a, b, ni, nj);
        assert(out =~= seq![h] + t);
        assert forall|x: int| #![auto] out.contains(x) == (has_from(a, i, x) || has_from(b, j, x)) by {
            lemma_cons_contains(h, t, x);
            lemma_has_from_step(a, i, x); lemma_has_from_step(b, j, x);
        }
        // everything still to come is above the head
        assert forall|k: int| ni <= k < a.len() implies #[trigger] a[k] > h by { if k > i { assert(a[i] < a[k]); } }
        assert forall|k: int| nj <= k < b.len() implies #[trigger] b[k] > h by { if k > j { assert(b[j] < b[k]); } }
        assert(all_above(t, h));
        lemma_cons_strict(h, t);
        assert forall|lo: int| (forall|k: int| i <= k < a.len() ==> #[trigger] a[k] > lo) && (forall|k: int| j <= k < b.len() ==> #[trigger] b[k] > lo) implies all_above(out, lo) by {
            assert(a[i] > lo && b[j] > lo);
            assert forall|p: int| 0 <= p < out.len() implies #[trigger] out[p] > lo by { if p > 0 { assert(out[p] == t[p - 1]); assert(t[p - 1] > h); } }
        }
    }
}

// ---------------------------------------------------------------------------------------------- difference
proof fn lemma_diff(a: Seq<int>, b: Seq<int>, i: int, j: int)
    requires strict(a), strict(b), 0 <= i <= a.len(), 0 <= j <= b.len(),
    ensures
        forall|x: int| #![auto] diff_m(a, b, i, j).contains(x) == (has_from(a, i, x) && !has_from(b, j, x)),
        strict(diff_m(a, b, i, j)),
        forall|lo: int| (forall|k: int| i <= k < a.len() ==> #[trigger] a[k] > lo) ==> all_above(diff_m(a, b, i, j), lo),
    decreases (a.len() - i) + (b.len() - j),
{
    let out = diff_m(a, b, i, j);
    if i == a.len() {
        assert forall|x: int| #![auto] out.contains(x) == (has_from(a, i, x) && !has_from(b, j, x)) by { }
    } else if j == b.len() {
        assert forall|x: int| #![auto] out.contains(x) == (has_from(a, i, x) && !has_from(b, j, x)) by { lemma_subrange_has(a, i, x); }
        assert forall|p: int, q: int| #![auto] 0 <= p < q < out.len() implies out[p] < out[q] by { assert(a[i + p] < a[i + q]); }
    } else if a[i] < b[j] {
        lemma_diff(a, b, i + 1, j);
        let t = diff_m(a, b, i + 1, j);
        assert forall|x: int| #![auto] out.contains(x) == (has_from(a, i, x) && !has_from(b, j, x)) by {
            lemma_cons_contains(a[i], t, x);
            lemma_has_from_step(a, i, x);
            if a[i] == x { lemma_not_in_tail_if_below(b, j, x); }
        }
        assert(all_above(t, a[i])) by { assert forall|k: int| i + 1 <= k < a.len() implies #[trigger] a[k] > a[i] by { assert(a[i] < a[k]); } }
        lemma_cons_strict(a[i], t);
        assert forall|lo: int| (forall|k: int| i <= k < a.len() ==> #[trigger] a[k] > lo) implies all_above(out, lo) by {
            assert(a[i] > lo);
            assert forall|p: int| 0 <= p < out.len() implies #[trigger] out[p] > lo by { if p > 0 { assert(out[p] == t[p - 1]); assert(t[p - 1] > a[i]); } }
        }
    } else if a[i] == b[j] {
        lemma_diff(a, b, i + 1, j + 1);
        assert forall|x: int| #![auto] out.contains(x) == (has_from(a, i, x) && !has_from(b, j, x)) by {
            lemma_has_from_step(a, i, x); lemma_has_from_step(b, j, x);
            if has_from(a, i + 1, x) { lemma_strict_tail_above(a, i, x); }
        }
    } else {
        lemma_diff(a, b, i, j + 1);
        assert forall|x: int| #![auto] out.contains(x) == (has_from(a, i, x) && !has_from(b, j, x)) by {
            lemma_has_from_step(b, j, x);
            if b[j] == x { lemma_not_in_tail_if_below(a, i, x); }
        }
    }
}

// ---- the statements used by C17 (inputs that are sets, of every length) ------------------------------------
pub proof fn lemma_set_inter_is_intersection(a: Seq<int>, b: Seq<int>)
    requires strict(a), strict(b),
    ensures forall|x: int| #![auto] inter_m(a, b, 0, 0).contains(x) == (a.contains(x) && b.contains(x)), strict(inter_m(a, b, 0, 0)),
{
    lemma_inter(a, b, 0, 0);
    assert forall|x: int| #![auto] inter_m(a, b, 0, 0).contains(x) == (a.contains(x) && b.contains(x)) by {
        lemma_subrange_has(a, 0, x); lemma_subrange_has(b, 0, x);
        assert(a.subrange(0, a.len() as int) =~= a); assert(b.subrange(0, b.len() as int) =~= b);
    }
}
pub proof fn lemma_set_union_is_union(a: Seq<int>, b: Seq<int>)
    requires strict(a), strict(b),
    ensures forall|x: int| #![auto] union_m(a, b, 0, 0).contains(x) == (a.contains(x) || b.contains(x)), strict(union_m(a, b, 0, 0)),
{
    lemma_union(a, b, 0, 0);
    assert forall|x: int| #![auto] union_m(a, b, 0, 0).contains(x) == (a.contains(x) || b.contains(x)) by {
        lemma_subrange_has(a, 0, x); lemma_subrange_has(b, 0, x);
        assert(a.subrange(0, a.len() as int) =~= a); assert(b.subrange(0, b.len() as int) =~= b);
    }
}
pub proof fn lemma_set_diff_is_difference(a: Seq<int>, b: Seq<int>)
    requires strict(a), strict(b),
    ensures forall|x: int| #![auto] diff_m(a, b, 0, 0).contains(x) == (a.contains(x) && !b.contains(x)), strict(diff_m(a, b, 0, 0)),
{
    lemma_diff(a, b, 0, 0);
    assert forall|x: int| #![auto] diff_m(a, b, 0, 0).contains(x) == (a.contains(x) && !b.contains(x)) by {
        lemma_subrange_has(a, 0, x); lemma_subrange_has(b, 0, x);
        assert(a.subrange(0, a.len() as int) =~= a); assert(b.subrange(0, b.len() as int) =~= b);
    }
}

} // verus!
fn main() {}
